// ---------------------------------------------------------------------------
// lemmas/bricks.rs -- proved lemmas of unit `bricks` (property C06, brick-sequence domain): languages of bricks
// (powers of a set of strings, repetition bounds) and of brick lists (concatenation), by induction.
// ---------------------------------------------------------------------------

/// a brick with bounds {0,0} represents exactly the empty string, whatever its set is
pub proof fn lemma_br_empty_brick()
    ensures
        forall |set: Set<String>, w: Seq<char>| #[trigger] br_rep(set, 0, 0, w) <==> w.len() == 0,
{
    assert forall |set: Set<String>, w: Seq<char>| #[trigger] br_rep(set, 0, 0, w) <==> w.len() == 0 by {
        if w.len() == 0 {
            assert(w =~= Seq::<char>::empty());
            assert(br_pow(set, 0, w));
        }
    }
}

/// [{s}]^{1,1} represents exactly s
pub proof fn lemma_br_singleton(set: Set<String>, s: String, w: Seq<char>)
    requires
        forall |t: String| #[trigger] set.contains(t) <==> t == s,
    ensures
        br_rep(set, 1, 1, w) <==> w == s@,
{
    if br_rep(set, 1, 1, w) {
        let k = choose |k: nat| 1 <= k <= 1 && #[trigger] br_pow(set, k, w);
        assert(br_pow(set, 1, w));
        let (u, v) = choose |u: Seq<char>, v: Seq<char>| #![trigger u + v]
            br_member(set, u) && br_pow(set, 0, v) && w =~= u + v;
        assert(w =~= s@);
    }
    if w == s@ {
        assert(set.contains(s));
        assert(br_member(set, s@));
        assert(br_pow(set, 0, Seq::<char>::empty()));
        assert(w =~= s@ + Seq::<char>::empty());
        assert(br_pow(set, 1, w));
    }
}

pub proof fn lemma_br_singleton_all()
    ensures
        forall |set: Set<String>, s: String, w: Seq<char>| (forall |t: String| #[trigger] set.contains(t) <==> t == s)
            ==> (#[trigger] br_rep(set, 1, 1, w) <==> w == #[trigger] s@),
{
    assert forall |set: Set<String>, s: String, w: Seq<char>| (forall |t: String| #[trigger] set.contains(t) <==> t == s)
        implies (#[trigger] br_rep(set, 1, 1, w) <==> w == #[trigger] s@) by {
        lemma_br_singleton(set, s, w);
    }
}

/// powers are monotone in the set of strings
pub proof fn lemma_br_pow_mono(a: Set<String>, b: Set<String>, k: nat, w: Seq<char>)
    requires
        forall |u: Seq<char>| br_member(a, u) ==> #[trigger] br_member(b, u),
        br_pow(a, k, w),
    ensures
        br_pow(b, k, w),
    decreases k
{
    if k > 0 {
        let (u, v) = choose |u: Seq<char>, v: Seq<char>| #![trigger u + v]
            br_member(a, u) && br_pow(a, (k - 1) as nat, v) && w =~= u + v;
        lemma_br_pow_mono(a, b, (k - 1) as nat, v);
        assert(br_member(b, u));
    }
}

/// a brick is monotone in its set and in its bounds
pub proof fn lemma_br_rep_mono(a: Set<String>, lo_a: nat, hi_a: nat, b: Set<String>, lo_b: nat, hi_b: nat, w: Seq<char>)
    requires
        forall |u: Seq<char>| br_member(a, u) ==> #[trigger] br_member(b, u),
        lo_b <= lo_a, hi_a <= hi_b,
        br_rep(a, lo_a, hi_a, w),
    ensures
        br_rep(b, lo_b, hi_b, w),
{
    let k = choose |k: nat| lo_a <= k <= hi_a && #[trigger] br_pow(a, k, w);
    lemma_br_pow_mono(a, b, k, w);
}

/// BrickDomain::widen: every brick whose set holds the members of both sets and whose bounds span both bounds (or are
/// {0, u32::MAX}) represents what the two bricks represent
pub proof fn lemma_br_widen_brick(x: Brick, y: Brick)
    ensures
        forall |r: Brick, w: Seq<char>|
            (forall |u: Seq<char>| br_member(x.sequence@, u) || br_member(y.sequence@, u) ==> #[trigger] br_member(r.sequence@, u))
            && r.min <= x.min && r.min <= y.min && x.max <= r.max && y.max <= r.max
            && (x.br_gamma(w) || y.br_gamma(w))
            ==> #[trigger] r.br_gamma(w),
{
    assert forall |r: Brick, w: Seq<char>|
            (forall |u: Seq<char>| br_member(x.sequence@, u) || br_member(y.sequence@, u) ==> #[trigger] br_member(r.sequence@, u))
            && r.min <= x.min && r.min <= y.min && x.max <= r.max && y.max <= r.max
            && (x.br_gamma(w) || y.br_gamma(w))
            implies #[trigger] r.br_gamma(w) by {
        if x.br_gamma(w) {
            lemma_br_rep_mono(x.sequence@, x.min as nat, x.max as nat, r.sequence@, r.min as nat, r.max as nat, w);
        } else {
            lemma_br_rep_mono(y.sequence@, y.min as nat, y.max as nat, r.sequence@, r.min as nat, r.max as nat, w);
        }
    }
}

// ---------------- brick lists ---------------------------------------------------------------------------------------------

/// the empty list represents exactly the empty string
pub proof fn lemma_br_list_empty(w: Seq<char>)
    ensures br_list_gamma(Seq::<BrickDomain>::empty(), w) <==> w.len() == 0,
{
    if w.len() == 0 { assert(w =~= Seq::<char>::empty()); }
}

/// unfolding at `push`
pub proof fn lemma_br_list_push(l: Seq<BrickDomain>, b: BrickDomain, w: Seq<char>)
    ensures
        br_list_gamma(l.push(b), w) <==> (exists |u: Seq<char>, v: Seq<char>| #![trigger u + v] br_list_gamma(l, u) && b.br_gamma(v) && w =~= u + v),
{
    assert(l.push(b).drop_last() =~= l);
    assert(l.push(b).last() == b);
}

/// a one-brick list represents what the brick represents
pub proof fn lemma_br_list_single(b: BrickDomain, w: Seq<char>)
    ensures br_list_gamma(seq![b], w) <==> b.br_gamma(w),
{
    let e = Seq::<BrickDomain>::empty();
    assert(seq![b] =~= e.push(b));
    lemma_br_list_push(e, b, w);
    if b.br_gamma(w) {
        lemma_br_list_empty(Seq::<char>::empty());
        assert(w =~= Seq::<char>::empty() + w);
    }
    if br_list_gamma(seq![b], w) {
        let (u, v) = choose |u: Seq<char>, v: Seq<char>| #![trigger u + v] br_list_gamma(e, u) && b.br_gamma(v) && w =~= u + v;
        lemma_br_list_empty(u);
        assert(w =~= v);
    }
}

/// the language of a concatenation of lists is the concatenation of the languages: composition
pub proof fn lemma_br_list_concat_intro(a: Seq<BrickDomain>, b: Seq<BrickDomain>, s: Seq<char>, t: Seq<char>)
    requires br_list_gamma(a, s), br_list_gamma(b, t),
    ensures br_list_gamma(a + b, s + t),
    decreases b.len()
{
    if b.len() == 0 {
        assert(a + b =~= a);
        assert(s + t =~= s);
    } else {
        let (u, v) = choose |u: Seq<char>, v: Seq<char>| #![trigger u + v] br_list_gamma(b.drop_last(), u) && b.last().br_gamma(v) && t =~= u + v;
        lemma_br_list_concat_intro(a, b.drop_last(), s, u);
        assert((a + b).drop_last() =~= a + b.drop_last());
        assert((a + b).last() == b.last());
        assert(s + t =~= (s + u) + v);
    }
}

/// ... and decomposition
pub proof fn lemma_br_list_concat_elim(a: Seq<BrickDomain>, b: Seq<BrickDomain>, w: Seq<char>) -> (st: (Seq<char>, Seq<char>))
    requires br_list_gamma(a + b, w),
    ensures br_list_gamma(a, st.0), br_list_gamma(b, st.1), w =~= st.0 + st.1,
    decreases b.len()
{
    if b.len() == 0 {
        assert(a + b =~= a);
        (w, Seq::<char>::empty())
    } else {
        assert((a + b).drop_last() =~= a + b.drop_last());
        assert((a + b).last() == b.last());
        let (u, v) = choose |u: Seq<char>, v: Seq<char>| #![trigger u + v] br_list_gamma((a + b).drop_last(), u) && (a + b).last().br_gamma(v) && w =~= u + v;
        let st = lemma_br_list_concat_elim(a, b.drop_last(), u);
        assert(st.1 + v =~= st.1 + v);
        assert(br_list_gamma(b, st.1 + v));
        assert(w =~= st.0 + (st.1 + v));
        (st.0, st.1 + v)
    }
}

/// a copy of a brick (derive(Clone)) represents the same strings
pub proof fn lemma_br_copy_gamma(a: BrickDomain, b: BrickDomain, w: Seq<char>)
    requires a.br_copy(&b),
    ensures a.br_gamma(w) == b.br_gamma(w),
{
}

/// pointwise inclusion of the bricks' languages gives inclusion of the lists' languages
pub proof fn lemma_br_list_mono(a: Seq<BrickDomain>, b: Seq<BrickDomain>, w: Seq<char>)
    requires
        a.len() == b.len(),
        forall |i: int, x: Seq<char>| 0 <= i < a.len() && a[i].br_gamma(x) ==> #[trigger] b[i].br_gamma(x),
        br_list_gamma(a, w),
    ensures
        br_list_gamma(b, w),
    decreases a.len()
{
    if a.len() > 0 {
        let (u, v) = choose |u: Seq<char>, v: Seq<char>| #![trigger u + v] br_list_gamma(a.drop_last(), u) && a.last().br_gamma(v) && w =~= u + v;
        assert forall |i: int, x: Seq<char>| 0 <= i < a.drop_last().len() && a.drop_last()[i].br_gamma(x) implies #[trigger] b.drop_last()[i].br_gamma(x) by {
            assert(a[i].br_gamma(x));
            assert(b[i].br_gamma(x));
        }
        lemma_br_list_mono(a.drop_last(), b.drop_last(), u);
        assert(b[a.len() - 1].br_gamma(v));
    }
}

/// a copy of a list (derive(Clone) / Vec::clone) represents the same strings
pub proof fn lemma_br_list_copy_gamma(a: Seq<BrickDomain>, b: Seq<BrickDomain>, w: Seq<char>)
    requires br_list_copy(a, b),
    ensures br_list_gamma(a, w) == br_list_gamma(b, w),
{
    if br_list_gamma(a, w) {
        assert forall |i: int, x: Seq<char>| 0 <= i < a.len() && a[i].br_gamma(x) implies #[trigger] b[i].br_gamma(x) by { lemma_br_copy_gamma(a[i], b[i], x); }
        lemma_br_list_mono(a, b, w);
    }
    if br_list_gamma(b, w) {
        assert forall |i: int, x: Seq<char>| 0 <= i < a.len() && b[i].br_gamma(x) implies #[trigger] a[i].br_gamma(x) by { lemma_br_copy_gamma(a[i], b[i], x); }
        lemma_br_list_mono(b, a, w);
    }
}

/// BricksDomain::append_string_domain, all four shapes of the result at once: a list that is a copy of `a` followed by a
/// copy of `b` represents s + t whenever `a` represents s and `b` represents t
pub proof fn lemma_br_append_sound(a: Seq<BrickDomain>, b: Seq<BrickDomain>)
    ensures
        forall |ca: Seq<BrickDomain>, cb: Seq<BrickDomain>, s: Seq<char>, t: Seq<char>|
            br_list_copy(ca, a) && br_list_copy(cb, b) && br_list_gamma(a, s) && br_list_gamma(b, t)
            ==> #[trigger] br_list_gamma(ca + cb, s + t),
{
    assert forall |ca: Seq<BrickDomain>, cb: Seq<BrickDomain>, s: Seq<char>, t: Seq<char>|
            br_list_copy(ca, a) && br_list_copy(cb, b) && br_list_gamma(a, s) && br_list_gamma(b, t)
            implies #[trigger] br_list_gamma(ca + cb, s + t) by {
        lemma_br_list_copy_gamma(ca, a, s);
        lemma_br_list_copy_gamma(cb, b, t);
        lemma_br_list_concat_intro(ca, cb, s, t);
    }
}

/// the one-element list [Top] represents every string
pub proof fn lemma_br_top_single_all()
    ensures forall |w: Seq<char>| #[trigger] br_list_gamma(seq![BrickDomain::Top], w),
{
    assert forall |w: Seq<char>| #[trigger] br_list_gamma(seq![BrickDomain::Top], w) by { lemma_br_list_single(BrickDomain::Top, w); }
}

/// append_string_domain(Value, Top): a copy of `a` with a Top brick pushed represents s + t for every t
pub proof fn lemma_br_push_top_sound(a: Seq<BrickDomain>)
    ensures
        forall |ca: Seq<BrickDomain>, s: Seq<char>, t: Seq<char>|
            br_list_copy(ca, a) && br_list_gamma(a, s) ==> #[trigger] br_list_gamma(ca.push(BrickDomain::Top), s + t),
{
    assert forall |ca: Seq<BrickDomain>, s: Seq<char>, t: Seq<char>|
            br_list_copy(ca, a) && br_list_gamma(a, s) implies #[trigger] br_list_gamma(ca.push(BrickDomain::Top), s + t) by {
        lemma_br_list_copy_gamma(ca, a, s);
        lemma_br_list_push(ca, BrickDomain::Top, s + t);
    }
}

/// pad_list: a brick that represents exactly the empty string can be inserted anywhere in a list
pub proof fn lemma_br_list_insert_empty(a: Seq<BrickDomain>, b: Seq<BrickDomain>, e: BrickDomain, w: Seq<char>)
    requires
        forall |x: Seq<char>| #[trigger] e.br_gamma(x) <==> x.len() == 0,
    ensures
        br_list_gamma(a.push(e) + b, w) <==> br_list_gamma(a + b, w),
{
    if br_list_gamma(a.push(e) + b, w) {
        let st = lemma_br_list_concat_elim(a.push(e), b, w);
        lemma_br_list_push(a, e, st.0);
        let (u, v) = choose |u: Seq<char>, v: Seq<char>| #![trigger u + v] br_list_gamma(a, u) && e.br_gamma(v) && st.0 =~= u + v;
        assert(st.0 =~= u);
        lemma_br_list_concat_intro(a, b, st.0, st.1);
    }
    if br_list_gamma(a + b, w) {
        let st = lemma_br_list_concat_elim(a, b, w);
        lemma_br_list_push(a, e, st.0);
        assert(e.br_gamma(Seq::<char>::empty()));
        assert(st.0 =~= st.0 + Seq::<char>::empty());
        lemma_br_list_concat_intro(a.push(e), b, st.0, st.1);
    }
}

/// pad_list, one step with an inserted empty brick, for all strings at once
pub proof fn lemma_br_pad_step_empty(orig: Seq<BrickDomain>, a: Seq<BrickDomain>, b: Seq<BrickDomain>, e: BrickDomain)
    requires
        forall |x: Seq<char>| #[trigger] e.br_gamma(x) <==> x.len() == 0,
        forall |w: Seq<char>| #[trigger] br_list_gamma(a + b, w) <==> br_list_gamma(orig, w),
    ensures
        forall |w: Seq<char>| #[trigger] br_list_gamma(a.push(e) + b, w) <==> br_list_gamma(orig, w),
{
    assert forall |w: Seq<char>| #[trigger] br_list_gamma(a.push(e) + b, w) <==> br_list_gamma(orig, w) by {
        lemma_br_list_insert_empty(a, b, e, w);
        assert(br_list_gamma(a + b, w) <==> br_list_gamma(orig, w));
    }
}

/// pad_list, one step moving (a copy of) the first remaining brick over
pub proof fn lemma_br_pad_step_move(orig: Seq<BrickDomain>, a: Seq<BrickDomain>, b: Seq<BrickDomain>, c: BrickDomain)
    requires
        b.len() > 0,
        c.br_copy(&b[0]),
        forall |w: Seq<char>| #[trigger] br_list_gamma(a + b, w) <==> br_list_gamma(orig, w),
    ensures
        forall |w: Seq<char>| #[trigger] br_list_gamma(a.push(c) + b.remove(0), w) <==> br_list_gamma(orig, w),
{
    assert forall |w: Seq<char>| #[trigger] br_list_gamma(a.push(c) + b.remove(0), w) <==> br_list_gamma(orig, w) by {
        let x = a.push(c) + b.remove(0);
        let y = a + b;
        assert(x.len() == y.len());
        assert forall |i: int| 0 <= i < x.len() implies (#[trigger] x[i]).br_copy(&y[i]) by {
            if i < a.len() { } else if i == a.len() { } else { assert(x[i] == b[i - a.len()]); }
        }
        lemma_br_list_copy_gamma(x, y, w);
        assert(br_list_gamma(a + b, w) <==> br_list_gamma(orig, w));
    }
}

// ---------------- powers: S^j . S^k = S^(j+k) --------------------------------------------------------------------------------

pub proof fn lemma_br_pow_one(set: Set<String>, w: Seq<char>)
    ensures br_pow(set, 1, w) <==> br_member(set, w),
{
    if br_pow(set, 1, w) {
        let (u, v) = choose |u: Seq<char>, v: Seq<char>| #![trigger u + v] br_member(set, u) && br_pow(set, 0, v) && w =~= u + v;
        assert(w =~= u);
    }
    if br_member(set, w) {
        assert(br_pow(set, 0, Seq::<char>::empty()));
        assert(w =~= w + Seq::<char>::empty());
    }
}

pub proof fn lemma_br_pow_add(set: Set<String>, j: nat, k: nat, u: Seq<char>, v: Seq<char>)
    requires br_pow(set, j, u), br_pow(set, k, v),
    ensures br_pow(set, j + k, u + v),
    decreases j
{
    if j == 0 {
        assert(u + v =~= v);
    } else {
        let (a, b) = choose |a: Seq<char>, b: Seq<char>| #![trigger a + b] br_member(set, a) && br_pow(set, (j - 1) as nat, b) && u =~= a + b;
        lemma_br_pow_add(set, (j - 1) as nat, k, b, v);
        assert(u + v =~= a + (b + v));
        assert((j + k - 1) as nat == (j - 1) as nat + k);
    }
}

pub proof fn lemma_br_pow_split(set: Set<String>, j: nat, k: nat, w: Seq<char>) -> (uv: (Seq<char>, Seq<char>))
    requires br_pow(set, j + k, w),
    ensures br_pow(set, j, uv.0), br_pow(set, k, uv.1), w =~= uv.0 + uv.1,
    decreases j
{
    if j == 0 {
        assert(w =~= Seq::<char>::empty() + w);
        (Seq::<char>::empty(), w)
    } else {
        assert((j + k - 1) as nat == (j - 1) as nat + k);
        let (a, b) = choose |a: Seq<char>, b: Seq<char>| #![trigger a + b] br_member(set, a) && br_pow(set, (j + k - 1) as nat, b) && w =~= a + b;
        let uv = lemma_br_pow_split(set, (j - 1) as nat, k, b);
        assert(a + uv.0 =~= a + uv.0);
        assert(br_pow(set, j, a + uv.0));
        assert(w =~= (a + uv.0) + uv.1);
        (a + uv.0, uv.1)
    }
}

/// powers only depend on the members read as strings
pub proof fn lemma_br_pow_same(a: Set<String>, b: Set<String>, k: nat, w: Seq<char>)
    requires br_set_same(a, b),
    ensures br_pow(a, k, w) == br_pow(b, k, w),
{
    if br_pow(a, k, w) { lemma_br_pow_mono(a, b, k, w); }
    if br_pow(b, k, w) { lemma_br_pow_mono(b, a, k, w); }
}

/// rule 4 of normalize: [S]^{m1,M1} [S]^{m2,M2} represents what [S]^{m1+m2, M1+M2} represents
pub proof fn lemma_br_equal_content(x: Brick, y: Brick, r: Brick, w: Seq<char>)
    requires
        x.br_wf(), y.br_wf(),
        br_set_same(x.sequence@, y.sequence@),
        br_set_same(r.sequence@, x.sequence@),
        r.min == x.min + y.min, r.max == x.max + y.max,
    ensures
        r.br_gamma(w) <==> br_cat2(x, y, w),
{
    if r.br_gamma(w) {
        let k = choose |k: nat| r.min as nat <= k <= r.max as nat && #[trigger] br_pow(r.sequence@, k, w);
        // k = j + (k - j) with x.min <= j <= x.max and y.min <= k - j <= y.max
        let j: nat = if k - y.min as nat <= x.max as nat { (k - y.min as nat) as nat } else { x.max as nat };
        let i: nat = (k - j) as nat;
        assert(x.min as nat <= j <= x.max as nat);
        assert(y.min as nat <= i <= y.max as nat);
        lemma_br_pow_same(r.sequence@, x.sequence@, k, w);
        let uv = lemma_br_pow_split(x.sequence@, j, i, w);
        lemma_br_pow_same(x.sequence@, y.sequence@, i, uv.1);
        assert(x.br_gamma(uv.0));
        assert(y.br_gamma(uv.1));
        assert(w =~= uv.0 + uv.1);
    }
    if br_cat2(x, y, w) {
        let (u, v) = choose |u: Seq<char>, v: Seq<char>| #![trigger u + v] x.br_gamma(u) && y.br_gamma(v) && w =~= u + v;
        let j = choose |j: nat| x.min as nat <= j <= x.max as nat && #[trigger] br_pow(x.sequence@, j, u);
        let i = choose |i: nat| y.min as nat <= i <= y.max as nat && #[trigger] br_pow(y.sequence@, i, v);
        lemma_br_pow_same(x.sequence@, y.sequence@, i, v);
        lemma_br_pow_add(x.sequence@, j, i, u, v);
        lemma_br_pow_same(r.sequence@, x.sequence@, j + i, u + v);
        assert(br_pow(r.sequence@, j + i, w));
    }
}

/// the same for all strings and every result brick of that shape (entry hint of merge_bricks_with_equal_content)
pub proof fn lemma_br_equal_content_all(x: Brick, y: Brick)
    requires
        x.br_wf(), y.br_wf(),
        br_set_same(x.sequence@, y.sequence@),
    ensures
        forall |r: Brick, w: Seq<char>| br_set_same(r.sequence@, x.sequence@) && r.min == x.min + y.min && r.max == x.max + y.max
            ==> (#[trigger] r.br_gamma(w) <==> br_cat2(x, y, w)),
{
    assert forall |r: Brick, w: Seq<char>| br_set_same(r.sequence@, x.sequence@) && r.min == x.min + y.min && r.max == x.max + y.max
        implies (#[trigger] r.br_gamma(w) <==> br_cat2(x, y, w)) by {
        lemma_br_equal_content(x, y, r, w);
    }
}

// ---------------- generate_permutations_of_fixed_length ---------------------------------------------------------------------

/// vstd gives, for the ghost sequence of `set.iter()`: no duplicates, as long as the set, every member occurs.  By
/// cardinality every element of the sequence is then a member.  (broadcast: makes br_iter_of available at loop entry)
pub broadcast proof fn lemma_br_iter_complete(s: Seq<&String>, set: Set<String>)
    requires
        s.no_duplicates(),
        s.len() == set.len(),
        forall |k: String| set.contains(k) ==> s.contains(&k),
    ensures
        #[trigger] br_iter_of(s, set),
{
    let t = s.map_values(|k: &String| *k);
    assert(t.no_duplicates()) by {
        assert forall |i: int, j: int| 0 <= i < t.len() && 0 <= j < t.len() && i != j implies t[i] != t[j] by {
            assert(s[i] != s[j]);
        }
    }
    t.unique_seq_to_set();
    assert(set.subset_of(t.to_set())) by {
        assert forall |k: String| set.contains(k) implies t.to_set().contains(k) by {
            assert(s.contains(&k));
            let i = choose |i: int| 0 <= i < s.len() && s[i] == &k;
            assert(t[i] == k);
            assert(t.contains(k));
        }
    }
    vstd::set_lib::lemma_subset_equality(set, t.to_set());
    assert forall |i: int| 0 <= i < s.len() implies set.contains(*#[trigger] s[i]) by {
        assert(t[i] == *s[i]);
        assert(t.contains(t[i]));
        assert(t.to_set().contains(t[i]));
    }
    assert forall |k: String| set.contains(k) implies exists |i: int| 0 <= i < s.len() && *#[trigger] s[i] == k by {
        assert(s.contains(&k));
        let i = choose |i: int| 0 <= i < s.len() && s[i] == &k;
        assert(*s[i] == k);
    }
}

pub proof fn lemma_br_in_vec_push_all()
    ensures
        forall |v: Seq<String>, t: String, x: Seq<char>| #[trigger] br_in_vec(v.push(t), x) <==> (br_in_vec(v, x) || t@ == x),
{
    assert forall |v: Seq<String>, t: String, x: Seq<char>| #[trigger] br_in_vec(v.push(t), x) <==> (br_in_vec(v, x) || t@ == x) by {
        let p = v.push(t);
        if br_in_vec(p, x) {
            let i = choose |i: int| 0 <= i < p.len() && (#[trigger] p[i])@ == x;
            if i < v.len() { assert(v[i]@ == x); }
        }
        if br_in_vec(v, x) {
            let i = choose |i: int| 0 <= i < v.len() && (#[trigger] v[i])@ == x;
            assert(p[i]@ == x);
        }
        if t@ == x { assert(p[v.len() as int]@ == x); }
    }
}

/// one round of the outer loop, both branches
pub proof fn lemma_br_gen_steps(members: Seq<&String>, oi: int, generated: Seq<String>)
    requires 0 <= oi < members.len(),
    ensures
        generated.len() == 0 ==> forall |x: Seq<char>| #[trigger] br_gen_partial(members, oi + 1, generated, x)
            <==> (br_gen_partial(members, oi, generated, x) || x == members[oi]@),
        generated.len() > 0 ==> forall |x: Seq<char>| #[trigger] br_gen_partial(members, oi + 1, generated, x)
            <==> (br_gen_partial(members, oi, generated, x) || br_gen_row(members[oi]@, generated, generated.len() as int, x)),
{
    let m = members[oi]@;
    assert forall |x: Seq<char>| #[trigger] br_gen_partial(members, oi + 1, generated, x)
        <==> (br_gen_partial(members, oi, generated, x) || (if generated.len() == 0 { x == m } else { br_gen_row(m, generated, generated.len() as int, x) })) by {
        if br_gen_partial(members, oi + 1, generated, x) {
            let (j, g) = choose |j: int, g: Seq<char>| #![trigger g + members[j]@] 0 <= j < oi + 1 && br_prefix(generated, g) && x =~= g + members[j]@;
            if j < oi {
                assert(br_gen_partial(members, oi, generated, x));
            } else if generated.len() == 0 {
                assert(x =~= m);
            } else {
                let k = choose |k: int| 0 <= k < generated.len() && (#[trigger] generated[k])@ == g;
                assert(x =~= generated[k]@ + m);
            }
        }
        if br_gen_partial(members, oi, generated, x) {
            let (j, g) = choose |j: int, g: Seq<char>| #![trigger g + members[j]@] 0 <= j < oi && br_prefix(generated, g) && x =~= g + members[j]@;
            assert(0 <= j < oi + 1 && br_prefix(generated, g) && x =~= g + members[j]@);
        }
        if generated.len() == 0 && x == m {
            let e = Seq::<char>::empty();
            assert(br_prefix(generated, e) && x =~= e + members[oi]@);
        }
        if generated.len() > 0 && br_gen_row(m, generated, generated.len() as int, x) {
            let k = choose |k: int| 0 <= k < generated.len() && x =~= (#[trigger] generated[k])@ + m;
            let g = generated[k]@;
            assert(br_in_vec(generated, g));
            assert(br_prefix(generated, g) && x =~= g + members[oi]@);
        }
    }
}

/// one step of the inner loop
pub proof fn lemma_br_gen_row_step(s: Seq<char>, generated: Seq<String>, ii: int)
    requires 0 <= ii < generated.len(),
    ensures
        forall |x: Seq<char>| #[trigger] br_gen_row(s, generated, ii + 1, x) <==> (br_gen_row(s, generated, ii, x) || x == generated[ii]@ + s),
{
    assert forall |x: Seq<char>| #[trigger] br_gen_row(s, generated, ii + 1, x) <==> (br_gen_row(s, generated, ii, x) || x == generated[ii]@ + s) by {
        if br_gen_row(s, generated, ii + 1, x) {
            let k = choose |k: int| 0 <= k < ii + 1 && x =~= (#[trigger] generated[k])@ + s;
            if k < ii { assert(br_gen_row(s, generated, ii, x)); }
        }
        if br_gen_row(s, generated, ii, x) {
            let k = choose |k: int| 0 <= k < ii && x =~= (#[trigger] generated[k])@ + s;
            assert(0 <= k < ii + 1 && x =~= generated[k]@ + s);
        }
        if x == generated[ii]@ + s { assert(x =~= generated[ii]@ + s); }
    }
}

/// after the outer loop: the new strings are exactly prefix + one member
pub proof fn lemma_br_gen_round(members: Seq<&String>, set: Set<String>, generated: Seq<String>, x: Seq<char>)
    requires br_iter_of(members, set),
    ensures br_gen_partial(members, members.len() as int, generated, x) <==> br_gen_spec(set, generated, 1, x),
{
    if br_gen_partial(members, members.len() as int, generated, x) {
        let (j, g) = choose |j: int, g: Seq<char>| #![trigger g + members[j]@] 0 <= j < members.len() && br_prefix(generated, g) && x =~= g + members[j]@;
        assert(set.contains(*members[j]));
        assert(br_member(set, members[j]@));
        lemma_br_pow_one(set, members[j]@);
        assert(x =~= g + members[j]@);
    }
    if br_gen_spec(set, generated, 1, x) {
        let (g, y) = choose |g: Seq<char>, y: Seq<char>| #![trigger g + y] br_prefix(generated, g) && br_pow(set, 1, y) && x =~= g + y;
        lemma_br_pow_one(set, y);
        let s = choose |s: String| #[trigger] set.contains(s) && s@ == y;
        let j = choose |j: int| 0 <= j < members.len() && *#[trigger] members[j] == s;
        assert(x =~= g + members[j]@);
    }
}

/// the recursive call: extending the strings of one round by n more members gives n + 1 members
pub proof fn lemma_br_gen_rec(set: Set<String>, generated: Seq<String>, new_gen: Seq<String>, n: nat, x: Seq<char>)
    requires
        n >= 1,
        forall |z: Seq<char>| #[trigger] br_in_vec(new_gen, z) <==> br_gen_spec(set, generated, 1, z),
    ensures
        br_gen_spec(set, new_gen, n, x) <==> br_gen_spec(set, generated, n + 1, x),
{
    if br_gen_spec(set, new_gen, n, x) {
        let (g, y) = choose |g: Seq<char>, y: Seq<char>| #![trigger g + y] br_prefix(new_gen, g) && br_pow(set, n, y) && x =~= g + y;
        if new_gen.len() == 0 {
            // no string was produced: the set has no member, so there is no y either
            let (a, b) = choose |a: Seq<char>, b: Seq<char>| #![trigger a + b] br_member(set, a) && br_pow(set, (n - 1) as nat, b) && y =~= a + b;
            let g0 = if generated.len() == 0 { Seq::<char>::empty() } else { generated[0]@ };
            assert(br_prefix(generated, g0)) by { if generated.len() > 0 { assert(br_in_vec(generated, generated[0]@)); } }
            lemma_br_pow_one(set, a);
            assert(g0 + a =~= g0 + a);
            assert(br_gen_spec(set, generated, 1, g0 + a));
            assert(br_in_vec(new_gen, g0 + a));
            assert(false);
        } else {
            assert(br_in_vec(new_gen, g));
            let (g1, y1) = choose |g1: Seq<char>, y1: Seq<char>| #![trigger g1 + y1] br_prefix(generated, g1) && br_pow(set, 1, y1) && g =~= g1 + y1;
            lemma_br_pow_add(set, 1, n, y1, y);
            assert(x =~= g1 + (y1 + y));
        }
    }
    if br_gen_spec(set, generated, n + 1, x) {
        let (g, y) = choose |g: Seq<char>, y: Seq<char>| #![trigger g + y] br_prefix(generated, g) && br_pow(set, n + 1, y) && x =~= g + y;
        let uv = lemma_br_pow_split(set, 1, n, y);
        assert(g + uv.0 =~= g + uv.0);
        assert(br_gen_spec(set, generated, 1, g + uv.0));
        assert(br_in_vec(new_gen, g + uv.0));
        assert(new_gen.len() > 0);
        assert(br_prefix(new_gen, g + uv.0));
        assert(x =~= (g + uv.0) + uv.1);
    }
}

// ---------------- rules 3 and 5 of normalize ----------------------------------------------------------------------------------

/// a brick {1,1} represents exactly the members of its set
pub proof fn lemma_br_rep_one(set: Set<String>, w: Seq<char>)
    ensures br_rep(set, 1, 1, w) <==> br_member(set, w),
{
    lemma_br_pow_one(set, w);
    if br_rep(set, 1, 1, w) {
        let k = choose |k: nat| 1 <= k <= 1 && #[trigger] br_pow(set, k, w);
        assert(k == 1);
    }
}

/// transform_brick_with_min_max_equal: [S^n]^{1,1} represents exactly the concatenations of n members of S
pub proof fn lemma_br_transform_all(set: Set<String>, n: nat)
    ensures
        forall |r: Brick, w: Seq<char>| r.min == 1 && r.max == 1
            && (forall |x: Seq<char>| #[trigger] br_member(r.sequence@, x) <==> br_gen_spec(set, Seq::<String>::empty(), n, x))
            ==> (#[trigger] r.br_gamma(w) <==> br_pow(set, n, w)),
{
    assert forall |r: Brick, w: Seq<char>| r.min == 1 && r.max == 1
            && (forall |x: Seq<char>| #[trigger] br_member(r.sequence@, x) <==> br_gen_spec(set, Seq::<String>::empty(), n, x))
            implies (#[trigger] r.br_gamma(w) <==> br_pow(set, n, w)) by {
        lemma_br_rep_one(r.sequence@, w);
        let e = Seq::<String>::empty();
        if br_gen_spec(set, e, n, w) {
            let (g, y) = choose |g: Seq<char>, y: Seq<char>| #![trigger g + y] br_prefix(e, g) && br_pow(set, n, y) && w =~= g + y;
            assert(w =~= y);
        }
        if br_pow(set, n, w) {
            let g = Seq::<char>::empty();
            assert(br_prefix(e, g) && w =~= g + w);
        }
    }
}

/// [S]^{n,n} represents exactly the concatenations of n members of S
pub proof fn lemma_br_rep_exact(set: Set<String>, n: nat, w: Seq<char>)
    ensures br_rep(set, n, n, w) <==> br_pow(set, n, w),
{
    if br_rep(set, n, n, w) {
        let k = choose |k: nat| n <= k <= n && #[trigger] br_pow(set, k, w);
        assert(k == n);
    }
}

/// break_single_brick_into_simpler_bricks: [S]^{min,max} represents what [S^min]^{1,1} [S]^{0,max-min} represents
pub proof fn lemma_br_break(x: Brick, b1: Brick, b2: Brick, w: Seq<char>)
    requires
        x.br_wf(),
        forall |u: Seq<char>| #[trigger] b1.br_gamma(u) <==> br_pow(x.sequence@, x.min as nat, u),
        br_set_same(b2.sequence@, x.sequence@), b2.min == 0, b2.max == x.max - x.min,
    ensures
        x.br_gamma(w) <==> br_cat2(b1, b2, w),
{
    if x.br_gamma(w) {
        let k = choose |k: nat| x.min as nat <= k <= x.max as nat && #[trigger] br_pow(x.sequence@, k, w);
        let uv = lemma_br_pow_split(x.sequence@, x.min as nat, (k - x.min) as nat, w);
        lemma_br_pow_same(b2.sequence@, x.sequence@, (k - x.min) as nat, uv.1);
        assert(b1.br_gamma(uv.0));
        assert(b2.br_gamma(uv.1));
        assert(w =~= uv.0 + uv.1);
    }
    if br_cat2(b1, b2, w) {
        let (u, v) = choose |u: Seq<char>, v: Seq<char>| #![trigger u + v] b1.br_gamma(u) && b2.br_gamma(v) && w =~= u + v;
        let i = choose |i: nat| b2.min as nat <= i <= b2.max as nat && #[trigger] br_pow(b2.sequence@, i, v);
        lemma_br_pow_same(b2.sequence@, x.sequence@, i, v);
        lemma_br_pow_add(x.sequence@, x.min as nat, i, u, v);
        assert(br_pow(x.sequence@, x.min as nat + i, w));
    }
}

pub proof fn lemma_br_break_all(x: Brick)
    requires x.br_wf(),
    ensures
        forall |b1: Brick, b2: Brick, w: Seq<char>|
            (forall |u: Seq<char>| #[trigger] b1.br_gamma(u) <==> br_pow(x.sequence@, x.min as nat, u))
            && br_set_same(b2.sequence@, x.sequence@) && b2.min == 0 && b2.max == x.max - x.min
            ==> (x.br_gamma(w) <==> #[trigger] br_cat2(b1, b2, w)),
{
    assert forall |b1: Brick, b2: Brick, w: Seq<char>|
            (forall |u: Seq<char>| #[trigger] b1.br_gamma(u) <==> br_pow(x.sequence@, x.min as nat, u))
            && br_set_same(b2.sequence@, x.sequence@) && b2.min == 0 && b2.max == x.max - x.min
            implies (x.br_gamma(w) <==> #[trigger] br_cat2(b1, b2, w)) by {
        lemma_br_break(x, b1, b2, w);
    }
}

// ---------------- normalize: replacing a sub-list by an equivalent one ------------------------------------------------------

pub proof fn lemma_br_sum_concat(a: Seq<BrickDomain>, b: Seq<BrickDomain>)
    ensures br_measure(a + b) == br_measure(a) + br_measure(b),
    decreases b.len()
{
    if b.len() == 0 {
        assert(a + b =~= a);
    } else {
        assert((a + b).drop_last() =~= a + b.drop_last());
        assert((a + b).last() == b.last());
        lemma_br_sum_concat(a, b.drop_last());
    }
}

pub proof fn lemma_br_sum_small(l: Seq<BrickDomain>)
    ensures
        l.len() == 0 ==> br_measure(l) == 0,
        l.len() == 1 ==> br_measure(l) == br_weight(l[0]),
        l.len() == 2 ==> br_measure(l) == br_weight(l[0]) + br_weight(l[1]),
{
    if l.len() == 1 {
        assert(br_measure(l.drop_last()) == 0);
    }
    if l.len() == 2 {
        let d = l.drop_last();
        assert(d.len() == 1);
        assert(br_measure(d.drop_last()) == 0);
        assert(d.last() == l[0]);
        assert(br_measure(d) == br_measure(d.drop_last()) + br_weight(d.last()));
        assert(l.last() == l[1]);
        assert(br_measure(l) == br_measure(d) + br_weight(l.last()));
    }
}

pub proof fn lemma_br_wf_concat(a: Seq<BrickDomain>, b: Seq<BrickDomain>)
    ensures br_list_wf(a + b) <==> (br_list_wf(a) && br_list_wf(b)),
{
    if br_list_wf(a + b) {
        assert forall |i: int| 0 <= i < a.len() implies (#[trigger] a[i]).br_wf() by { assert((a + b)[i] == a[i]); }
        assert forall |i: int| 0 <= i < b.len() implies (#[trigger] b[i]).br_wf() by { assert((a + b)[a.len() + i] == b[i]); }
    }
}

/// a sub-list may be replaced by one that represents the same strings
pub proof fn lemma_br_list_context(pre: Seq<BrickDomain>, mid: Seq<BrickDomain>, mid2: Seq<BrickDomain>, post: Seq<BrickDomain>)
    requires br_list_equiv(mid, mid2),
    ensures br_list_equiv(pre + mid + post, pre + mid2 + post),
{
    assert forall |w: Seq<char>| br_list_gamma(pre + mid + post, w) <==> br_list_gamma(pre + mid2 + post, w) by {
        if br_list_gamma(pre + mid + post, w) {
            let st = lemma_br_list_concat_elim(pre + mid, post, w);
            let uv = lemma_br_list_concat_elim(pre, mid, st.0);
            assert(br_list_gamma(mid2, uv.1));
            lemma_br_list_concat_intro(pre, mid2, uv.0, uv.1);
            lemma_br_list_concat_intro(pre + mid2, post, uv.0 + uv.1, st.1);
            assert(w =~= (uv.0 + uv.1) + st.1);
        }
        if br_list_gamma(pre + mid2 + post, w) {
            let st = lemma_br_list_concat_elim(pre + mid2, post, w);
            let uv = lemma_br_list_concat_elim(pre, mid2, st.0);
            assert(br_list_gamma(mid, uv.1));
            lemma_br_list_concat_intro(pre, mid, uv.0, uv.1);
            lemma_br_list_concat_intro(pre + mid, post, uv.0 + uv.1, st.1);
            assert(w =~= (uv.0 + uv.1) + st.1);
        }
    }
}

/// a two-brick list represents the concatenations of its two bricks
pub proof fn lemma_br_list_pair(x: Brick, y: Brick, w: Seq<char>)
    ensures br_list_gamma(seq![BrickDomain::Value(x), BrickDomain::Value(y)], w) <==> br_cat2(x, y, w),
{
    let l = seq![BrickDomain::Value(x), BrickDomain::Value(y)];
    assert(l =~= seq![BrickDomain::Value(x)].push(BrickDomain::Value(y)));
    lemma_br_list_push(seq![BrickDomain::Value(x)], BrickDomain::Value(y), w);
    if br_list_gamma(l, w) {
        let (u, v) = choose |u: Seq<char>, v: Seq<char>| #![trigger u + v] br_list_gamma(seq![BrickDomain::Value(x)], u) && BrickDomain::Value(y).br_gamma(v) && w =~= u + v;
        lemma_br_list_single(BrickDomain::Value(x), u);
        assert(x.br_gamma(u) && y.br_gamma(v) && w =~= u + v);
    }
    if br_cat2(x, y, w) {
        let (u, v) = choose |u: Seq<char>, v: Seq<char>| #![trigger u + v] x.br_gamma(u) && y.br_gamma(v) && w =~= u + v;
        lemma_br_list_single(BrickDomain::Value(x), u);
        assert(br_list_gamma(seq![BrickDomain::Value(x)], u) && BrickDomain::Value(y).br_gamma(v) && w =~= u + v);
    }
}

/// decomposition of a list around position i (one brick) -- sums, well-formedness
pub proof fn lemma_br_split1(l: Seq<BrickDomain>, i: int)
    requires 0 <= i < l.len(),
    ensures
        l =~= l.subrange(0, i) + seq![l[i]] + l.subrange(i + 1, l.len() as int),
        br_measure(l) == br_measure(l.subrange(0, i)) + br_weight(l[i]) + br_measure(l.subrange(i + 1, l.len() as int)),
{
    let pre = l.subrange(0, i);
    let post = l.subrange(i + 1, l.len() as int);
    assert(l =~= pre + seq![l[i]] + post);
    lemma_br_sum_concat(pre + seq![l[i]], post);
    lemma_br_sum_concat(pre, seq![l[i]]);
    lemma_br_sum_small(seq![l[i]]);
}

/// rule 1: removing a brick that represents exactly the empty string
pub proof fn lemma_br_norm_remove(l: Seq<BrickDomain>, i: int)
    requires
        0 <= i < l.len(),
        forall |x: Seq<char>| #[trigger] l[i].br_gamma(x) <==> x.len() == 0,
    ensures
        br_list_equiv(l.remove(i), l),
        br_measure(l.remove(i)) == br_measure(l) - br_weight(l[i]),
        br_list_wf(l) ==> br_list_wf(l.remove(i)),
{
    let pre = l.subrange(0, i);
    let post = l.subrange(i + 1, l.len() as int);
    let e = Seq::<BrickDomain>::empty();
    lemma_br_split1(l, i);
    assert(l.remove(i) =~= pre + e + post);
    assert(br_list_equiv(seq![l[i]], e)) by {
        assert forall |w: Seq<char>| br_list_gamma(seq![l[i]], w) <==> br_list_gamma(e, w) by {
            lemma_br_list_single(l[i], w);
            lemma_br_list_empty(w);
        }
    }
    lemma_br_list_context(pre, seq![l[i]], e, post);
    lemma_br_sum_concat(pre + e, post);
    lemma_br_sum_concat(pre, e);
    lemma_br_sum_small(e);
    if br_list_wf(l) {
        assert forall |j: int| 0 <= j < l.remove(i).len() implies (#[trigger] l.remove(i)[j]).br_wf() by {
            if j < i { assert(l.remove(i)[j] == l[j]); } else { assert(l.remove(i)[j] == l[j + 1]); }
        }
    }
}

/// rule 3: replacing a brick by one that represents the same strings
pub proof fn lemma_br_norm_update(l: Seq<BrickDomain>, i: int, t: BrickDomain)
    requires
        0 <= i < l.len(),
        forall |x: Seq<char>| #[trigger] t.br_gamma(x) <==> l[i].br_gamma(x),
    ensures
        br_list_equiv(l.update(i, t), l),
        br_measure(l.update(i, t)) == br_measure(l) - br_weight(l[i]) + br_weight(t),
        (br_list_wf(l) && t.br_wf()) ==> br_list_wf(l.update(i, t)),
{
    let pre = l.subrange(0, i);
    let post = l.subrange(i + 1, l.len() as int);
    lemma_br_split1(l, i);
    assert(l.update(i, t) =~= pre + seq![t] + post);
    assert(br_list_equiv(seq![l[i]], seq![t])) by {
        assert forall |w: Seq<char>| br_list_gamma(seq![l[i]], w) <==> br_list_gamma(seq![t], w) by {
            lemma_br_list_single(l[i], w);
            lemma_br_list_single(t, w);
        }
    }
    lemma_br_list_context(pre, seq![l[i]], seq![t], post);
    lemma_br_sum_concat(pre + seq![t], post);
    lemma_br_sum_concat(pre, seq![t]);
    lemma_br_sum_small(seq![t]);
}

/// rule 5: replacing a brick by two bricks that together represent the same strings
pub proof fn lemma_br_norm_break(l: Seq<BrickDomain>, i: int, b1: Brick, b2: Brick)
    requires
        0 <= i < l.len(),
        forall |x: Seq<char>| l[i].br_gamma(x) <==> #[trigger] br_cat2(b1, b2, x),
    ensures
        br_list_equiv(l.update(i, BrickDomain::Value(b1)).insert(i + 1, BrickDomain::Value(b2)), l),
        br_measure(l.update(i, BrickDomain::Value(b1)).insert(i + 1, BrickDomain::Value(b2))) == br_measure(l) - br_weight(l[i]) + br_weight(BrickDomain::Value(b1)) + br_weight(BrickDomain::Value(b2)),
        (br_list_wf(l) && b1.br_wf() && b2.br_wf()) ==> br_list_wf(l.update(i, BrickDomain::Value(b1)).insert(i + 1, BrickDomain::Value(b2))),
{
    let pre = l.subrange(0, i);
    let post = l.subrange(i + 1, l.len() as int);
    let mid2 = seq![BrickDomain::Value(b1), BrickDomain::Value(b2)];
    let r = l.update(i, BrickDomain::Value(b1)).insert(i + 1, BrickDomain::Value(b2));
    lemma_br_split1(l, i);
    assert(r =~= pre + mid2 + post);
    assert(br_list_equiv(seq![l[i]], mid2)) by {
        assert forall |w: Seq<char>| br_list_gamma(seq![l[i]], w) <==> br_list_gamma(mid2, w) by {
            lemma_br_list_single(l[i], w);
            lemma_br_list_pair(b1, b2, w);
        }
    }
    lemma_br_list_context(pre, seq![l[i]], mid2, post);
    lemma_br_sum_concat(pre + mid2, post);
    lemma_br_sum_concat(pre, mid2);
    lemma_br_sum_small(mid2);
    if br_list_wf(l) && b1.br_wf() && b2.br_wf() {
        assert forall |j: int| 0 <= j < r.len() implies (#[trigger] r[j]).br_wf() by {
            if j < i { assert(r[j] == l[j]); } else if j == i { } else if j == i + 1 { } else { assert(r[j] == l[j - 1]); }
        }
    }
}

/// rules 2 and 4: replacing two neighbouring bricks by one that represents their concatenations
pub proof fn lemma_br_norm_merge(l: Seq<BrickDomain>, i: int, x: Brick, y: Brick, m: Brick)
    requires
        0 <= i, i + 1 < l.len(),
        l[i] is Value, l[i + 1] is Value,
        x.br_copy(&l[i]->Value_0), y.br_copy(&l[i + 1]->Value_0),
        forall |w: Seq<char>| #[trigger] m.br_gamma(w) <==> br_cat2(x, y, w),
    ensures
        br_list_equiv(l.update(i, BrickDomain::Value(m)).remove(i + 1), l),
        br_measure(l.update(i, BrickDomain::Value(m)).remove(i + 1)) == br_measure(l) - br_weight(l[i]) - br_weight(l[i + 1]) + br_weight(BrickDomain::Value(m)),
        (br_list_wf(l) && m.br_wf()) ==> br_list_wf(l.update(i, BrickDomain::Value(m)).remove(i + 1)),
{
    let pre = l.subrange(0, i);
    let post = l.subrange(i + 2, l.len() as int);
    let mid = seq![l[i], l[i + 1]];
    let mid2 = seq![BrickDomain::Value(m)];
    let r = l.update(i, BrickDomain::Value(m)).remove(i + 1);
    assert(l =~= pre + mid + post);
    assert(r =~= pre + mid2 + post);
    assert(br_list_equiv(mid, mid2)) by {
        assert forall |w: Seq<char>| br_list_gamma(mid, w) <==> br_list_gamma(mid2, w) by {
            lemma_br_list_single(BrickDomain::Value(m), w);
            assert(mid =~= seq![BrickDomain::Value(l[i]->Value_0), BrickDomain::Value(l[i + 1]->Value_0)]);
            lemma_br_list_pair(l[i]->Value_0, l[i + 1]->Value_0, w);
            // copies represent the same strings
            assert(br_cat2(l[i]->Value_0, l[i + 1]->Value_0, w) <==> br_cat2(x, y, w)) by {
                if br_cat2(l[i]->Value_0, l[i + 1]->Value_0, w) {
                    let (u, v) = choose |u: Seq<char>, v: Seq<char>| #![trigger u + v] l[i]->Value_0.br_gamma(u) && l[i + 1]->Value_0.br_gamma(v) && w =~= u + v;
                    assert(x.br_gamma(u) && y.br_gamma(v) && w =~= u + v);
                }
                if br_cat2(x, y, w) {
                    let (u, v) = choose |u: Seq<char>, v: Seq<char>| #![trigger u + v] x.br_gamma(u) && y.br_gamma(v) && w =~= u + v;
                    assert(l[i]->Value_0.br_gamma(u) && l[i + 1]->Value_0.br_gamma(v) && w =~= u + v);
                }
            }
        }
    }
    lemma_br_list_context(pre, mid, mid2, post);
    lemma_br_sum_concat(pre + mid, post);
    lemma_br_sum_concat(pre, mid);
    lemma_br_sum_small(mid);
    lemma_br_sum_concat(pre + mid2, post);
    lemma_br_sum_concat(pre, mid2);
    lemma_br_sum_small(mid2);
    if br_list_wf(l) && m.br_wf() {
        assert forall |j: int| 0 <= j < r.len() implies (#[trigger] r[j]).br_wf() by {
            if j < i { assert(r[j] == l[j]); } else if j == i { } else { assert(r[j] == l[j + 1]); }
        }
    }
}

/// rule 2: [A]^{1,1} [B]^{1,1} represents what [A.B]^{1,1} represents
pub proof fn lemma_br_bound_one(x: Brick, y: Brick, m: Brick, w: Seq<char>)
    requires
        x.min == 1, x.max == 1, y.min == 1, y.max == 1, m.min == 1, m.max == 1,
        forall |z: Seq<char>| #[trigger] br_member(m.sequence@, z) <==> br_product(x.sequence@, y.sequence@, z),
    ensures
        m.br_gamma(w) <==> br_cat2(x, y, w),
{
    lemma_br_rep_one(m.sequence@, w);
    if br_product(x.sequence@, y.sequence@, w) {
        let (u, v) = choose |u: Seq<char>, v: Seq<char>| #![trigger u + v] br_member(x.sequence@, u) && br_member(y.sequence@, v) && w =~= u + v;
        lemma_br_rep_one(x.sequence@, u);
        lemma_br_rep_one(y.sequence@, v);
        assert(x.br_gamma(u) && y.br_gamma(v) && w =~= u + v);
    }
    if br_cat2(x, y, w) {
        let (u, v) = choose |u: Seq<char>, v: Seq<char>| #![trigger u + v] x.br_gamma(u) && y.br_gamma(v) && w =~= u + v;
        lemma_br_rep_one(x.sequence@, u);
        lemma_br_rep_one(y.sequence@, v);
        assert(br_member(x.sequence@, u) && br_member(y.sequence@, v) && w =~= u + v);
    }
}

/// values that `==` identifies represent the same strings
pub proof fn lemma_br_same_gamma(a: BricksDomain, b: BricksDomain, w: Seq<char>)
    requires a.br_same(&b),
    ensures a.br_gamma(w) == b.br_gamma(w),
{
    if a is Value {
        let x = a->Value_0@;
        let y = b->Value_0@;
        assert forall |i: int, z: Seq<char>| 0 <= i < x.len() implies (#[trigger] x[i].br_gamma(z) <==> y[i].br_gamma(z)) by {
            assert(x[i].br_same(&y[i]));
            if x[i] is Value {
                let p = x[i]->Value_0;
                let q = y[i]->Value_0;
                assert(p.br_gamma(z) <==> q.br_gamma(z)) by {
                    if p.br_gamma(z) {
                        let k = choose |k: nat| p.min as nat <= k <= p.max as nat && #[trigger] br_pow(p.sequence@, k, z);
                        lemma_br_pow_same(p.sequence@, q.sequence@, k, z);
                    }
                    if q.br_gamma(z) {
                        let k = choose |k: nat| q.min as nat <= k <= q.max as nat && #[trigger] br_pow(q.sequence@, k, z);
                        lemma_br_pow_same(p.sequence@, q.sequence@, k, z);
                    }
                }
            }
        }
        if br_list_gamma(x, w) { lemma_br_list_mono(x, y, w); }
        if br_list_gamma(y, w) { lemma_br_list_mono(y, x, w); }
    }
}

/// a copy of a value (derive(Clone)) represents the same strings and is as well-formed
pub proof fn lemma_br_value_copy(c: BricksDomain, a: BricksDomain, w: Seq<char>)
    requires c.br_copy(&a),
    ensures c.br_gamma(w) == a.br_gamma(w), a.br_wf() ==> c.br_wf(),
{
    if a is Value {
        lemma_br_list_copy_gamma(c->Value_0@, a->Value_0@, w);
        if a.br_wf() {
            assert forall |i: int| 0 <= i < c->Value_0@.len() implies (#[trigger] c->Value_0@[i]).br_wf() by { assert(c->Value_0@[i].br_copy(&a->Value_0@[i])); }
        }
    }
}

// ---------------- merge_bricks_with_bound_one (rule 2): the loop over the cartesian product --------------------------------

/// one round of the loop: the string inserted is first + second component of pair n
pub proof fn lemma_br_prod_step(p: Seq<(&String, &String)>, n: int, set: Set<String>, t: String)
    requires
        0 <= n < p.len(),
        // what `str1.clone() + str2` computed (PROVED at the call from the contracts of String::clone and verif_br_concat)
        t@ == p[n].0@ + p[n].1@,
        forall |z: Seq<char>| #[trigger] br_member(set, z) <==> br_prod_partial(p, n, z),
    ensures
        forall |z: Seq<char>| #[trigger] br_member(set.insert(t), z) <==> br_prod_partial(p, n + 1, z),
{
    let s2 = set.insert(t);
    assert forall |z: Seq<char>| #[trigger] br_member(s2, z) <==> br_prod_partial(p, n + 1, z) by {
        if br_member(s2, z) {
            let s = choose |s: String| #[trigger] s2.contains(s) && s@ == z;
            if s == t {
                assert(z =~= (#[trigger] p[n]).0@ + p[n].1@);
            } else {
                assert(set.contains(s) && s@ == z);
                assert(br_member(set, z));
                let k = choose |k: int| 0 <= k < n && z =~= (#[trigger] p[k]).0@ + p[k].1@;
                assert(0 <= k < n + 1 && z =~= (#[trigger] p[k]).0@ + p[k].1@);
            }
        }
        if br_prod_partial(p, n + 1, z) {
            let k = choose |k: int| 0 <= k < n + 1 && z =~= (#[trigger] p[k]).0@ + p[k].1@;
            if k == n {
                assert(s2.contains(t) && t@ == z);
            } else {
                assert(0 <= k < n && z =~= (#[trigger] p[k]).0@ + p[k].1@);
                assert(br_member(set, z));
                let s = choose |s: String| #[trigger] set.contains(s) && s@ == z;
                assert(s2.contains(s) && s@ == z);
            }
        }
    }
}

/// all rounds: the concatenated pairs of the cartesian product of a and b are exactly br_product(a, b, .)
pub proof fn lemma_br_prod_all(p: Seq<(&String, &String)>, a: Set<String>, b: Set<String>)
    requires
        br_cart_of(p, a, b),
    ensures
        forall |z: Seq<char>| #[trigger] br_prod_partial(p, p.len() as int, z) <==> br_product(a, b, z),
        forall |z: Seq<char>| !br_prod_partial(p, 0, z),
{
    assert forall |z: Seq<char>| #[trigger] br_prod_partial(p, p.len() as int, z) <==> br_product(a, b, z) by {
        if br_prod_partial(p, p.len() as int, z) {
            let k = choose |k: int| 0 <= k < p.len() && z =~= (#[trigger] p[k]).0@ + p[k].1@;
            let u = p[k].0@;
            let v = p[k].1@;
            assert(a.contains(*p[k].0) && b.contains(*p[k].1));
            assert(br_member(a, u) && br_member(b, v) && z =~= u + v);
        }
        if br_product(a, b, z) {
            let (u, v) = choose |u: Seq<char>, v: Seq<char>| #![trigger u + v] br_member(a, u) && br_member(b, v) && z =~= u + v;
            let x = choose |s: String| #[trigger] a.contains(s) && s@ == u;
            let y = choose |s: String| #[trigger] b.contains(s) && s@ == v;
            assert(a.contains(x) && b.contains(y));
            let i = choose |i: int| 0 <= i < p.len() && *(#[trigger] p[i]).0 == x && *p[i].1 == y;
            assert(z =~= (#[trigger] p[i]).0@ + p[i].1@);
        }
    }
}
