// ---------------------------------------------------------------------------
// lemmas/interval_bits.rs -- proved facts for the unit `interval_bits`
// (zero_extend / subpiece* / piece / adjust_to_stride_and_remainder).  No assumptions.
// ---------------------------------------------------------------------------

/// equal two's-complement readings <=> equal bit patterns
pub proof fn lemma_ib_sval_inj(w: nat, a: nat, b: nat)
    requires 1 <= w, a < p2(w), b < p2(w)
    ensures (sval(w, a) == sval(w, b)) == (a == b),
{
    lemma_sval(w, a); lemma_sval(w, b);
}

// ---------------- subpiece_higher ------------------------------------------------

/// dropping `low` low bits is the arithmetic shift: s(u) = s(u >> low) * 2^low + (u mod 2^low)
pub proof fn lemma_ib_shr_sval(w: nat, low: nat, u: nat)
    requires 1 <= low < w, u < p2(w)
    ensures ({
        let t = (w - low) as nat;
        let q = u / p2(low);
        &&& q < p2(t) && q % p2(t) == q
        &&& sval(t, q) * p2(low) <= sval(w, u) < (sval(t, q) + 1) * p2(low)
    }),
{
    let t = (w - low) as nat;
    let pl = p2(low) as int;
    let pt = p2(t) as int;
    let ht = p2((t - 1) as nat) as int;
    let q = (u / p2(low)) as int;
    let r = (u % p2(low)) as int;
    lemma_p2(low); lemma_p2(t); lemma_p2(w);
    lemma_p2_mono(low, w);                      // p2(w) == p2(low) * p2(t)
    lemma_p2_mono(low, (w - 1) as nat);         // p2(w-1) == p2(low) * p2(t-1)
    vstd::arithmetic::div_mod::lemma_fundamental_div_mod(u as int, pl);
    vstd::arithmetic::div_mod::lemma_mod_bound(u as int, pl);
    assert(u == pl * q + r);
    assert(0 <= q && q < pt) by (nonlinear_arith) requires u == pl * q + r, 0 <= r < pl, 0 <= u < pl * pt, pl > 0;
    vstd::arithmetic::div_mod::lemma_small_mod(q as nat, pt as nat);
    // sign bit of u is the sign bit of q
    assert(p2((w - 1) as nat) == pl * ht);
    assert((u >= pl * ht) == (q >= ht)) by (nonlinear_arith) requires u == pl * q + r, 0 <= r < pl, pl > 0;
    lemma_sval(w, u); lemma_sval(t, q as nat);
    let h = sval(t, q as nat);
    let c: int = if q >= ht { 1 } else { 0 };
    assert(sval(w, u) == h * pl + r && (h + 1) * pl == h * pl + pl) by (nonlinear_arith)
        requires sval(w, u) == u - c * (pl * pt), h == q - c * pt, u == pl * q + r, c == 0 || c == 1;
}

/// the arithmetic shift is monotone
pub proof fn lemma_ib_shr_mono(w: nat, low: nat, a: nat, b: nat)
    requires 1 <= low < w, a < p2(w), b < p2(w), sval(w, a) <= sval(w, b)
    ensures sval((w - low) as nat, a / p2(low)) <= sval((w - low) as nat, b / p2(low)),
{
    let t = (w - low) as nat;
    lemma_ib_shr_sval(w, low, a); lemma_ib_shr_sval(w, low, b);
    lemma_p2(low);
    let (ha, hb) = (sval(t, a / p2(low)), sval(t, b / p2(low)));
    let pl = p2(low) as int;
    assert(ha <= hb) by (nonlinear_arith) requires ha * pl < (hb + 1) * pl, pl > 0;
}

pub open spec fn ib_spec_subpiece_higher(i: Interval, low: nat) -> Interval {
    let t = (i.w() - low) as nat;
    let (s, e) = (pcode_subpiece(i.start, low, t), pcode_subpiece(i.end, low, t));
    Interval { start: s, end: e, stride: if s == e { 0u64 } else { 1u64 } }
}

pub proof fn lemma_ib_interval_subpiece_higher(i: Interval, low: nat)
    requires i.inv(), 1 <= low < i.w()
    ensures ib_spec_subpiece_higher(i, low).inv(),
            ib_spec_subpiece_higher(i, low).w() == i.w() - low,
            forall|x: Bitvector| i.gamma(x) ==> #[trigger] ib_spec_subpiece_higher(i, low).gamma(pcode_subpiece(x, low, (i.w() - low) as nat)),
{
    let w = i.w();
    let t = (w - low) as nat;
    let r = ib_spec_subpiece_higher(i, low);
    lemma_ib_shr_sval(w, low, i.start.u@); lemma_ib_shr_sval(w, low, i.end.u@);
    lemma_ib_shr_mono(w, low, i.start.u@, i.end.u@);
    lemma_ib_sval_inj(t, r.start.u@, r.end.u@);
    assert(r.inv());
    assert forall|x: Bitvector| i.gamma(x) implies #[trigger] r.gamma(pcode_subpiece(x, low, t)) by {
        lemma_ib_shr_sval(w, low, x.u@);
        lemma_ib_shr_mono(w, low, i.start.u@, x.u@);
        lemma_ib_shr_mono(w, low, x.u@, i.end.u@);
    }
}

// ---------------- subpiece_lower -------------------------------------------------

/// keeping the low t bits keeps the value modulo 2^t (signed reading of the source)
pub proof fn lemma_ib_trunc_low(w: nat, t: nat, u: nat)
    requires 1 <= t <= w, u < p2(w)
    ensures trunc(t, sval(w, u)) == u % p2(t), u % p2(t) < p2(t),
            trunc(t, sval(t, u % p2(t))) == u % p2(t),
{
    lemma_p2(t); lemma_p2(w);
    lemma_p2_mono(t, w);
    lemma_sval(w, u);
    vstd::arithmetic::div_mod::lemma_mod_bound(u as int, p2(t) as int);
    let k = p2((w - t) as nat) as int;
    if sval(w, u) != u {
        assert(u - p2(w) == u + (-k) * p2(t)) by (nonlinear_arith) requires p2(w) == p2(t) * k;
        lemma_trunc_shift(t, u as int, -k);
    }
    lemma_sval(t, u % p2(t));
}

/// congruent modulo 2^t and closer than 2^t: equal
pub proof fn lemma_ib_trunc_eq_close(t: nat, x: int, y: int)
    requires trunc(t, x) == trunc(t, y), -p2(t) < x - y < p2(t)
    ensures x == y,
{
    lemma_trunc_range(t, x); lemma_trunc_range(t, y);
    let (qx, qy) = (x / (p2(t) as int), y / (p2(t) as int));
    let p = p2(t) as int;
    let r = trunc(t, x) as int;
    assert(qx == qy) by (nonlinear_arith)
        requires x == qx * p + r, y == qy * p + r, -p < x - y < p, p > 0;
}

/// trunc(t, a) == trunc(t, b)  ==>  trunc(t, a + k) == trunc(t, b + k)
pub proof fn lemma_ib_trunc_eq_add(t: nat, a: int, b: int, k: int)
    requires trunc(t, a) == trunc(t, b)
    ensures trunc(t, a + k) == trunc(t, b + k),
{
    lemma_trunc_add(t, a, k); lemma_trunc_add(t, b, k);
}

pub open spec fn ib_spec_subpiece_lower(i: Interval, t: nat) -> Interval {
    Interval { start: bv(t, i.start.u@ % p2(t)), end: bv(t, i.end.u@ % p2(t)), stride: i.stride }
}

pub proof fn lemma_ib_interval_subpiece_lower(i: Interval, t: nat)
    requires i.inv(), 1 <= t < i.w()
    ensures ({
        let len = bv_sub(i.end, i.start);
        let r = ib_spec_subpiece_lower(i, t);
        &&& len.wf() && len.u@ == i.end.s() - i.start.s()
        &&& p2(t) < p2(i.w()) && p2(0) == 1
        &&& r.start.wf() && r.end.wf()
        &&& (len.u@ <= p2(t) - 1 && r.start.s() <= r.end.s()) ==>
                r.inv() && forall|x: Bitvector| i.gamma(x) ==> #[trigger] r.gamma(pcode_subpiece(x, 0, t))
    }),
{
    let w = i.w();
    let len = bv_sub(i.end, i.start);
    let r = ib_spec_subpiece_lower(i, t);
    lemma_binop_facts(i.end, i.start);
    lemma_p2_consts();
    lemma_p2(t);
    vstd::arithmetic::power2::lemma_pow2_strictly_increases(t, w);
    lemma_ib_trunc_low(w, t, i.start.u@); lemma_ib_trunc_low(w, t, i.end.u@);
    let (a, e) = (i.start.s(), i.end.s());
    let l = e - a;
    let (sl, el) = (r.start.s(), r.end.s());
    lemma_sval(t, r.start.u@); lemma_sval(t, r.end.u@);
    if len.u@ <= p2(t) - 1 && sl <= el {
        // el == sl + l
        lemma_ib_trunc_eq_add(t, sl, a, l);
        lemma_ib_trunc_eq_close(t, el, sl + l);
        assert(r.inv());
        assert forall|x: Bitvector| i.gamma(x) implies #[trigger] r.gamma(pcode_subpiece(x, 0, t)) by {
            let xl = pcode_subpiece(x, 0, t);
            assert(x.u@ / 1 == x.u@);
            assert(xl == bv(t, x.u@ % p2(t)));
            lemma_ib_trunc_low(w, t, x.u@);
            lemma_sval(t, xl.u@);
            let k = x.s() - a;
            lemma_ib_trunc_eq_add(t, sl, a, k);
            lemma_ib_trunc_eq_close(t, xl.s(), sl + k);
        }
    }
}

// ---------------- subpiece ---------------------------------------------------------

/// SUBPIECE(low, t) = low-t-bits of SUBPIECE(low, w - low); SUBPIECE(0, w) is the identity
pub proof fn lemma_ib_subpiece_compose(x: Bitvector, low: nat, t: nat)
    requires x.wf(), 1 <= t, low + t <= x.w@
    ensures low >= 1 ==> pcode_subpiece(pcode_subpiece(x, low, (x.w@ - low) as nat), 0, t) == pcode_subpiece(x, low, t),
            low == 0 && t == x.w@ ==> pcode_subpiece(x, 0, t) == x,
{
    lemma_p2_consts();
    if low >= 1 {
        lemma_ib_shr_sval(x.w@, low, x.u@);
        let q = x.u@ / p2(low);
        assert(q / 1 == q);
    } else if t == x.w@ {
        assert(x.u@ / 1 == x.u@);
        vstd::arithmetic::div_mod::lemma_small_mod(x.u@, p2(t));
    }
}

// ---------------- adjust_to_stride_and_remainder -----------------------------------

/// Rust's `%` on signed machine integers for a positive divisor (the sign follows the dividend)
pub open spec fn ib_rust_rem(a: int, m: int) -> int { if a >= 0 { a % m } else { -((-a) % m) } }

/// what the verifier needs to know about `a % m` and the idiom `((a % m) + m) % m` (= Euclidean a mod m)
pub open spec fn ib_rem_facts(a: int, m: int) -> bool {
    &&& -m < ib_rust_rem(a, m) < m && 0 <= a % m < m && 0 <= (-a) % m < m
    &&& a == m * (a / m) + a % m
    &&& (a >= 0 ==> 0 <= ib_rust_rem(a, m)) && (a < 0 ==> ib_rust_rem(a, m) <= 0)
}
pub open spec fn ib_idiom_facts(a: int, m: int) -> bool {
    &&& ib_rem_facts(a, m) && ib_rem_facts(ib_rust_rem(a, m) + m, m)
    &&& ib_rust_rem(ib_rust_rem(a, m) + m, m) == a % m
}

pub proof fn lemma_ib_rust_rem(a: int, m: int)
    requires m > 0
    ensures ib_idiom_facts(a, m),
{
    vstd::arithmetic::div_mod::lemma_fundamental_div_mod(a, m);
    vstd::arithmetic::div_mod::lemma_mod_bound(a, m);
    vstd::arithmetic::div_mod::lemma_mod_bound(-a, m);
    let d = ib_rust_rem(a, m);
    vstd::arithmetic::div_mod::lemma_fundamental_div_mod(d + m, m);
    vstd::arithmetic::div_mod::lemma_mod_bound(d + m, m);
    vstd::arithmetic::div_mod::lemma_mod_bound(-(d + m), m);
    if a >= 0 {
        vstd::arithmetic::div_mod::lemma_fundamental_div_mod_converse(d + m, m, 1, d);
    } else {
        let e = (-a) % m;
        vstd::arithmetic::div_mod::lemma_fundamental_div_mod(-a, m);
        let q = (-a) / m;
        if e == 0 {
            vstd::arithmetic::div_mod::lemma_fundamental_div_mod_converse(m, m, 1, 0);
            assert(a == m * (-q)) by (nonlinear_arith) requires -a == m * q;
            vstd::arithmetic::div_mod::lemma_fundamental_div_mod_converse(a, m, -q, 0);
        } else {
            vstd::arithmetic::div_mod::lemma_small_mod((m - e) as nat, m as nat);
            assert(a == m * (-q - 1) + (m - e)) by (nonlinear_arith) requires -a == m * q + e;
            vstd::arithmetic::div_mod::lemma_fundamental_div_mod_converse(a, m, -q - 1, m - e);
        }
    }
}

/// first / last member of the residue class `rem` (mod m) inside [s, e]
pub open spec fn ib_adj_start(s: int, rem: int, m: int) -> int { s + (rem - s) % m }
pub open spec fn ib_adj_end(e: int, rem: int, m: int) -> int { e - (e - rem) % m }

pub proof fn lemma_ib_adjust_int(s: int, e: int, rem: int, m: int, v: int)
    requires m > 0
    ensures ({
        let (s1, e1) = (ib_adj_start(s, rem, m), ib_adj_end(e, rem, m));
        &&& s <= s1 < s + m && e - m < e1 <= e
        &&& (s1 - rem) % m == 0 && (e1 - rem) % m == 0 && (e1 - s1) % m == 0
        &&& (s <= v <= e && (v - rem) % m == 0) <==> (s1 <= v <= e1 && (v - s1) % m == 0)
    }),
{
    let (s1, e1) = (ib_adj_start(s, rem, m), ib_adj_end(e, rem, m));
    let (d1, d2) = ((rem - s) % m, (e - rem) % m);
    let (q1, q2) = ((rem - s) / m, (e - rem) / m);
    vstd::arithmetic::div_mod::lemma_fundamental_div_mod(rem - s, m);
    vstd::arithmetic::div_mod::lemma_fundamental_div_mod(e - rem, m);
    vstd::arithmetic::div_mod::lemma_mod_bound(rem - s, m);
    vstd::arithmetic::div_mod::lemma_mod_bound(e - rem, m);
    assert(s1 - rem == m * (-q1) && e1 - rem == m * q2 && e1 - s1 == m * (q2 + q1)) by (nonlinear_arith)
        requires rem - s == m * q1 + d1, s1 == s + d1, e - rem == m * q2 + d2, e1 == e - d2;
    lemma_divides_mul(m, -q1); lemma_divides_mul(m, q2); lemma_divides_mul(m, q2 + q1);
    if s <= v <= e && (v - rem) % m == 0 {
        lemma_divides_witness(m, v - rem);
        let k = (v - rem) / m;
        assert(v - s1 == m * (k + q1) && e1 - v == m * (q2 - k)) by (nonlinear_arith)
            requires v - rem == m * k, s1 - rem == m * (-q1), e1 - rem == m * q2;
        lemma_divides_mul(m, k + q1);
        assert(m * (k + q1) >= 0 && m * (q2 - k) >= 0) by (nonlinear_arith)
            requires m * (k + q1) > -m, m * (q2 - k) > -m, m > 0;
    }
    if s1 <= v <= e1 && (v - s1) % m == 0 {
        lemma_divides_witness(m, v - s1);
        let j = (v - s1) / m;
        assert(v - rem == m * (j - q1)) by (nonlinear_arith) requires v - s1 == m * j, s1 - rem == m * (-q1);
        lemma_divides_mul(m, j - q1);
    }
}

/// truncating a 64-bit two's-complement encoding to w <= 64 bits keeps every value of the w-bit signed range
pub proof fn lemma_ib_from_i64_truncate(w: nat, x: int)
    requires 1 <= w <= 64, smin(w) <= x <= smax(w)
    ensures trunc(64, x) % p2(w) == trunc(w, x), trunc(w, x) < p2(w), sval(w, trunc(w, x)) == x,
            -0x8000_0000_0000_0000 <= smin(w), smax(w) <= 0x7fff_ffff_ffff_ffff,
{
    lemma_p2_consts();
    lemma_p2_mono((w - 1) as nat, 63);
    lemma_p2_mono(w, 64);
    lemma_trunc_range(64, x);
    lemma_trunc_sval(w, x);
    let q = x / (p2(64) as int);
    let k = p2((64 - w) as nat) as int;
    // trunc(64, x) = x - q * 2^64 = x + (-q * k) * 2^w
    assert(trunc(64, x) as int == x + (-q * k) * p2(w)) by (nonlinear_arith)
        requires x == q * p2(64) + trunc(64, x), p2(64) == p2(w) * k;
    lemma_trunc_shift(w, x, -q * k);
}

/// the interval `adjust_to_stride_and_remainder` computes for widths <= 64 bit
pub open spec fn ib_spec_adjust(i: Interval, m: u64, rem: u64) -> Interval {
    let w = i.start.w@;
    let (s1, e1) = (ib_adj_start(i.start.s(), rem as int, m as int), ib_adj_end(i.end.s(), rem as int, m as int));
    Interval { start: bv(w, trunc(w, s1)), end: bv(w, trunc(w, e1)), stride: if s1 == e1 { 0u64 } else { m } }
}

pub proof fn lemma_ib_adjust(i: Interval, m: u64, rem: u64)
    requires i.start.wf(), i.end.wf(), i.start.w@ == i.end.w@, byte_w(i.start.w@), i.start.w@ <= 64, m > 0
    ensures ({
        let w = i.start.w@;
        let (s, e) = (i.start.s(), i.end.s());
        let (s1, e1) = (ib_adj_start(s, rem as int, m as int), ib_adj_end(e, rem as int, m as int));
        let r = ib_spec_adjust(i, m, rem);
        &&& i.start.u@ < p2(128) && i.end.u@ < p2(128)
        &&& -0x8000_0000_0000_0000 <= s <= 0x7fff_ffff_ffff_ffff && -0x8000_0000_0000_0000 <= e <= 0x7fff_ffff_ffff_ffff
        &&& ib_idiom_facts(rem - s, m as int) && ib_idiom_facts(e - rem, m as int)
        &&& s <= s1 < s + m && e - m < e1 <= e
        &&& forall|v: Bitvector| #[trigger] in_class(i, m, rem, v) ==> s1 <= v.s() <= e1
        &&& s1 <= e1 ==> {
            &&& r.start == bv(w, trunc(64, s1) % p2(w)) && r.end == bv(w, trunc(64, e1) % p2(w))
            &&& r.start.s() == s1 && r.end.s() == e1 && (r.start == r.end) == (s1 == e1)
            &&& r.inv()
            &&& forall|v: Bitvector| in_class(i, m, rem, v) == #[trigger] r.gamma(v)
        }
    }),
{
    let w = i.start.w@;
    let (s, e) = (i.start.s(), i.end.s());
    let (s1, e1) = (ib_adj_start(s, rem as int, m as int), ib_adj_end(e, rem as int, m as int));
    let r = ib_spec_adjust(i, m, rem);
    lemma_p2_consts();
    lemma_p2_mono(w, 64);
    lemma_sval(w, i.start.u@); lemma_sval(w, i.end.u@);
    lemma_p2_mono((w - 1) as nat, 63);
    lemma_ib_rust_rem(rem - s, m as int); lemma_ib_rust_rem(e - rem, m as int);
    lemma_ib_adjust_int(s, e, rem as int, m as int, 0);
    assert forall|v: Bitvector| #[trigger] in_class(i, m, rem, v) implies s1 <= v.s() <= e1 by {
        lemma_ib_adjust_int(s, e, rem as int, m as int, v.s());
    }
    if s1 <= e1 {
        lemma_ib_from_i64_truncate(w, s1); lemma_ib_from_i64_truncate(w, e1);
        lemma_ib_sval_inj(w, r.start.u@, r.end.u@);
        assert(r.inv());
        assert forall|v: Bitvector| in_class(i, m, rem, v) == #[trigger] r.gamma(v) by {
            lemma_ib_adjust_int(s, e, rem as int, m as int, v.s());
        }
    }
}

// ---------------- u64::trailing_zeros (vstd: u64_trailing_zeros + axiom_u64_trailing_zeros) -------

/// k = trailing_zeros(x), x != 0:  k < 64, 2^k divides x, and `1 << k` is 2^k (as u64 and as i128)
pub proof fn lemma_ib_tz(x: u64)
    requires x != 0
    ensures 0 <= vstd::std_specs::bits::u64_trailing_zeros(x) < 64,
            (x as int) % (p2(vstd::std_specs::bits::u64_trailing_zeros(x) as nat) as int) == 0,
            0 < p2(vstd::std_specs::bits::u64_trailing_zeros(x) as nat) <= x,
            (1u64 << (vstd::std_specs::bits::u64_trailing_zeros(x) as u32)) == p2(vstd::std_specs::bits::u64_trailing_zeros(x) as nat),
            (1i128 << (vstd::std_specs::bits::u64_trailing_zeros(x) as u32)) == p2(vstd::std_specs::bits::u64_trailing_zeros(x) as nat),
            x % 2 == 1 ==> vstd::std_specs::bits::u64_trailing_zeros(x) == 0,
{
    vstd::std_specs::bits::axiom_u64_trailing_zeros(x);
    let k = vstd::std_specs::bits::u64_trailing_zeros(x) as u64;
    assert(x == (x >> k) << k) by (bit_vector) requires k < 64, x << sub(64, k) == 0;
    let h = x >> k;
    vstd::bits::lemma_u64_shr_is_div(x, k);
    vstd::arithmetic::power2::lemma_pow2_pos(k as nat);
    let p = p2(k as nat) as int;
    vstd::arithmetic::div_mod::lemma_fundamental_div_mod(x as int, p);
    vstd::arithmetic::div_mod::lemma_mod_bound(x as int, p);
    assert(h as int == (x as int) / p);
    assert(h * p <= x) by (nonlinear_arith) requires x as int == p * (h as int) + (x as int) % p, 0 <= (x as int) % p;
    vstd::bits::lemma_u64_shl_is_mul(h, k);
    assert(x == h * p);
    assert(x as int == p * (h as int) && h != 0 && p <= x) by (nonlinear_arith) requires x == h * p, x != 0, p > 0, h >= 0;
    vstd::arithmetic::div_mod::lemma_fundamental_div_mod_converse(x as int, p, h as int, 0);
    vstd::bits::lemma_u64_shl_is_mul(1, k);
    if k >= 1 {
        lemma_p2(k as nat);
        let hp = p2((k - 1) as nat) as int;
        assert(x as int == 2 * (hp * (h as int))) by (nonlinear_arith) requires x as int == p * (h as int), p == 2 * hp;
    }
    let k32 = k as u32;
    assert((1u64 << k32) == (1u64 << k)) by (bit_vector) requires k < 64, k32 == k as u32;
    assert((1i128 << k32) == ((1u64 << k) as i128)) by (bit_vector) requires k < 64, k32 == k as u32;
}

// ---------------- zero_extend ----------------------------------------------------------

/// a positive multiple of d is at least d
pub proof fn lemma_ib_divisor_le(d: int, x: int)
    requires d > 0, x > 0, x % d == 0
    ensures d <= x,
{
    lemma_divides_witness(d, x);
    let q = x / d;
    assert(d <= x) by (nonlinear_arith) requires x == d * q, x > 0, d > 0;
}

/// 2^k <= x < 2^w  ==>  k < w and 2^k divides 2^w
pub proof fn lemma_ib_p2_divides(k: nat, w: nat, x: int)
    requires p2(k) <= x < p2(w)
    ensures k < w, divides(p2(k) as int, p2(w) as int), p2(k) > 0,
{
    lemma_p2(k);
    if k >= w { lemma_p2_mono(w, k); }
    lemma_p2_mono(k, w);
    lemma_divides_mul(p2(k) as int, p2((w - k) as nat) as int);
}

/// zero extension, bounds of equal sign: the unsigned order is the signed order
pub proof fn lemma_ib_zext_same_sign(i: Interval, ww: nat)
    requires i.inv(), i.w() < ww <= MAXW(), i.start.sign() == i.end.sign()
    ensures ({
        let r = Interval { start: bv(ww, i.start.u@), end: bv(ww, i.end.u@), stride: i.stride };
        r.inv() && forall|x: Bitvector| i.gamma(x) ==> #[trigger] r.gamma(bv(ww, x.u@))
    }),
{
    let w = i.w();
    let r = Interval { start: bv(ww, i.start.u@), end: bv(ww, i.end.u@), stride: i.stride };
    lemma_p2_mono(w, (ww - 1) as nat);
    lemma_p2(ww);
    lemma_sval(w, i.start.u@); lemma_sval(w, i.end.u@);
    lemma_sval(ww, i.start.u@); lemma_sval(ww, i.end.u@);
    assert(r.inv());
    assert forall|x: Bitvector| i.gamma(x) implies #[trigger] r.gamma(bv(ww, x.u@)) by {
        lemma_sval(w, x.u@); lemma_sval(ww, x.u@);
    }
}

/// [0, 2^w - 1] at width ww: what zero_extend starts from when the bounds have different signs (stride 1)
pub open spec fn ib_zext_full(i: Interval, ww: nat, stride: u64) -> Interval {
    Interval { start: bv(ww, 0), end: bv(ww, (p2(i.w()) - 1) as nat), stride: stride }
}

pub proof fn lemma_ib_zext_mixed(i: Interval, ww: nat)
    requires i.inv(), i.w() < ww <= MAXW(), i.start.sign() != i.end.sign()
    ensures ({
        let k = vstd::std_specs::bits::u64_trailing_zeros(i.stride) as nat;
        let m = p2(k) as u64;
        let s = i.start.s();
        let rem = (s % (m as int)) as u64;
        let full1 = ib_zext_full(i, ww, 1);
        &&& i.stride != 0 && 0 <= k < 64 && 0 < p2(k) <= i.stride && m == p2(k)
        &&& (i.stride % 2 == 1 ==> m == 1)
        &&& (1i128 << (k as u32)) == p2(k)
        &&& (i.start.u@ < p2(128) ==> i.w() <= 128)
        &&& ib_idiom_facts(s, m as int) && 0 <= s % (m as int) < m
        &&& full1.start.wf() && full1.end.wf() && full1.start.s() == 0 && full1.end.s() == p2(i.w()) - 1
        &&& in_class(full1, m, rem, bv(ww, i.start.u@))
        &&& forall|x: Bitvector| i.gamma(x) ==> #[trigger] in_class(full1, m, rem, bv(ww, x.u@))
        &&& full1.inv() && forall|x: Bitvector| i.gamma(x) ==> #[trigger] full1.gamma(bv(ww, x.u@))
    }),
{
    let w = i.w();
    let k = vstd::std_specs::bits::u64_trailing_zeros(i.stride) as nat;
    let (s, e) = (i.start.s(), i.end.s());
    lemma_sval(w, i.start.u@); lemma_sval(w, i.end.u@);
    assert(s < 0 <= e);
    assert(i.stride != 0);
    lemma_ib_tz(i.stride);
    let m = p2(k) as u64;
    lemma_p2_consts();
    let mi = m as int;
    let st = i.stride as int;
    let rem = (s % mi) as u64;
    let full1 = ib_zext_full(i, ww, 1);
    lemma_ib_rust_rem(s, mi);
    // widths
    lemma_p2_mono(w, (ww - 1) as nat);
    lemma_p2(ww); lemma_p2(w);
    lemma_sval(ww, 0); lemma_sval(ww, (p2(w) - 1) as nat);
    if w > 128 { lemma_p2_mono(128, (w - 1) as nat); }
    // 2^k | stride | (e - s) < 2^w
    lemma_ib_divisor_le(st, e - s);
    lemma_ib_p2_divides(k, w, st);
    assert(full1.inv());
    assert forall|x: Bitvector| i.gamma(x) implies #[trigger] in_class(full1, m, rem, bv(ww, x.u@)) && full1.gamma(bv(ww, x.u@)) by {
        lemma_sval(w, x.u@); lemma_sval(ww, x.u@);
        let c: int = if x.s() < 0 { 1 } else { 0 };
        assert(x.u@ - rem == (x.s() - s) + c * p2(w) + (s - s % mi));
        lemma_divides_trans(mi, st, x.s() - s);
        lemma_divides_witness(mi, p2(w) as int);
        let q = (p2(w) as int) / mi;
        assert(c * p2(w) == mi * (c * q)) by (nonlinear_arith) requires p2(w) == mi * q;
        lemma_divides_mul(mi, c * q);
        lemma_divides_mul(mi, s / mi);
        lemma_divides_add(mi, x.s() - s, c * p2(w));
        lemma_divides_add(mi, (x.s() - s) + c * p2(w), s - s % mi);
    }
    assert(i.gamma(i.start));
}

// ---------------- piece ----------------------------------------------------------------

/// P-Code PIECE: x supplies the most significant bits
pub open spec fn ib_concat(x: Bitvector, y: Bitvector) -> Bitvector {
    bv(x.w@ + y.w@, x.u@ * p2(y.w@) + y.u@)
}

/// signed reading of a concatenation: s(x ++ y) = s(x) * 2^wb + u(y)
pub proof fn lemma_ib_concat_sval(x: Bitvector, y: Bitvector)
    requires x.wf(), y.wf(), x.w@ + y.w@ <= MAXW()
    ensures ib_concat(x, y).wf(), ib_concat(x, y).s() == x.s() * p2(y.w@) + y.u@,
{
    let (wa, wb) = (x.w@, y.w@);
    let pb = p2(wb) as int;
    let pa = p2(wa) as int;
    let ha = p2((wa - 1) as nat) as int;
    let (xu, yu) = (x.u@ as int, y.u@ as int);
    let u = xu * pb + yu;
    lemma_piece(x, y);
    lemma_p2(wa); lemma_p2(wb);
    lemma_p2_mono(wb, wa + wb);                       // p2(wa+wb) == p2(wb) * p2(wa)
    lemma_p2_mono(wb, (wa + wb - 1) as nat);          // p2(wa+wb-1) == p2(wb) * p2(wa-1)
    assert((wa + wb - wb) as nat == wa && (wa + wb - 1 - wb) as nat == (wa - 1) as nat);
    assert((u >= pb * ha) == (xu >= ha)) by (nonlinear_arith) requires u == xu * pb + yu, 0 <= yu < pb, pb > 0;
    lemma_sval(wa, x.u@); lemma_sval(wa + wb, u as nat);
    if xu >= ha {
        assert(u - pb * pa == (xu - pa) * pb + yu) by (nonlinear_arith) requires u == xu * pb + yu;
    }
}

/// x strictly above a  ==>  x ++ anything is strictly above a ++ anything
pub proof fn lemma_ib_concat_order(xs: int, yu: int, a: int, bu: int, p: int)
    requires 0 <= yu < p, 0 <= bu < p, xs > a
    ensures xs * p + yu > a * p + bu,
{
    assert(xs * p >= a * p + p) by (nonlinear_arith) requires xs >= a + 1, p > 0;
}

/// `other` has bounds of different sign: piece starts from [start ++ 0..0, end ++ 1..1], stride 1
pub open spec fn ib_piece_full(a: Interval, b: Interval) -> Interval {
    Interval { start: ib_concat(a.start, bv(b.w(), 0)), end: ib_concat(a.end, bv(b.w(), (p2(b.w()) - 1) as nat)), stride: 1 }
}

pub proof fn lemma_ib_piece_mixed(a: Interval, b: Interval)
    requires a.inv(), b.inv(), a.w() + b.w() <= MAXW(), b.start.sign() && !b.end.sign()
    ensures ({
        let wb = b.w();
        let k = vstd::std_specs::bits::u64_trailing_zeros(b.stride) as nat;
        let m = p2(k) as u64;
        let rem = (b.start.s() % (m as int)) as u64;
        let full = ib_piece_full(a, b);
        &&& bv(wb, 0).wf() && bv(wb, 1).wf() && bv_neg(bv(wb, 1)) == bv(wb, (p2(wb) - 1) as nat) && bv_neg(bv(wb, 1)).wf()
        &&& full.start.wf() && full.end.wf() && full.inv() && full.w() == a.w() + wb
        &&& forall|x: Bitvector, y: Bitvector| #![trigger a.gamma(x), b.gamma(y)] a.gamma(x) && b.gamma(y) ==> full.gamma(ib_concat(x, y))
        &&& b.stride != 0 && 0 <= k < 64 && 0 < p2(k) <= b.stride && m == p2(k) && (1u64 << (k as u32)) == p2(k)
        &&& (wb <= 128 ==> b.start.u@ < p2(128))
        &&& ib_idiom_facts(b.start.s(), m as int) && 0 <= b.start.s() % (m as int) < m
        &&& in_class(full, m, rem, ib_concat(a.start, b.start))
        &&& forall|x: Bitvector, y: Bitvector| #![trigger a.gamma(x), b.gamma(y)] a.gamma(x) && b.gamma(y) ==> in_class(full, m, rem, ib_concat(x, y))
    }),
{
    let (wa, wb) = (a.w(), b.w());
    let k = vstd::std_specs::bits::u64_trailing_zeros(b.stride) as nat;
    let pb = p2(wb) as int;
    let full = ib_piece_full(a, b);
    let zero = bv(wb, 0);
    let ones = bv(wb, (p2(wb) - 1) as nat);
    lemma_p2(wb);
    lemma_minus_one(wb);
    lemma_trunc_neg_case(wb, 1);
    lemma_sval(wb, b.start.u@); lemma_sval(wb, b.end.u@);
    let (bs, be) = (b.start.s(), b.end.s());
    assert(bs < 0 <= be);
    lemma_ib_tz(b.stride);
    let m = p2(k) as u64;
    let mi = m as int;
    let st = b.stride as int;
    let rem = (bs % mi) as u64;
    lemma_ib_rust_rem(bs, mi);
    if wb <= 128 { lemma_p2_mono(wb, 128); }
    // 2^k | stride | (be - bs) < 2^wb
    lemma_ib_divisor_le(st, be - bs);
    lemma_ib_p2_divides(k, wb, st);
    lemma_divides_witness(mi, pb);
    let qp = pb / mi;
    // bounds of the full interval
    lemma_ib_concat_sval(a.start, zero); lemma_ib_concat_sval(a.end, ones);
    let (fs, fe) = (full.start.s(), full.end.s());
    assert(fs == a.start.s() * pb && fe == a.end.s() * pb + pb - 1);
    assert(a.start.s() * pb <= a.end.s() * pb) by (nonlinear_arith) requires a.start.s() <= a.end.s(), pb > 0;
    assert(pb >= 2);
    assert(full.inv());
    assert forall|x: Bitvector, y: Bitvector| #![trigger a.gamma(x), b.gamma(y)] a.gamma(x) && b.gamma(y)
        implies full.gamma(ib_concat(x, y)) && in_class(full, m, rem, ib_concat(x, y)) by
    {
        lemma_ib_concat_sval(x, y);
        let v = ib_concat(x, y);
        let xs = x.s();
        assert(a.start.s() * pb <= xs * pb && xs * pb <= a.end.s() * pb) by (nonlinear_arith)
            requires a.start.s() <= xs <= a.end.s(), pb > 0;
        // residue class
        lemma_sval(wb, y.u@);
        let c: int = if y.s() < 0 { 1 } else { 0 };
        assert(y.u@ == y.s() + c * pb);
        assert(v.s() - rem == (xs + c) * pb + (y.s() - bs) + (bs - bs % mi)) by (nonlinear_arith)
            requires v.s() == xs * pb + y.u@, y.u@ == y.s() + c * pb, rem as int == bs % mi;
        assert((xs + c) * pb == mi * ((xs + c) * qp)) by (nonlinear_arith) requires pb == mi * qp;
        lemma_divides_mul(mi, (xs + c) * qp);
        lemma_divides_trans(mi, st, y.s() - bs);
        lemma_divides_mul(mi, bs / mi);
        lemma_divides_add(mi, (xs + c) * pb, y.s() - bs);
        lemma_divides_add(mi, (xs + c) * pb + (y.s() - bs), bs - bs % mi);
    }
    assert(a.gamma(a.start) && b.gamma(b.start));
}

/// k <= leading_zeros(x), k < 64: x << k does not lose bits
pub proof fn lemma_ib_lz_shift(x: u64, k: nat)
    requires k < 64, vstd::std_specs::bits::u64_leading_zeros(x) >= k
    ensures x * p2(k) <= u64::MAX,
{
    vstd::std_specs::bits::axiom_u64_leading_zeros(x);
    lemma_p2_consts();
    if k >= 1 {
        let lz = vstd::std_specs::bits::u64_leading_zeros(x) as u64;
        let kk = k as u64;
        assert(x >> sub(64u64, kk) == 0) by (bit_vector)
            requires lz <= 64, kk <= lz, 1 <= kk < 64, x >> sub(64u64, lz) == 0;
        let sh = (64 - kk) as u64;
        vstd::bits::lemma_u64_shr_is_div(x, sh);
        let ph = p2(sh as nat) as int;
        lemma_p2(sh as nat);
        lemma_p2_mono(k, 64);                      // p2(64) == p2(k) * p2(64 - k)
        vstd::arithmetic::div_mod::lemma_fundamental_div_mod(x as int, ph);
        vstd::arithmetic::div_mod::lemma_mod_bound(x as int, ph);
        assert(x < ph);
        assert(x * p2(k) < p2(k) * ph) by (nonlinear_arith) requires x < ph, p2(k) > 0, x >= 0;
    } else {
        assert(x * p2(0) == x) by (nonlinear_arith) requires p2(0) == 1;
    }
}

/// the stride `piece` computes when the bounds of `other` have the same sign
pub open spec fn ib_piece_stride(a: Interval, b: Interval) -> u64 {
    if a.stride == 0 { b.stride }
    else if b.stride == 0 {
        // shifted stride if it fits into 64 bits, else the fallback 1
        if b.w() < 64 && vstd::std_specs::bits::u64_leading_zeros(a.stride) >= b.w() { (a.stride * p2(b.w())) as u64 } else { 1 }
    }
    else { p2(vstd::std_specs::bits::u64_trailing_zeros(b.stride) as nat) as u64 }
}
pub open spec fn ib_piece_same(a: Interval, b: Interval) -> Interval {
    Interval { start: ib_concat(a.start, b.start), end: ib_concat(a.end, b.end), stride: ib_piece_stride(a, b) }
}

pub proof fn lemma_ib_piece_same(a: Interval, b: Interval)
    requires a.inv(), b.inv(), a.w() + b.w() <= MAXW(), !(b.start.sign() && !b.end.sign()),
    ensures ({
        let wb = b.w();
        let k = vstd::std_specs::bits::u64_trailing_zeros(b.stride) as nat;
        let r = ib_piece_same(a, b);
        &&& r.start.wf() && r.end.wf() && r.inv() && r.w() == a.w() + wb
        &&& forall|x: Bitvector, y: Bitvector| #![trigger a.gamma(x), b.gamma(y)] a.gamma(x) && b.gamma(y) ==> r.gamma(ib_concat(x, y))
        &&& (b.stride != 0 ==> 0 <= k < 64 && (1u64 << (k as u32)) == p2(k))
        &&& (a.stride != 0 && b.stride == 0 && wb < 64 && vstd::std_specs::bits::u64_leading_zeros(a.stride) >= wb
                ==> a.stride * p2(wb) <= u64::MAX && (a.stride << (wb as u64)) == a.stride * p2(wb))
    }),
{
    let (wa, wb) = (a.w(), b.w());
    let pb = p2(wb) as int;
    let r = ib_piece_same(a, b);
    lemma_p2(wb);
    lemma_p2_consts();
    lemma_sval(wb, b.start.u@); lemma_sval(wb, b.end.u@);
    lemma_sval(wa, a.start.u@); lemma_sval(wa, a.end.u@);
    let (as_, ae) = (a.start.s(), a.end.s());
    let (bsu, beu) = (b.start.u@ as int, b.end.u@ as int);
    // same sign: unsigned distance == signed distance
    assert(beu - bsu == b.end.s() - b.start.s());
    lemma_ib_concat_sval(a.start, b.start); lemma_ib_concat_sval(a.end, b.end);
    let (rs, re) = (r.start.s(), r.end.s());
    assert(re - rs == (ae - as_) * pb + (beu - bsu)) by (nonlinear_arith)
        requires rs == as_ * pb + bsu, re == ae * pb + beu;
    if ae > as_ { lemma_ib_concat_order(ae, beu, as_, bsu, pb); }
    let sa = a.stride as int;
    let sb = b.stride as int;
    let sr = r.stride as int;
    if b.stride != 0 { lemma_ib_tz(b.stride); }
    // the stride divides 2^wb * (multiples of a.stride) and multiples of b.stride
    if a.stride == 0 {
    } else if b.stride == 0 {
        if wb < 64 && vstd::std_specs::bits::u64_leading_zeros(a.stride) >= wb {
            lemma_ib_lz_shift(a.stride, wb);
            vstd::bits::lemma_u64_shl_is_mul(a.stride, wb as u64);
            assert(sr == sa * pb);
            assert(sr > 0) by (nonlinear_arith) requires sr == sa * pb, sa > 0, pb > 0;
        }
    } else {
        lemma_ib_tz(b.stride);
        lemma_ib_divisor_le(sb, beu - bsu);
        lemma_ib_p2_divides(vstd::std_specs::bits::u64_trailing_zeros(b.stride) as nat, wb, sb);
    }
    assert forall|ds: int, du: int| (on_stride(a.stride, ds) && on_stride(b.stride, du)) implies #[trigger] on_stride(r.stride, ds * pb + du) by {
        if a.stride == 0 {
            assert(ds * pb == 0) by (nonlinear_arith) requires ds == 0;
        } else if b.stride == 0 {
            if sr == 1 {
                assert((ds * pb + du) % 1 == 0);
            } else {
                lemma_divides_witness(sa, ds);
                let j = ds / sa;
                assert(ds * pb == (sa * pb) * j) by (nonlinear_arith) requires ds == sa * j;
                lemma_divides_mul(sr, j);
            }
        } else {
            lemma_divides_witness(sr, pb);
            let qp = pb / sr;
            assert(ds * pb == sr * (ds * qp)) by (nonlinear_arith) requires pb == sr * qp;
            lemma_divides_mul(sr, ds * qp);
            lemma_divides_trans(sr, sb, du);
            lemma_divides_add(sr, ds * pb, du);
        }
    }
    assert(on_stride(r.stride, (ae - as_) * pb + (beu - bsu)));
    assert(r.inv());
    assert forall|x: Bitvector, y: Bitvector| #![trigger a.gamma(x), b.gamma(y)] a.gamma(x) && b.gamma(y)
        implies r.gamma(ib_concat(x, y)) by
    {
        lemma_ib_concat_sval(x, y);
        lemma_sval(wb, y.u@); lemma_sval(wa, x.u@);
        let (xs, yu) = (x.s(), y.u@ as int);
        let v = ib_concat(x, y);
        assert(yu - bsu == y.s() - b.start.s());
        assert(v.s() - rs == (xs - as_) * pb + (yu - bsu)) by (nonlinear_arith)
            requires v.s() == xs * pb + yu, rs == as_ * pb + bsu;
        if xs > as_ { lemma_ib_concat_order(xs, yu, as_, bsu, pb); }
        if ae > xs { lemma_ib_concat_order(ae, beu, xs, yu, pb); }
        assert(on_stride(r.stride, (xs - as_) * pb + (yu - bsu)));
    }
}
