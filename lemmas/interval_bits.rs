// ---------------------------------------------------------------------------
// lemmas/interval_bits.rs -- proved facts for the unit `interval_bits`
// (zero_extend / subpiece* / piece / adjust_to_stride_and_remainder).  No assumptions.
// ---------------------------------------------------------------------------

/// equal two's-complement readings <=> equal bit patterns
pub proof fn lemma_sval_inj(w: nat, a: nat, b: nat)
    requires 1 <= w, a < p2(w), b < p2(w)
    ensures (sval(w, a) == sval(w, b)) == (a == b),
{
    lemma_sval(w, a); lemma_sval(w, b);
}

// ---------------- subpiece_higher ------------------------------------------------

/// dropping `low` low bits is the arithmetic shift: s(u) = s(u >> low) * 2^low + (u mod 2^low)
pub proof fn lemma_shr_sval(w: nat, low: nat, u: nat)
    requires 1 <= low < w, u < p2(w)
    ensures ({
        let t = (w - low) as nat;
        let q = u / p2(low);
        &&& q < p2(t) && q % p2(t) == q
        &&& sval(t, q) * p2(low) <= sval(w, u) < (sval(t, q) + 1) * p2(low)
    }),
{
    let t = (w - low) as nat;
    let pl = p2(low) as int;
    let pt = p2(t) as int;
    let ht = p2((t - 1) as nat) as int;
    let q = (u / p2(low)) as int;
    let r = (u % p2(low)) as int;
    lemma_p2(low); lemma_p2(t); lemma_p2(w);
    lemma_p2_mono(low, w);                      // p2(w) == p2(low) * p2(t)
    lemma_p2_mono(low, (w - 1) as nat);         // p2(w-1) == p2(low) * p2(t-1)
    vstd::arithmetic::div_mod::lemma_fundamental_div_mod(u as int, pl);
    vstd::arithmetic::div_mod::lemma_mod_bound(u as int, pl);
    assert(u == pl * q + r);
    assert(0 <= q) by (nonlinear_arith) requires u == pl * q + r, 0 <= r < pl, u >= 0, pl > 0;
    assert(q < pt) by (nonlinear_arith) requires u == pl * q + r, 0 <= r, u < pl * pt, pl > 0;
    vstd::arithmetic::div_mod::lemma_small_mod(q as nat, pt as nat);
    // sign bit of u is the sign bit of q
    assert(p2((w - 1) as nat) == pl * ht);
    assert((u >= pl * ht) == (q >= ht)) by (nonlinear_arith) requires u == pl * q + r, 0 <= r < pl, pl > 0;
    lemma_sval(w, u); lemma_sval(t, q as nat);
    let h = sval(t, q as nat);
    if q >= ht {
        assert(sval(w, u) == h * pl + r) by (nonlinear_arith)
            requires sval(w, u) == u - pl * pt, h == q - pt, u == pl * q + r;
    } else {
        assert(sval(w, u) == h * pl + r) by (nonlinear_arith)
            requires sval(w, u) == u, h == q, u == pl * q + r;
    }
    assert((h + 1) * pl == h * pl + pl) by (nonlinear_arith);
}

/// the arithmetic shift is monotone
pub proof fn lemma_shr_mono(w: nat, low: nat, a: nat, b: nat)
    requires 1 <= low < w, a < p2(w), b < p2(w), sval(w, a) <= sval(w, b)
    ensures sval((w - low) as nat, a / p2(low)) <= sval((w - low) as nat, b / p2(low)),
{
    let t = (w - low) as nat;
    lemma_shr_sval(w, low, a); lemma_shr_sval(w, low, b);
    lemma_p2(low);
    let (ha, hb) = (sval(t, a / p2(low)), sval(t, b / p2(low)));
    let pl = p2(low) as int;
    assert(ha <= hb) by (nonlinear_arith) requires ha * pl < (hb + 1) * pl, pl > 0;
}

pub open spec fn spec_subpiece_higher(i: Interval, low: nat) -> Interval {
    let t = (i.w() - low) as nat;
    let (s, e) = (pcode_subpiece(i.start, low, t), pcode_subpiece(i.end, low, t));
    Interval { start: s, end: e, stride: if s == e { 0u64 } else { 1u64 } }
}

pub proof fn lemma_interval_subpiece_higher(i: Interval, low: nat)
    requires i.inv(), 1 <= low < i.w()
    ensures spec_subpiece_higher(i, low).inv(),
            spec_subpiece_higher(i, low).w() == i.w() - low,
            forall|x: Bitvector| i.gamma(x) ==> #[trigger] spec_subpiece_higher(i, low).gamma(pcode_subpiece(x, low, (i.w() - low) as nat)),
{
    let w = i.w();
    let t = (w - low) as nat;
    let r = spec_subpiece_higher(i, low);
    lemma_shr_sval(w, low, i.start.u@); lemma_shr_sval(w, low, i.end.u@);
    lemma_shr_mono(w, low, i.start.u@, i.end.u@);
    lemma_sval_inj(t, r.start.u@, r.end.u@);
    assert(r.inv());
    assert forall|x: Bitvector| i.gamma(x) implies #[trigger] r.gamma(pcode_subpiece(x, low, t)) by {
        lemma_shr_sval(w, low, x.u@);
        lemma_shr_mono(w, low, i.start.u@, x.u@);
        lemma_shr_mono(w, low, x.u@, i.end.u@);
    }
}

// ---------------- subpiece_lower -------------------------------------------------

/// keeping the low t bits keeps the value modulo 2^t (signed reading of the source)
pub proof fn lemma_trunc_low(w: nat, t: nat, u: nat)
    requires 1 <= t <= w, u < p2(w)
    ensures trunc(t, sval(w, u)) == u % p2(t), u % p2(t) < p2(t),
            trunc(t, sval(t, u % p2(t))) == u % p2(t),
{
    lemma_p2(t); lemma_p2(w);
    lemma_p2_mono(t, w);
    lemma_sval(w, u);
    vstd::arithmetic::div_mod::lemma_mod_bound(u as int, p2(t) as int);
    let k = p2((w - t) as nat) as int;
    if sval(w, u) != u {
        assert(u - p2(w) == u + (-k) * p2(t)) by (nonlinear_arith) requires p2(w) == p2(t) * k;
        lemma_trunc_shift(t, u as int, -k);
    }
    lemma_sval(t, u % p2(t));
}

/// congruent modulo 2^t and closer than 2^t: equal
pub proof fn lemma_trunc_eq_close(t: nat, x: int, y: int)
    requires trunc(t, x) == trunc(t, y), -p2(t) < x - y < p2(t)
    ensures x == y,
{
    lemma_trunc_range(t, x); lemma_trunc_range(t, y);
    let (qx, qy) = (x / (p2(t) as int), y / (p2(t) as int));
    let p = p2(t) as int;
    let r = trunc(t, x) as int;
    assert(x - y == (qx - qy) * p) by (nonlinear_arith)
        requires x == qx * p + r, y == qy * p + r;
    assert(qx == qy) by (nonlinear_arith)
        requires x - y == (qx - qy) * p, -p < x - y < p, p > 0;
}

/// trunc(t, a) == trunc(t, b)  ==>  trunc(t, a + k) == trunc(t, b + k)
pub proof fn lemma_trunc_eq_add(t: nat, a: int, b: int, k: int)
    requires trunc(t, a) == trunc(t, b)
    ensures trunc(t, a + k) == trunc(t, b + k),
{
    lemma_trunc_add(t, a, k); lemma_trunc_add(t, b, k);
}

pub open spec fn spec_subpiece_lower(i: Interval, t: nat) -> Interval {
    Interval { start: bv(t, i.start.u@ % p2(t)), end: bv(t, i.end.u@ % p2(t)), stride: i.stride }
}

pub proof fn lemma_interval_subpiece_lower(i: Interval, t: nat)
    requires i.inv(), 1 <= t < i.w()
    ensures ({
        let len = bv_sub(i.end, i.start);
        let r = spec_subpiece_lower(i, t);
        &&& len.wf() && len.u@ == i.end.s() - i.start.s()
        &&& p2(t) < p2(i.w()) && p2(0) == 1
        &&& r.start.wf() && r.end.wf()
        &&& (len.u@ <= p2(t) - 1 && r.start.s() <= r.end.s()) ==>
                r.inv() && forall|x: Bitvector| i.gamma(x) ==> #[trigger] r.gamma(pcode_subpiece(x, 0, t))
    }),
{
    let w = i.w();
    let len = bv_sub(i.end, i.start);
    let r = spec_subpiece_lower(i, t);
    lemma_binop_facts(i.end, i.start);
    lemma_p2_consts();
    lemma_p2(t);
    vstd::arithmetic::power2::lemma_pow2_strictly_increases(t, w);
    lemma_trunc_low(w, t, i.start.u@); lemma_trunc_low(w, t, i.end.u@);
    let (a, e) = (i.start.s(), i.end.s());
    let l = e - a;
    let (sl, el) = (r.start.s(), r.end.s());
    lemma_sval(t, r.start.u@); lemma_sval(t, r.end.u@);
    if len.u@ <= p2(t) - 1 && sl <= el {
        // el == sl + l
        lemma_trunc_eq_add(t, sl, a, l);
        lemma_trunc_eq_close(t, el, sl + l);
        assert(r.inv());
        assert forall|x: Bitvector| i.gamma(x) implies #[trigger] r.gamma(pcode_subpiece(x, 0, t)) by {
            let xl = pcode_subpiece(x, 0, t);
            assert(x.u@ / 1 == x.u@);
            assert(xl == bv(t, x.u@ % p2(t)));
            lemma_trunc_low(w, t, x.u@);
            lemma_sval(t, xl.u@);
            let k = x.s() - a;
            lemma_trunc_eq_add(t, sl, a, k);
            lemma_trunc_eq_close(t, xl.s(), sl + k);
        }
    }
}

// ---------------- subpiece ---------------------------------------------------------

/// SUBPIECE(low, t) = low-t-bits of SUBPIECE(low, w - low); SUBPIECE(0, w) is the identity
pub proof fn lemma_subpiece_compose(x: Bitvector, low: nat, t: nat)
    requires x.wf(), 1 <= t, low + t <= x.w@
    ensures low >= 1 ==> pcode_subpiece(pcode_subpiece(x, low, (x.w@ - low) as nat), 0, t) == pcode_subpiece(x, low, t),
            low == 0 && t == x.w@ ==> pcode_subpiece(x, 0, t) == x,
{
    lemma_p2_consts();
    if low >= 1 {
        lemma_shr_sval(x.w@, low, x.u@);
        let q = x.u@ / p2(low);
        assert(q / 1 == q);
    } else if t == x.w@ {
        assert(x.u@ / 1 == x.u@);
        vstd::arithmetic::div_mod::lemma_small_mod(x.u@, p2(t));
    }
}
