// ---------------------------------------------------------------------------
// lemmas/trivpass_sat.rs -- SATISFIABILITY WITNESS of the preconditions of unit `trivpass` (nothing here is trusted).
//   (d)  cfg_key_hyp() stays a hypothesis (vstd's uninterpreted obeys_key_model / obeys_cmp for Tid; opened in lemmas/cfgbuild_sat.rs).
//        It is the ONLY `requires` of the client below.
//   (a') verif_sat_trivpass BUILDS in exec code a program with one function "F" = [ block "A":
//            defs   D1: x := y ^ y          D2: z := Load [x + 0]          D3: Store [x | 0] := y
//            jumps  J1: CBranch { target "A", condition: b ^^ 1 }   J2: CallInd { target: x, return_: Some("A") }   J3: Return(y & y)
//                   J4: Branch("A")   J5: BranchInd(x) ]
//        (x, y, z: 4 bytes, b: 1 byte; every Def variant, every Jmp variant with an expression, rewrites that fire) inside an ARBITRARY
//        project (the opaque field types of Project have no constructor), PROVES tp_prog_wf for it and CALLS the real pass and the client:
//        Verus checks the real `requires` at the calls.
// ---------------------------------------------------------------------------

fn verif_sat_trivpass_tid(id: &str) -> (r: Tid)
    ensures r.id@ == id@,
{
    Tid { id: id.to_string(), address: "UNKNOWN".to_string() }
}
fn verif_sat_trivpass_var(name: &str, size: u64) -> (r: Variable)
    ensures r.size.0 == size, r.name@ == name@,
{
    Variable { name: name.to_string(), size: ByteSize(size), is_temp: false }
}
fn verif_sat_trivpass_bin(op: BinOpType, lhs: Expression, rhs: Expression) -> (r: Expression)
    ensures r == (Expression::BinOp { op, lhs: Box::new(lhs), rhs: Box::new(rhs) }),
{
    Expression::BinOp { op, lhs: Box::new(lhs), rhs: Box::new(rhs) }
}

pub fn verif_sat_trivpass(p: &mut Project)
    requires
        cfg_key_hyp(),
{
    proof { reveal_with_fuel(es_wf, 3); reveal_with_fuel(expr_bytes, 3); }
    let tf = verif_sat_trivpass_tid("F");
    let ta = verif_sat_trivpass_tid("A");
    let x = verif_sat_trivpass_var("x", 4);
    let y = verif_sat_trivpass_var("y", 4);
    let z = verif_sat_trivpass_var("z", 4);
    let b = verif_sat_trivpass_var("b", 1);
    let ex = Expression::Var(verif_sat_trivpass_var("x", 4));
    let ey = Expression::Var(y);
    let eb = Expression::Var(b);

    let mut defs: Vec<Term<Def>> = Vec::new();
    defs.push(Term { tid: verif_sat_trivpass_tid("D1"), term: Def::Assign { var: x, value: verif_sat_trivpass_bin(BinOpType::IntXOr, ey.clone(), ey.clone()) } });
    defs.push(Term { tid: verif_sat_trivpass_tid("D2"), term: Def::Load { var: z, address: verif_sat_trivpass_bin(BinOpType::IntAdd, ex.clone(), Expression::Const(Bitvector::from_u32(0))) } });
    defs.push(Term { tid: verif_sat_trivpass_tid("D3"), term: Def::Store { address: verif_sat_trivpass_bin(BinOpType::IntOr, ex.clone(), Expression::Const(Bitvector::from_u32(0))), value: ey.clone() } });
    let mut jmps: Vec<Term<Jmp>> = Vec::new();
    jmps.push(Term { tid: verif_sat_trivpass_tid("J1"), term: Jmp::CBranch { target: ta.clone(), condition: verif_sat_trivpass_bin(BinOpType::BoolXOr, eb, Expression::Const(Bitvector::from_u8(1))) } });
    jmps.push(Term { tid: verif_sat_trivpass_tid("J2"), term: Jmp::CallInd { target: ex.clone(), return_: Some(ta.clone()) } });
    jmps.push(Term { tid: verif_sat_trivpass_tid("J3"), term: Jmp::Return(verif_sat_trivpass_bin(BinOpType::IntAnd, ey.clone(), ey)) });
    jmps.push(Term { tid: verif_sat_trivpass_tid("J4"), term: Jmp::Branch(ta.clone()) });
    jmps.push(Term { tid: verif_sat_trivpass_tid("J5"), term: Jmp::BranchInd(ex) });
    let blk = Term { tid: ta.clone(), term: Blk { defs: defs, jmps: jmps, indirect_jmp_targets: Vec::new() } };
    let mut blocks: Vec<Term<Blk>> = Vec::new();
    blocks.push(blk);
    let sub_f = Term { tid: tf.clone(), term: Sub { name: "f".to_string(), blocks: blocks, calling_convention: None } };
    let mut subs: BTreeMap<Tid, Term<Sub>> = BTreeMap::new();
    subs.insert(tf.clone(), sub_f);
    p.program.term.subs = subs;

    proof {
        let s = p.program.term.subs@;
        assert(s.contains_key(tf));
        assert(s[tf].term.blocks@.len() == 1);
        let b0 = s[tf].term.blocks@[0];
        assert(b0.term.defs@.len() == 3 && b0.term.jmps@.len() == 5);
        assert(tp_def_wf(b0.term.defs@[0].term) && tp_def_wf(b0.term.defs@[1].term) && tp_def_wf(b0.term.defs@[2].term));
        assert(tp_jmp_wf(b0.term.jmps@[0].term) && tp_jmp_wf(b0.term.jmps@[1].term) && tp_jmp_wf(b0.term.jmps@[2].term)
            && tp_jmp_wf(b0.term.jmps@[3].term) && tp_jmp_wf(b0.term.jmps@[4].term));
        assert(tp_blk_wf(b0));
        assert(tp_sub_wf(s[tf]));
        assert forall |k: Tid| #[trigger] s.contains_key(k) implies tp_sub_wf(s[k]) by { assert(k == tf); }
        assert(tp_prog_wf(s));
    }
    let ghost verif_pre = p.program.term.subs@;
    p.substitute_trivial_expressions();
    proof {
        // the result is non-trivially constrained: the function is still there with one block, three defs, five jumps
        let s1 = p.program.term.subs@;
        assert(s1.contains_key(tf));
        assert(verif_pre.contains_key(tf));
        assert(tp_sub_rel(verif_pre[tf], s1[tf]));
        assert(s1[tf].term.blocks@.len() == 1 && s1[tf].term.blocks@[0].term.defs@.len() == 3 && s1[tf].term.blocks@[0].term.jmps@.len() == 5);
    }
    tp_client(p);
}
