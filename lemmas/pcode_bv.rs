// ---------------------------------------------------------------------------
// lemmas/pcode_bv.rs -- proved facts used by the C01 contracts (no assumptions).
// ---------------------------------------------------------------------------

pub proof fn lemma_bits_bound(w: nat, a: nat, b: nat)
    requires a < p2(w), b < p2(w)
    ensures bits_and(a, b) < p2(w), bits_or(a, b) < p2(w), bits_xor(a, b) < p2(w),
    decreases w
{
    lemma_p2(w);
    if w == 0 {
        lemma_p2_consts();
        reveal_with_fuel(bits_and, 2); reveal_with_fuel(bits_or, 2); reveal_with_fuel(bits_xor, 2);
    } else {
        lemma_bits_bound((w - 1) as nat, a / 2, b / 2);
    }
}

/// x = a * 2^k with b < 2^k: OR is addition (the bits do not overlap)
pub proof fn lemma_or_disjoint(a: nat, k: nat, b: nat)
    requires b < p2(k)
    ensures bits_or(a * p2(k), b) == a * p2(k) + b,
    decreases k
{
    lemma_p2(k);
    if k == 0 {
        lemma_p2_consts();
        lemma_or_zero(a);
        assert(a * p2(0) == a) by (nonlinear_arith) requires p2(0) == 1;
    } else {
        let h = p2((k - 1) as nat);
        assert(a * p2(k) == 2 * (a * h)) by (nonlinear_arith) requires p2(k) == 2 * h;
        lemma_or_disjoint(a, (k - 1) as nat, b / 2);
        if a * p2(k) == 0 && b == 0 {
        } else {
            assert((a * p2(k)) % 2 == 0);
            assert((a * p2(k)) / 2 == a * h);
        }
    }
}
pub proof fn lemma_or_zero(a: nat)
    ensures bits_or(a, 0) == a
    decreases a
{
    if a != 0 { lemma_or_zero(a / 2); }
}

pub open spec fn binop_facts(a: Bitvector, b: Bitvector) -> bool {
    let w = a.w@;
    &&& p2(w) == 2 * p2((w - 1) as nat) && p2(w) > 0
    &&& smin(w) <= a.s() <= smax(w)
    &&& (a.s() >= 0) == (a.u@ < p2((w - 1) as nat))
    &&& (a.u@ < p2((w - 1) as nat) ==> a.s() == a.u@) && (a.u@ >= p2((w - 1) as nat) ==> a.s() == a.u@ - p2(w))
}

/// everything `bin_op` needs to know about two equally wide operands
pub proof fn lemma_binop_facts(a: Bitvector, b: Bitvector)
    requires a.wf(), b.wf(), a.w@ == b.w@
    ensures binop_facts(a, b), binop_facts(b, a),
            binop_facts(bv_add(a, b), a), binop_facts(bv_sub(a, b), a),
            bv_add(a, b).wf(), bv_sub(a, b).wf(), bv_and(a, b).wf(), bv_or(a, b).wf(), bv_xor(a, b).wf(),
            bv_add(a, b).u@ == (if a.u@ + b.u@ < p2(a.w@) { (a.u@ + b.u@) as int } else { a.u@ + b.u@ - p2(a.w@) }),
            bv_sub(a, b).u@ == (if a.u@ >= b.u@ { a.u@ - b.u@ } else { a.u@ - b.u@ + p2(a.w@) }),
{
    let w = a.w@;
    lemma_sval(w, a.u@); lemma_sval(w, b.u@);
    lemma_trunc_add_case(w, a.u@, b.u@); lemma_trunc_sub_case(w, a.u@, b.u@);
    lemma_sval(w, bv_add(a, b).u@); lemma_sval(w, bv_sub(a, b).u@);
    lemma_bits_bound(w, a.u@, b.u@);
}

pub proof fn lemma_piece(a: Bitvector, b: Bitvector)
    requires a.wf(), b.wf(), a.w@ + b.w@ <= MAXW()
    ensures a.u@ * p2(b.w@) + b.u@ < p2(a.w@ + b.w@),
            a.u@ * p2(b.w@) < p2(a.w@ + b.w@),
            trunc(a.w@ + b.w@, (a.u@ * p2(b.w@)) as int) == a.u@ * p2(b.w@),
            bits_or(a.u@ * p2(b.w@), b.u@) == a.u@ * p2(b.w@) + b.u@,
            a.u@ < p2(a.w@ + b.w@), b.u@ < p2(a.w@ + b.w@),
{
    let (wa, wb) = (a.w@, b.w@);
    lemma_p2(wa); lemma_p2(wb);
    vstd::arithmetic::power2::lemma_pow2_adds(wa, wb);
    assert(a.u@ * p2(wb) + b.u@ < p2(wa) * p2(wb)) by (nonlinear_arith)
        requires a.u@ < p2(wa), b.u@ < p2(wb);
    lemma_trunc_id(wa + wb, (a.u@ * p2(wb)) as int);
    lemma_or_disjoint(a.u@, wb, b.u@);
    lemma_p2_mono(wa, wa + wb); lemma_p2_mono(wb, wa + wb);
}

pub proof fn lemma_minus_one(w: nat)
    requires 1 <= w
    ensures trunc(w, 0 - 1) == p2(w) - 1, p2(w) >= 2,
{
    lemma_p2(w); lemma_p2((w - 1) as nat);
    lemma_trunc_unique(w, -1, -1, p2(w) - 1);
}

/// values far below 2^64 survive truncation to any width >= 64 and the u64 round trip of resize
pub proof fn lemma_small_trunc(t: nat, x: nat)
    requires x <= MAXW()
    ensures t >= 64 ==> trunc(t, x as int) == x && x < p2(t),
            x < p2(64),
{
    lemma_p2_consts();
    if t >= 64 { lemma_p2_mono(64, t); lemma_trunc_id(t, x as int); }
}

pub proof fn lemma_count_bounds(w: nat, u: nat)
    requires u < p2(w)
    ensures popcount(u) <= w, bitlen(u) <= w,
    decreases w
{
    lemma_p2(w);
    if w == 0 {
        lemma_p2_consts();
    } else if u != 0 {
        lemma_count_bounds((w - 1) as nat, u / 2);
    }
}
