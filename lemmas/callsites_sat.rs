// ---------------------------------------------------------------------------
// lemmas/callsites_sat.rs -- SATISFIABILITY WITNESSES of the preconditions of unit `callsites` (nothing here is trusted).
//   The ONLY precondition of the unit is cs_key_hyp() (get_calls_to_symbols, find_symbol); CweWarning::{new, addresses, tids,
//   symbols, other} have none.
//   (d)  cs_key_hyp() = obeys_cmp::<Tid>() && obeys_key_model::<&Tid>().  The first conjunct is opened (eq half PROVED, rest =
//        "the uninterpreted cmp_spec of Tid is a strict total order whose Equal is ==") by lemma_sat_callgraph_build_key_hyp_open
//        of unit callgraph_build; lemma_sat_callsites_key_hyp_open restates the result for cs_key_hyp.  obeys_key_model::<&Tid>()
//        is vstd's uninterpreted predicate.  No trusted item of shim/callsites.rs mentions either (the four axiom_cs_*_ref_key
//        speak about vstd's uninterpreted contains_borrowed_key / maps_borrowed_key_to_value / set_contains_borrowed_key /
//        sets_borrowed_key_to_key at Key = &K, an instance vstd says nothing about).
//   (a') relative to (d): verif_sat_callsites_project BUILDS a program with two functions "a" (one block: a direct call to the
//        function "b", then a direct call to the extern symbol "e" named "ioctl") and "b" (no jump) and one extern symbol; only
//        the values of OPAQUE / unread types (RuntimeMemoryImage, Variable, DatatypeProperties) are parameters.
//        verif_sat_callsites_chain calls get_calls_to_symbols and find_symbol on it and checks that the postconditions are
//        not degenerate there (exactly ONE call is listed; find_symbol finds the symbol), then the CweWarning builders.
// ---------------------------------------------------------------------------

/// (d) opened for cs_key_hyp (see lemma_sat_callgraph_build_key_hyp_open for the ordering half)
pub proof fn lemma_sat_callsites_key_hyp_open()
    ensures
        vstd::laws_eq::obeys_eq::<Tid>(),
        cs_key_hyp() <==> {
            &&& <Tid as vstd::std_specs::cmp::PartialOrdSpec>::obeys_partial_cmp_spec()
            &&& <Tid as vstd::std_specs::cmp::OrdSpec>::obeys_cmp_spec()
            &&& forall |x: Tid, y: Tid| (x == y) <==> #[trigger] x.partial_cmp_spec(&y) == Some(core::cmp::Ordering::Equal)
            &&& forall |x: Tid, y: Tid| #[trigger] x.partial_cmp_spec(&y) == Some(x.cmp_spec(&y))
            &&& forall |x: Tid, y: Tid| #[trigger] x.partial_cmp_spec(&y) == Some(core::cmp::Ordering::Less)
                    <==> y.partial_cmp_spec(&x) == Some(core::cmp::Ordering::Greater)
            &&& forall |x: Tid, y: Tid, z: Tid| x.partial_cmp_spec(&y) == Some(core::cmp::Ordering::Less)
                    && #[trigger] y.partial_cmp_spec(&z) == Some(core::cmp::Ordering::Less)
                    ==> #[trigger] x.partial_cmp_spec(&z) == Some(core::cmp::Ordering::Less)
            &&& forall |x: Tid, y: Tid, z: Tid| x.partial_cmp_spec(&y) == Some(core::cmp::Ordering::Greater)
                    && #[trigger] y.partial_cmp_spec(&z) == Some(core::cmp::Ordering::Greater)
                    ==> #[trigger] x.partial_cmp_spec(&z) == Some(core::cmp::Ordering::Greater)
            &&& vstd::std_specs::hash::obeys_key_model::<&Tid>()
        },
{
    reveal(vstd::laws_cmp::obeys_cmp);
    reveal(vstd::laws_cmp::obeys_cmp_ord);
    reveal(vstd::laws_cmp::obeys_cmp_partial_ord);
    reveal(vstd::laws_cmp::obeys_partial_cmp_spec_properties);
    reveal(vstd::laws_eq::obeys_eq_spec_properties);
}

/// a Tid whose two strings have the given characters
pub fn verif_sat_callsites_tid(id: &str) -> (r: Tid)
    ensures r.id@ == id@, r.address@ == id@,
{
    Tid { id: id.to_owned(), address: id.to_owned() }
}

/// the tids "a", "b", "e" are pairwise different
pub proof fn lemma_sat_callsites_tids_differ(ta: Tid, tb: Tid, te: Tid)
    requires ta.id@ == "a"@, tb.id@ == "b"@, te.id@ == "e"@,
    ensures ta != tb, ta != te, tb != te,
{
    reveal_strlit("a"); reveal_strlit("b"); reveal_strlit("e");
    assert(ta.id@[0] == 'a' && tb.id@[0] == 'b' && te.id@[0] == 'e');
}

/// the spec-level description of the witness project
pub open spec fn cs_sat_project_is(p: Project, ta: Tid, tb: Tid, te: Tid) -> bool {
    let subs = p.program.term.subs@;
    let ext = p.program.term.extern_symbols@;
    &&& ta.id@ == "a"@ && tb.id@ == "b"@ && te.id@ == "e"@
    &&& subs.dom() =~= set![ta, tb]
    &&& subs[ta].tid == ta && subs[ta].term.blocks@.len() == 1 && subs[ta].term.blocks@[0].term.jmps@.len() == 2
    &&& subs[ta].term.blocks@[0].term.jmps@[0].term == (Jmp::Call { target: tb, return_: None })
    &&& subs[ta].term.blocks@[0].term.jmps@[1].term == (Jmp::Call { target: te, return_: None })
    &&& subs[tb].tid == tb && subs[tb].term.blocks@.len() == 1 && subs[tb].term.blocks@[0].term.jmps@.len() == 0
    &&& ext.dom() =~= set![te]
    &&& ext[te].tid == te && ext[te].name@ == "ioctl"@
}

/// (a') construction: a project whose program has two functions and one extern symbol (see the header)
pub fn verif_sat_callsites_project(rmi: RuntimeMemoryImage, sp: Variable, dp: DatatypeProperties) -> (r: (Project, Tid, Tid, Tid))
    requires cs_key_hyp(),
    ensures cs_sat_project_is(r.0, r.1, r.2, r.3),
{
    let ta = verif_sat_callsites_tid("a");
    let tb = verif_sat_callsites_tid("b");
    let te = verif_sat_callsites_tid("e");
    proof { lemma_sat_callsites_tids_differ(ta, tb, te); }
    let mut jmps_a: Vec<Term<Jmp>> = Vec::new();
    jmps_a.push(Term { tid: verif_sat_callsites_tid("c"), term: Jmp::Call { target: tb.clone(), return_: None } });
    jmps_a.push(Term { tid: verif_sat_callsites_tid("d"), term: Jmp::Call { target: te.clone(), return_: None } });
    let mut blocks_a: Vec<Term<Blk>> = Vec::new();
    blocks_a.push(Term { tid: verif_sat_callsites_tid("ba"), term: Blk { defs: Vec::new(), jmps: jmps_a, indirect_jmp_targets: Vec::new() } });
    let sub_a = Term { tid: ta.clone(), term: Sub { name: "fa".to_owned(), blocks: blocks_a, calling_convention: None } };
    let mut blocks_b: Vec<Term<Blk>> = Vec::new();
    blocks_b.push(Term { tid: verif_sat_callsites_tid("bb"), term: Blk { defs: Vec::new(), jmps: Vec::new(), indirect_jmp_targets: Vec::new() } });
    let sub_b = Term { tid: tb.clone(), term: Sub { name: "fb".to_owned(), blocks: blocks_b, calling_convention: None } };
    let mut subs: BTreeMap<Tid, Term<Sub>> = BTreeMap::new();
    subs.insert(ta.clone(), sub_a);
    subs.insert(tb.clone(), sub_b);
    let sym = ExternSymbol {
        tid: te.clone(), addresses: Vec::new(), name: "ioctl".to_owned(), calling_convention: None,
        parameters: Vec::new(), return_values: Vec::new(), no_return: false, has_var_args: true,
    };
    let mut ext: BTreeMap<Tid, ExternSymbol> = BTreeMap::new();
    ext.insert(te.clone(), sym);
    let program = Term {
        tid: verif_sat_callsites_tid("p"),
        term: Program { subs: subs, extern_symbols: ext, entry_points: BTreeSet::new(), address_base_offset: 0 },
    };
    let project = Project {
        program: program, cpu_architecture: "x".to_owned(), stack_pointer_register: sp, calling_conventions: BTreeMap::new(),
        register_set: BTreeSet::new(), datatype_properties: dp, runtime_memory_image: rmi,
    };
    (project, ta, tb, te)
}

/// (a') relative to (d): every contracted function of the unit is called on constructed arguments
pub fn verif_sat_callsites_chain(rmi: RuntimeMemoryImage, sp: Variable, dp: DatatypeProperties)
    requires cs_key_hyp(),
{
    broadcast use vstd::std_specs::hash::group_hash_axioms;
    let (project, ta, tb, te) = verif_sat_callsites_project(rmi, sp, dp);
    proof { lemma_sat_callsites_tids_differ(ta, tb, te); }
    let mut symbols: HashMap<&Tid, &str> = HashMap::new();
    symbols.insert(&te, "ioctl");
    let sub_a = project.program.term.subs.get(&ta).unwrap();
    // get_calls_to_symbols: cs_key_hyp()
    let calls = get_calls_to_symbols(sub_a, &symbols);
    proof {
        // not degenerate: of the two direct calls of "a" exactly the one to the symbol "e" is listed
        let p = cs_in_syms(symbols@);
        let jmps = sub_a.term.blocks@[0].term.jmps@;
        assert(p(te) && !p(tb));
        reveal_with_fuel(cs_jmps_hits, 3);
        reveal_with_fuel(cs_blks_hits, 2);
        assert(cs_jmp_hit(sub_a.term.name@, jmps[0], p).len() == 0);
        assert(cs_jmp_hit(sub_a.term.name@, jmps[1], p).len() == 1);
        assert(cs_sub_hits(*sub_a, p).len() == 1);
        assert(calls@.len() == 1);
    }
    // find_symbol: cs_key_hyp()
    let found = find_symbol(&project.program, "ioctl");
    proof {
        assert(project.program.term.extern_symbols@.contains_key(te));
        assert(cs_named(project.program.term.extern_symbols@, "ioctl"@));
        assert(found is Some);
    }
    // the CweWarning builders (no precondition)
    let w = CweWarning::new("n", "v", "d").addresses(Vec::new()).tids(Vec::new()).symbols(Vec::new()).other(Vec::new());
}
