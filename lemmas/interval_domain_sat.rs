// ---------------------------------------------------------------------------
// lemmas/interval_domain_sat.rs -- SATISFIABILITY WITNESSES of the preconditions of unit `interval_domain`
// (nothing here is trusted: no external_body / assume / admit / axiom).
//   witnesses: idsat_a8 / idsat_b8 (8 bit) and idsat_a64 / idsat_b64 (64 bit): strided intervals (stride 2, 4 / 4, 6)
//       with BOTH widening hints set and a non-zero delay; idsat_c8: a constant.  lemma_idsat_witnesses proves the facts
//       about them once; lemma_sat_interval_domain_inv: `inv()` holds for values with both hints and stride > 1 at 8 and 64 bit.
//   (b) one lemma `lemma_sat_interval_domain_<fn>` per contracted function: `exists |args| pre(args)` with the contract
//       text verbatim (`self` -> `s`, `old(self)` -> `s`, `*bound` stays).  Lines after "// shape:" are NOT contract text:
//       they pin the witness so that the GUARDED clauses are active (stride >= 2, hints Some, w > 32 and two non-zero
//       strides for the lcm clause of `intersect`, merge stride >= 2 for the span clause of the merges).
//   (a') verif_sat_interval_domain_chain: exec client WITHOUT requires that builds the same values (struct literals,
//       Bitvector::from_u8 / from_u64) and calls every function of the unit: Verus checks the REAL requires at each call.
//       (`merge_with` is @optional and absent from /repo: (b) only.)
//   nothing conditional, no (d) hypothesis in this unit.
// ---------------------------------------------------------------------------

pub open spec fn idsat_mk(w: nat, lo: nat, hi: nat, st: u64, hl: nat, hu: nat, delay: u64) -> IntervalDomain {
    IntervalDomain {
        interval: Interval { start: bv(w, lo), end: bv(w, hi), stride: st },
        widening_upper_bound: Some(bv(w, hu)),
        widening_lower_bound: Some(bv(w, hl)),
        widening_delay: delay,
    }
}
/// 8 bit: [0, 10] stride 2, hints -2 / 12, delay 3
pub open spec fn idsat_a8() -> IntervalDomain { idsat_mk(8, 0, 10, 2, 254, 12, 3) }
/// 8 bit: [4, 16] stride 4, hints 0 / 20, delay 1
pub open spec fn idsat_b8() -> IntervalDomain { idsat_mk(8, 4, 16, 4, 0, 20, 1) }
/// 64 bit: [0, 12] stride 4, hints -4 / 16, delay 3
pub open spec fn idsat_a64() -> IntervalDomain { idsat_mk(64, 0, 12, 4, 0xFFFF_FFFF_FFFF_FFFC, 16, 3) }
/// 64 bit: [0, 12] stride 6, hints -6 / 18, delay 1
pub open spec fn idsat_b64() -> IntervalDomain { idsat_mk(64, 0, 12, 6, 0xFFFF_FFFF_FFFF_FFFA, 18, 1) }
/// 8 bit constant 3 without hints
pub open spec fn idsat_c8() -> IntervalDomain {
    IntervalDomain { interval: Interval { start: bv(8, 3), end: bv(8, 3), stride: 0 }, widening_upper_bound: None, widening_lower_bound: None, widening_delay: 0 }
}

/// the facts about the witnesses that the per-function lemmas use
pub proof fn lemma_idsat_witnesses()
    ensures
        idsat_a8().inv(), idsat_b8().inv(), idsat_a64().inv(), idsat_b64().inv(), idsat_c8().inv(),
        idsat_a8().narrow(), idsat_b8().narrow(), idsat_a64().narrow(), idsat_b64().narrow(), idsat_c8().narrow(),
        idsat_a8().widening_lower_bound->Some_0.s() == -2, idsat_a64().widening_lower_bound->Some_0.s() == -4,
        idsat_b64().widening_lower_bound->Some_0.s() == -6,
        ii_lcm(4, 6) == 12,
        ia_merge_stride(idsat_a8().interval, idsat_b8().interval) == 2, merge_span(idsat_a8(), idsat_b8()) == 22,
        ia_merge_stride(idsat_a64().interval, idsat_b64().interval) == 2, merge_span(idsat_a64(), idsat_b64()) == 24,
{
    lemma_p2_consts();
    assert(spec_gcd(4, 6) == 2) by (compute_only);
    assert(ii_lcm(4, 6) == 12) by (compute_only);
    assert(spec_gcd(2, 4) == 2) by (compute_only);
    assert(spec_gcd(2, 0) == 2) by (compute_only);
}

/// `inv()` -- the invariant every contract of the unit rests on -- is satisfiable by values with BOTH widening bounds set and
/// a stride > 1, at width 8 and at width 64
pub proof fn lemma_sat_interval_domain_inv()
    ensures
        exists |d: IntervalDomain| #[trigger] d.inv() && d.w() == 8 && d.interval.stride > 1
            && d.widening_lower_bound is Some && d.widening_upper_bound is Some && d.narrow() && hints_outside(d),
        exists |d: IntervalDomain| #[trigger] d.inv() && d.w() == 64 && d.interval.stride > 1
            && d.widening_lower_bound is Some && d.widening_upper_bound is Some && d.narrow() && hints_outside(d),
{
    lemma_idsat_witnesses();
    assert(idsat_a8().inv() && hints_outside(idsat_a8()));
    assert(idsat_a64().inv() && hints_outside(idsat_a64()));
}

pub proof fn lemma_sat_interval_domain_bytesize()
    ensures exists |s: IntervalDomain| #[trigger] s.interval.start.wf(),
{
    lemma_idsat_witnesses();
    assert(idsat_a8().interval.start.wf());
}

pub proof fn lemma_sat_interval_domain_new_top()
    ensures
        exists |bytesize: ByteSize| 1 <= #[trigger] bytesize.0 <= MAXBYTES(),
        // shape: the largest size is admitted too
        exists |bytesize: ByteSize| 1 <= #[trigger] bytesize.0 <= MAXBYTES() && bytesize.0 == MAXBYTES(),
{
    assert(1 <= ByteSize(1).0 <= MAXBYTES());
    assert(1 <= ByteSize(0x200_0000).0 <= MAXBYTES());
}

/// top, is_top, try_to_bitvec, try_to_interval: `requires self.inv()`  (without_widening_hints has NO precondition since finding M1 was repaired)
pub proof fn lemma_sat_interval_domain_top()
    ensures exists |s: IntervalDomain| #[trigger] s.inv(),
{
    lemma_idsat_witnesses();
    assert(idsat_a8().inv());
}

pub proof fn lemma_sat_interval_domain_new()
    ensures
        exists |start: Bitvector, end: Bitvector| #![trigger start.wf(), end.wf()]
            start.wf() && end.wf() && start.w@ == end.w@ && start.s() <= end.s() && byte_w(start.w@) && start.w@ <= 64,
        // shape: a 64 bit interval with a negative start
        exists |start: Bitvector, end: Bitvector| #![trigger start.wf(), end.wf()]
            start.wf() && end.wf() && start.w@ == end.w@ && start.s() <= end.s() && byte_w(start.w@) && start.w@ <= 64
            && start.w@ == 64 && start.s() < 0 < end.s(),
{
    lemma_p2_consts();
    assert(bv(8, 0).wf() && bv(8, 10).wf());
    assert(bv(64, 0xFFFF_FFFF_FFFF_FFFC).wf() && bv(64, 16).wf() && bv(64, 0xFFFF_FFFF_FFFF_FFFC).s() == -4);
}

/// round_up_to_stride_of / round_down_to_stride_of (`self` is a Bitvector): same precondition
pub proof fn lemma_sat_interval_domain_round_to_stride_of()
    ensures
        exists |s: Bitvector, interval: Interval| #![trigger s.wf(), interval.inv()]
            s.wf() && interval.inv() && interval.w() == s.w@ && byte_w(s.w@)
            // shape: a value off the stride of a strided interval, 8 and 64 bit
            && s.w@ == 8 && interval.stride == 2 && !on_stride(interval.stride, s.s() - interval.start.s()),
        exists |s: Bitvector, interval: Interval| #![trigger s.wf(), interval.inv()]
            s.wf() && interval.inv() && interval.w() == s.w@ && byte_w(s.w@)
            && s.w@ == 64 && interval.stride == 4 && !on_stride(interval.stride, s.s() - interval.start.s()),
{
    lemma_idsat_witnesses();
    lemma_p2_consts();
    assert(bv(8, 3).wf() && idsat_a8().interval.inv());
    assert(bv(64, 3).wf() && idsat_a64().interval.inv());
}

/// update_widening_lower_bound / update_widening_upper_bound: same precondition
pub proof fn lemma_sat_interval_domain_update_widening_bound()
    ensures
        exists |s: IntervalDomain, bound: &Option<Bitvector>| #![trigger s.inv(), hint_ok(*bound, s.w())]
            s.inv() && hint_ok(*bound, s.w())
            // shape: a hint is given, the domain has hints already and a stride
            && *bound is Some && s.interval.stride >= 2 && s.widening_lower_bound is Some && s.widening_upper_bound is Some,
        exists |s: IntervalDomain, bound: &Option<Bitvector>| #![trigger s.inv(), hint_ok(*bound, s.w())]
            s.inv() && hint_ok(*bound, s.w()) && *bound is None,
{
    lemma_idsat_witnesses();
    lemma_p2_consts();
    let b: Option<Bitvector> = Some(bv(8, 250));
    assert(idsat_a8().inv() && hint_ok(*&b, idsat_a8().w()));
    let n: Option<Bitvector> = None;
    assert(idsat_a8().inv() && hint_ok(*&n, idsat_a8().w()));
}

/// add_signed_less_equal_bound, add_signed_greater_equal_bound, add_unsigned_less_equal_bound,
/// add_unsigned_greater_equal_bound, add_not_equal_bound: same precondition
pub proof fn lemma_sat_interval_domain_add_bound()
    ensures
        exists |s: IntervalDomain, bound: &Bitvector| #![trigger s.inv(), bound.wf()]
            s.inv() && s.narrow() && bound.wf() && bound.w@ == s.w() && s.w() <= 64
            // shape: the guard of narrow() is active (stride >= 2), bound strictly inside, 8 bit / 64 bit
            && s.w() == 8 && s.interval.stride >= 2 && s.interval.start.s() < bound.s() < s.interval.end.s(),
        exists |s: IntervalDomain, bound: &Bitvector| #![trigger s.inv(), bound.wf()]
            s.inv() && s.narrow() && bound.wf() && bound.w@ == s.w() && s.w() <= 64
            && s.w() == 64 && s.interval.stride >= 2 && s.interval.start.s() < bound.s() < s.interval.end.s(),
{
    lemma_idsat_witnesses();
    lemma_p2_consts();
    let b8 = bv(8, 5);
    assert(idsat_a8().inv() && (&b8).wf());
    let b64 = bv(64, 5);
    assert(idsat_a64().inv() && (&b64).wf());
}

pub proof fn lemma_sat_interval_domain_intersect()
    ensures
        exists |s: IntervalDomain, other: &IntervalDomain| #![trigger s.inv(), other.inv()]
            s.inv() && other.inv() && s.w() == other.w() && s.w() <= 64
            && (s.w() <= 32 || ii_lcm(s.interval.stride as int, other.interval.stride as int) <= u64::MAX)
            // shape: 8 bit, first disjunct
            && s.w() == 8,
        exists |s: IntervalDomain, other: &IntervalDomain| #![trigger s.inv(), other.inv()]
            s.inv() && other.inv() && s.w() == other.w() && s.w() <= 64
            && (s.w() <= 32 || ii_lcm(s.interval.stride as int, other.interval.stride as int) <= u64::MAX)
            // shape: 64 bit and two non-zero strides: the lcm clause is the active disjunct (lcm(4, 6) = 12)
            && s.w() == 64 && s.interval.stride > 0 && other.interval.stride > 0
            && ii_lcm(s.interval.stride as int, other.interval.stride as int) == 12,
{
    lemma_idsat_witnesses();
    let (b8, b64) = (idsat_b8(), idsat_b64());
    assert(idsat_a8().inv() && (&b8).inv());
    assert(idsat_a64().inv() && (&b64).inv());
}

pub proof fn lemma_sat_interval_domain_signed_merge()
    ensures
        exists |s: &IntervalDomain, other: &IntervalDomain| #![trigger s.inv(), other.inv()]
            s.inv() && other.inv() && s.w() == other.w(),
{
    lemma_idsat_witnesses();
    let (a8, b8) = (idsat_a8(), idsat_b8());
    assert((&a8).inv() && (&b8).inv());
}

/// signed_merge_and_widen, merge, merge_with (`old(self)` -> `s`): same precondition
pub proof fn lemma_sat_interval_domain_merge()
    ensures
        exists |s: &IntervalDomain, other: &IntervalDomain| #![trigger s.inv(), other.inv()]
            s.inv() && other.inv() && s.w() == other.w() && s.w() <= 64
            && (ia_merge_stride(s.interval, other.interval) >= 2 ==> merge_span(*s, *other) <= i64::MAX)
            && s.widening_delay <= i64::MAX && other.widening_delay <= i64::MAX
            // shape: the guard of the span clause is active, all four hints take part in the span, non-zero delays; 8 bit
            && s.w() == 8 && ia_merge_stride(s.interval, other.interval) >= 2
            && s.widening_lower_bound is Some && s.widening_upper_bound is Some
            && other.widening_lower_bound is Some && other.widening_upper_bound is Some
            && s.widening_delay > 0 && other.widening_delay > 0,
        exists |s: &IntervalDomain, other: &IntervalDomain| #![trigger s.inv(), other.inv()]
            s.inv() && other.inv() && s.w() == other.w() && s.w() <= 64
            && (ia_merge_stride(s.interval, other.interval) >= 2 ==> merge_span(*s, *other) <= i64::MAX)
            && s.widening_delay <= i64::MAX && other.widening_delay <= i64::MAX
            // shape: the same at 64 bit (the only width at which the span clause can fail)
            && s.w() == 64 && ia_merge_stride(s.interval, other.interval) >= 2
            && s.widening_lower_bound is Some && s.widening_upper_bound is Some
            && other.widening_lower_bound is Some && other.widening_upper_bound is Some
            && s.widening_delay > 0 && other.widening_delay > 0,
{
    lemma_idsat_witnesses();
    let (a8, b8, a64, b64) = (idsat_a8(), idsat_b8(), idsat_a64(), idsat_b64());
    assert((&a8).inv() && (&b8).inv());
    assert((&a64).inv() && (&b64).inv());
}

// ---- (a') the same values built in exec code; every function of the unit is called, Verus checks the real `requires` ----

pub fn verif_sat_interval_domain_mk8(lo: u8, hi: u8, st: u64, hl: u8, hu: u8, delay: u64) -> (r: IntervalDomain)
    ensures r == idsat_mk(8, lo as nat, hi as nat, st, hl as nat, hu as nat, delay),
{
    IntervalDomain {
        interval: Interval { start: Bitvector::from_u8(lo), end: Bitvector::from_u8(hi), stride: st },
        widening_upper_bound: Some(Bitvector::from_u8(hu)),
        widening_lower_bound: Some(Bitvector::from_u8(hl)),
        widening_delay: delay,
    }
}
pub fn verif_sat_interval_domain_mk64(lo: u64, hi: u64, st: u64, hl: u64, hu: u64, delay: u64) -> (r: IntervalDomain)
    ensures r == idsat_mk(64, lo as nat, hi as nat, st, hl as nat, hu as nat, delay),
{
    IntervalDomain {
        interval: Interval { start: Bitvector::from_u64(lo), end: Bitvector::from_u64(hi), stride: st },
        widening_upper_bound: Some(Bitvector::from_u64(hu)),
        widening_lower_bound: Some(Bitvector::from_u64(hl)),
        widening_delay: delay,
    }
}

#[verifier::exec_allows_no_decreases_clause]
pub fn verif_sat_interval_domain_chain()
{
    proof { lemma_idsat_witnesses(); lemma_p2_consts(); }
    let a8 = verif_sat_interval_domain_mk8(0, 10, 2, 254, 12, 3);
    let b8 = verif_sat_interval_domain_mk8(4, 16, 4, 0, 20, 1);
    let a64 = verif_sat_interval_domain_mk64(0, 12, 4, 0xFFFF_FFFF_FFFF_FFFC, 16, 3);
    let b64 = verif_sat_interval_domain_mk64(0, 12, 6, 0xFFFF_FFFF_FFFF_FFFA, 18, 1);
    assert(a8 == idsat_a8() && b8 == idsat_b8() && a64 == idsat_a64() && b64 == idsat_b64());
    // bytesize / new_top / top / is_top / new / try_to_bitvec / try_to_interval
    let _ = a8.bytesize();
    let _ = IntervalDomain::new_top(ByteSize(1));
    let _ = IntervalDomain::new_top(ByteSize(8));
    let _ = a8.top();
    let _ = a64.is_top();
    let _ = IntervalDomain::new(Bitvector::from_u8(0), Bitvector::from_u8(10));
    let _ = IntervalDomain::new(Bitvector::from_u64(0xFFFF_FFFF_FFFF_FFFC), Bitvector::from_u64(16));
    let _ = a8.try_to_bitvec();
    let _ = a64.try_to_interval();
    // stride rounding of a value off the stride
    let _ = Bitvector::from_u8(3).round_up_to_stride_of(&a8.interval);
    let _ = Bitvector::from_u64(3).round_down_to_stride_of(&a64.interval);
    // widening hints
    let mut m8 = a8.clone();
    m8.update_widening_lower_bound(&Some(Bitvector::from_u8(250)));
    m8.update_widening_upper_bound(&Some(Bitvector::from_u8(15)));
    m8.update_widening_upper_bound(&None);
    // conditional refinement: narrow() with stride >= 2, 8 and 64 bit
    let _ = a8.clone().add_signed_less_equal_bound(&Bitvector::from_u8(5));
    let _ = a64.clone().add_signed_greater_equal_bound(&Bitvector::from_u64(5));
    let _ = a8.clone().add_unsigned_less_equal_bound(&Bitvector::from_u8(5));
    let _ = a64.clone().add_unsigned_greater_equal_bound(&Bitvector::from_u64(5));
    let _ = a64.clone().add_not_equal_bound(&Bitvector::from_u64(4));
    // intersect: w <= 32 disjunct, then the lcm disjunct (64 bit, strides 4 and 6)
    let _ = a8.clone().intersect(&b8);
    let _ = a64.clone().intersect(&b64);
    let _ = a8.clone().without_widening_hints();
    // merges: merge stride 2, so the span clause is active
    let _ = a8.signed_merge(&b8);
    let _ = a8.signed_merge_and_widen(&b8);
    let _ = a64.signed_merge_and_widen(&b64);
    let _ = a8.merge(&b8);
    let _ = a64.merge(&b64);
}
