// ---------------------------------------------------------------------------
// lemmas/instantiate_data_domain_sat.rs -- SATISFIABILITY WITNESSES of the preconditions of units `data_domain` (imported here) and
// `instantiate_data_domain` (nothing here is trusted).
//   (c)  dd_merge_hyp / dd_refine_hyp / dd_hints_hyp / dd_intersect_hyp are PROVED by the unit's own lemmas at T = InstDdToy
//        (lemma_inst_dd_toy_hyps, all four) and at T = IntervalDomain (lemma_inst_dd_{merge,refine,intersect,hints}_hyp: ALL FOUR since
//        finding M1 of the unit was repaired in unit interval_domain).  Added: InstDdSatH, a toy with a NON-TRIVIAL gamma (singletons) and a
//        without_widening_hints that is not the identity, with lemma_sat_instantiate_data_domain_h_hyps proving all four.
//   (a') exec clients whose ONLY `requires` is dd_id_ok() (= vstd's uninterpreted obeys_cmp::<AbstractIdentifier>(), form (d)) and that take
//        two values of the OPAQUE type AbstractIdentifier as parameters (external_body, no constructor: "some identifier exists" is outside
//        the logic).  They build NON-EMPTY DataDomains (targets + absolute value) and call EVERY contracted function of unit data_domain
//        (merge, the five add_*_bound, without_widening_hints, intersect_relative_values, intersect; merge_with is @optional and absent from
//        the build: its precondition text is asserted on the same values) at T = InstDdToy, T = InstDdSatH and T = IntervalDomain
//        (8-bit values: the constant 5 and the interval [0, 10]), the 12 witnesses inst_iv_*_w, the restated trait methods at the three
//        instances, and the unit's clients verif_inst_data_*.  Verus checks the REAL `requires` at every call.
//   Since the repairs of M1 / M3 in unit interval_domain ALSO witnessed at T = IntervalDomain: without_widening_hints and the mixed
//   targets/absolute case of intersect (both optional merges executed), at 8-bit values; for 5..8-byte values the merge_span side
//   condition on the intermediate values of intersect stays a side condition (no witness above 32 bit for that case).
// ---------------------------------------------------------------------------

// =====================================================================================================================
// (c) a second toy: singletons with a hint flag.  gamma is not `true`, merge has a real precondition, unhint changes the value.
// =====================================================================================================================
#[derive(Clone, Copy)]
pub struct InstDdSatH { pub v: u8, pub hint: bool }
impl PartialEq for InstDdSatH {
    fn eq(&self, other: &InstDdSatH) -> (r: bool) { self.v == other.v && self.hint == other.hint }
}
impl PartialEqSpecImpl for InstDdSatH {
    open spec fn obeys_eq_spec() -> bool { true }
    open spec fn eq_spec(&self, other: &InstDdSatH) -> bool { *self == *other }
}
impl Eq for InstDdSatH {}
impl AbstractDomain for InstDdSatH {
    open spec fn merge_pre_spec(&self, other: &InstDdSatH) -> bool { self.v == other.v }
    open spec fn merge_spec(&self, other: &InstDdSatH) -> InstDdSatH { *self }
    open spec fn is_top_spec(&self) -> bool { false }
    fn merge(&self, other: &InstDdSatH) -> (r: InstDdSatH) { *self }
    fn is_top(&self) -> (r: bool) { false }
}
impl SizedDomain for InstDdSatH {
    open spec fn bytesize_spec(&self) -> nat { 1 }
    open spec fn new_top_spec(bytesize: ByteSize) -> InstDdSatH { InstDdSatH { v: 0, hint: false } }
    fn bytesize(&self) -> (r: ByteSize) { ByteSize(1) }
    fn new_top(bytesize: ByteSize) -> (r: InstDdSatH) { InstDdSatH { v: 0, hint: false } }
}
impl HasTop for InstDdSatH {
    open spec fn top_spec(&self) -> InstDdSatH { *self }
    fn top(&self) -> (r: InstDdSatH) { *self }
}
impl RegisterDomain for InstDdSatH {
    open spec fn gamma_spec(&self, x: Bitvector) -> bool { x == bv(8, self.v as nat) }
}
impl SpecializeByConditional for InstDdSatH {
    open spec fn refine_pre_spec(&self, bound: Bitvector) -> bool { bound.w@ == 8 }
    open spec fn add_signed_less_equal_bound_spec(self, bound: Bitvector) -> Option<InstDdSatH> { Some(self) }
    open spec fn add_unsigned_less_equal_bound_spec(self, bound: Bitvector) -> Option<InstDdSatH> { Some(self) }
    open spec fn add_signed_greater_equal_bound_spec(self, bound: Bitvector) -> Option<InstDdSatH> { Some(self) }
    open spec fn add_unsigned_greater_equal_bound_spec(self, bound: Bitvector) -> Option<InstDdSatH> { Some(self) }
    open spec fn add_not_equal_bound_spec(self, bound: Bitvector) -> Option<InstDdSatH> { Some(self) }
    open spec fn without_widening_hints_spec(self) -> InstDdSatH { InstDdSatH { v: self.v, hint: false } }
    open spec fn intersect_pre_spec(self, other: &InstDdSatH) -> bool { self.hint == other.hint }
    open spec fn intersect_spec(self, other: &InstDdSatH) -> Option<InstDdSatH> { if self.v == other.v { Some(self) } else { None } }
    fn add_signed_less_equal_bound(self, bound: &Bitvector) -> (r: Result<InstDdSatH, Error>) { Ok(self) }
    fn add_unsigned_less_equal_bound(self, bound: &Bitvector) -> (r: Result<InstDdSatH, Error>) { Ok(self) }
    fn add_signed_greater_equal_bound(self, bound: &Bitvector) -> (r: Result<InstDdSatH, Error>) { Ok(self) }
    fn add_unsigned_greater_equal_bound(self, bound: &Bitvector) -> (r: Result<InstDdSatH, Error>) { Ok(self) }
    fn add_not_equal_bound(self, bound: &Bitvector) -> (r: Result<InstDdSatH, Error>) { Ok(self) }
    fn intersect(self, other: &InstDdSatH) -> (r: Result<InstDdSatH, Error>) { if self.v == other.v { Ok(self) } else { Err(verif_error()) } }
    fn without_widening_hints(self) -> (r: InstDdSatH) { InstDdSatH { v: self.v, hint: false } }
}

/// (c) all four named hypotheses of unit data_domain + the closure hypothesis of intersect_relative_values at T = InstDdSatH
pub proof fn lemma_sat_instantiate_data_domain_h_hyps()
    ensures
        dd_merge_hyp::<InstDdSatH>(), dd_refine_hyp::<InstDdSatH>(), dd_hints_hyp::<InstDdSatH>(), dd_intersect_hyp::<InstDdSatH>(),
        forall |a: InstDdSatH, b: InstDdSatH| #[trigger] call_ensures(InstDdSatH::clone, (&a,), b) ==> a == b,
        // the instance is not degenerate: a value represents 5 and not 6, and removing the hint changes the value
        (InstDdSatH { v: 5, hint: true }).gamma_spec(bv(8, 5)) && !(InstDdSatH { v: 5, hint: true }).gamma_spec(bv(8, 6)),
        (InstDdSatH { v: 5, hint: true }).without_widening_hints_spec() != (InstDdSatH { v: 5, hint: true }),
{
    assert forall |cmp: DdCmp, a: InstDdSatH, bound: Bitvector| #![trigger dd_refined(cmp, a, bound)] dd_refined(cmp, a, bound) == Some(a) by { }
    assert forall |a: InstDdSatH, b: InstDdSatH| #![trigger a.intersect_spec(&b)] a.intersect_pre_spec(&b) implies
        match a.intersect_spec(&b) {
            Some(r) => forall |v: Bitvector| #![trigger r.gamma_spec(v)] a.gamma_spec(v) && b.gamma_spec(v) ==> r.gamma_spec(v),
            None => forall |v: Bitvector| #![trigger a.gamma_spec(v)] #![trigger b.gamma_spec(v)] !(a.gamma_spec(v) && b.gamma_spec(v)),
        } by { }
    assert(bv(8, 5) != bv(8, 6)) by { assert(bv(8, 5).u@ == 5 && bv(8, 6).u@ == 6); }
}

// =====================================================================================================================
// (a') unit data_domain at T = InstDdToy
// =====================================================================================================================
/// a = { targets {id1: toy}, absolute toy, no Top }   b = { targets {id1: toy, id2: toy}, absolute toy, no Top }
pub fn verif_sat_instantiate_data_domain_toy_pair(id1: &AbstractIdentifier, id2: &AbstractIdentifier) -> (r: (DataDomain<InstDdToy>, DataDomain<InstDdToy>))
    requires dd_id_ok(),
    ensures
        r.0.relative_values@ == Map::<AbstractIdentifier, InstDdToy>::empty().insert(*id1, InstDdToy { size: 1 }),
        r.1.relative_values@ == Map::<AbstractIdentifier, InstDdToy>::empty().insert(*id1, InstDdToy { size: 1 }).insert(*id2, InstDdToy { size: 1 }),
        r.0.absolute_value == Some(InstDdToy { size: 1 }), r.1.absolute_value == Some(InstDdToy { size: 1 }),
        !r.0.contains_top_values, !r.1.contains_top_values, r.0.size == ByteSize(1), r.1.size == ByteSize(1),
{
    let t = InstDdToy { size: 1 };
    let mut ma: std::collections::BTreeMap<AbstractIdentifier, InstDdToy> = std::collections::BTreeMap::new();
    ma.insert(id1.clone(), t);
    let mut mb: std::collections::BTreeMap<AbstractIdentifier, InstDdToy> = std::collections::BTreeMap::new();
    mb.insert(id1.clone(), t);
    mb.insert(id2.clone(), t);
    (DataDomain { size: ByteSize(1), relative_values: ma, absolute_value: Some(t), contains_top_values: false },
     DataDomain { size: ByteSize(1), relative_values: mb, absolute_value: Some(t), contains_top_values: false })
}

/// every contracted function of unit data_domain at T = InstDdToy on non-empty values; relative to (d) dd_id_ok
pub fn verif_sat_instantiate_data_domain_toy(id1: AbstractIdentifier, id2: AbstractIdentifier)
    requires dd_id_ok(),
{
    proof { lemma_inst_dd_toy_hyps(); }
    let bound = Bitvector::from_u8(5);
    let (a, b) = verif_sat_instantiate_data_domain_toy_pair(&id1, &id2);
    proof { assert(a.relative_values@.contains_key(id1) && b.relative_values@.contains_key(id1) && b.relative_values@.contains_key(id2)); }
    // merge: dd_id_ok(), dd_merge_hyp::<T>(), self.merge_pre(other)
    let m = a.merge(&b);
    proof {
        assert(m.relative_values@.contains_key(id1) && m.relative_values@.contains_key(id2) && m.absolute_value is Some);
        // merge_with (@optional, no such function in /repo, hence not in the build): its precondition, verbatim, `old(self)` := a
        assert(dd_id_ok() && dd_merge_hyp::<InstDdToy>() && a.merge_pre(&b));
    }
    // the five add_*_bound: dd_refine_hyp::<T>(), self.absolute_value is Some ==> self.absolute_value->Some_0.refine_pre_spec(*bound)
    let r1 = a.clone().add_signed_less_equal_bound(&bound);
    let r2 = a.clone().add_unsigned_less_equal_bound(&bound);
    let r3 = a.clone().add_signed_greater_equal_bound(&bound);
    let r4 = a.clone().add_unsigned_greater_equal_bound(&bound);
    let r5 = a.clone().add_not_equal_bound(&bound);
    // without_widening_hints: dd_id_ok(), dd_hints_hyp::<T>()
    let u = b.clone().without_widening_hints();
    proof { assert(u.relative_values@.contains_key(id2)); }
    // intersect_relative_values: dd_id_ok(), clone is the identity, intersect_pre_spec on the offsets of every common target
    let i = intersect_relative_values(&a.relative_values, &b.relative_values);
    proof { assert(dd_intersect_keeps(a.relative_values@, b.relative_values@, id1)); assert(i@.contains_key(id1)); }
    // intersect: dd_id_ok(), dd_merge_hyp, dd_intersect_hyp, dd_isect_pre (targets AND absolute parts on both sides: both optional merges run)
    let x = a.intersect(&b);
    // the restated trait methods with a precondition, at the instance
    let t = InstDdToy { size: 1 };
    let _ = <InstDdToy as AbstractDomain>::merge(&t, &t);
    let _ = <InstDdToy as SpecializeByConditional>::add_signed_less_equal_bound(t, &bound);
    let _ = <InstDdToy as SpecializeByConditional>::add_unsigned_less_equal_bound(t, &bound);
    let _ = <InstDdToy as SpecializeByConditional>::add_signed_greater_equal_bound(t, &bound);
    let _ = <InstDdToy as SpecializeByConditional>::add_unsigned_greater_equal_bound(t, &bound);
    let _ = <InstDdToy as SpecializeByConditional>::add_not_equal_bound(t, &bound);
    let _ = <InstDdToy as SpecializeByConditional>::intersect(t, &t);
}

// =====================================================================================================================
// (a') unit data_domain at T = InstDdSatH (non-trivial gamma, real merge / refine / intersect preconditions)
// =====================================================================================================================
/// a = { targets {id1: 5 hinted}, absolute 7 hinted }   b = { targets {id1: 5 hinted, id2: 5 hinted}, absolute 7 hinted }
pub fn verif_sat_instantiate_data_domain_h_pair(id1: &AbstractIdentifier, id2: &AbstractIdentifier) -> (r: (DataDomain<InstDdSatH>, DataDomain<InstDdSatH>))
    requires dd_id_ok(),
    ensures
        r.0.relative_values@ == Map::<AbstractIdentifier, InstDdSatH>::empty().insert(*id1, InstDdSatH { v: 5, hint: true }),
        r.1.relative_values@ == Map::<AbstractIdentifier, InstDdSatH>::empty().insert(*id1, InstDdSatH { v: 5, hint: true }).insert(*id2, InstDdSatH { v: 5, hint: true }),
        r.0.absolute_value == Some(InstDdSatH { v: 7, hint: true }), r.1.absolute_value == Some(InstDdSatH { v: 7, hint: true }),
        !r.0.contains_top_values, !r.1.contains_top_values, r.0.size == ByteSize(1), r.1.size == ByteSize(1),
{
    let t = InstDdSatH { v: 5, hint: true };
    let s = InstDdSatH { v: 7, hint: true };
    let mut ma: std::collections::BTreeMap<AbstractIdentifier, InstDdSatH> = std::collections::BTreeMap::new();
    ma.insert(id1.clone(), t);
    let mut mb: std::collections::BTreeMap<AbstractIdentifier, InstDdSatH> = std::collections::BTreeMap::new();
    mb.insert(id1.clone(), t);
    mb.insert(id2.clone(), t);
    (DataDomain { size: ByteSize(1), relative_values: ma, absolute_value: Some(s), contains_top_values: false },
     DataDomain { size: ByteSize(1), relative_values: mb, absolute_value: Some(s), contains_top_values: false })
}

/// every contracted function of unit data_domain at T = InstDdSatH; relative to (d) dd_id_ok
pub fn verif_sat_instantiate_data_domain_h(id1: AbstractIdentifier, id2: AbstractIdentifier)
    requires dd_id_ok(),
{
    proof { lemma_sat_instantiate_data_domain_h_hyps(); }
    let bound = Bitvector::from_u8(5);
    let (a, b) = verif_sat_instantiate_data_domain_h_pair(&id1, &id2);
    proof { assert(a.relative_values@.contains_key(id1) && b.relative_values@.contains_key(id1) && b.relative_values@.contains_key(id2)); }
    let m = a.merge(&b);
    proof {
        // the result represents the pointer id1 + 5, the absolute value 7, and not the absolute value 5
        assert(m.gamma(DdConcrete::Rel(id1, bv(8, 5))));
        assert(m.gamma(DdConcrete::Abs(bv(8, 7))));
        assert(bv(8, 5).u@ == 5 && bv(8, 7).u@ == 7);
        assert(!m.gamma(DdConcrete::Abs(bv(8, 5))));
        assert(dd_id_ok() && dd_merge_hyp::<InstDdSatH>() && a.merge_pre(&b));
    }
    let r1 = a.clone().add_signed_less_equal_bound(&bound);
    let r2 = a.clone().add_unsigned_less_equal_bound(&bound);
    let r3 = a.clone().add_signed_greater_equal_bound(&bound);
    let r4 = a.clone().add_unsigned_greater_equal_bound(&bound);
    let r5 = a.clone().add_not_equal_bound(&bound);
    let u = b.clone().without_widening_hints();
    proof { assert(u.relative_values@.contains_key(id2) && u.relative_values@[id2] == InstDdSatH { v: 5, hint: false }); }
    let i = intersect_relative_values(&a.relative_values, &b.relative_values);
    proof { assert(dd_intersect_keeps(a.relative_values@, b.relative_values@, id1)); assert(i@.contains_key(id1)); }
    let x = a.intersect(&b);
}

// =====================================================================================================================
// (a') T = IntervalDomain: 8-bit values, the constant 5 and the interval [0, 10]
// =====================================================================================================================
/// single: the constant 5 (stride 0); otherwise [0, 10] with stride 1; no widening hints, delay 0
pub fn verif_sat_instantiate_data_domain_iv(single: bool) -> (r: IntervalDomain)
    ensures
        r.inv(), r.narrow(), r.w() == 8, r.widening_delay == 0, r.widening_lower_bound is None, r.widening_upper_bound is None,
        r.interval.start == bv(8, if single { 5nat } else { 0nat }), r.interval.end == bv(8, if single { 5nat } else { 10nat }),
        r.interval.stride == (if single { 0u64 } else { 1u64 }),
        r.gamma(bv(8, 5)), !r.gamma(bv(8, 11)),
{
    proof { lemma_p2_consts(); }
    let r = if single {
        IntervalDomain { interval: Interval { start: Bitvector::from_u8(5), end: Bitvector::from_u8(5), stride: 0 },
                         widening_upper_bound: None, widening_lower_bound: None, widening_delay: 0 }
    } else {
        IntervalDomain { interval: Interval { start: Bitvector::from_u8(0), end: Bitvector::from_u8(10), stride: 1 },
                         widening_upper_bound: None, widening_lower_bound: None, widening_delay: 0 }
    };
    proof {
        assert(bv(8, 5).s() == 5 && bv(8, 0).s() == 0 && bv(8, 10).s() == 10 && bv(8, 11).s() == 11);
        assert(bv(8, 5).wf() && bv(8, 11).wf());
        assert(r.interval.inv());
    }
    r
}

/// the 12 witnesses inst_iv_*_w (requires pre ensures post) and the restated trait methods at T = IntervalDomain: pre holds at concrete values
pub fn verif_sat_instantiate_data_domain_iv_w()
{
    let bound = Bitvector::from_u8(5);
    let c5 = verif_sat_instantiate_data_domain_iv(true);
    let i10 = verif_sat_instantiate_data_domain_iv(false);
    proof { lemma_inst_iv_merge_pre_small(i10, c5); lemma_inst_iv_merge_pre_small(c5, i10); }
    let m = inst_iv_merge_w(&i10, &c5);
    let _ = inst_iv_is_top_w(&i10);
    let _ = inst_iv_bytesize_w(&i10);
    let _ = inst_iv_new_top_w(ByteSize(1));
    let _ = inst_iv_top_w(&c5);
    let r1 = inst_iv_sle_w(verif_sat_instantiate_data_domain_iv(false), &bound);
    let r2 = inst_iv_ule_w(verif_sat_instantiate_data_domain_iv(false), &bound);
    let r3 = inst_iv_sge_w(verif_sat_instantiate_data_domain_iv(false), &bound);
    let r4 = inst_iv_uge_w(verif_sat_instantiate_data_domain_iv(false), &bound);
    let r5 = inst_iv_ne_w(verif_sat_instantiate_data_domain_iv(false), &bound);
    let x = inst_iv_intersect_w(verif_sat_instantiate_data_domain_iv(false), &c5);
    let u = inst_iv_unhint_w(verif_sat_instantiate_data_domain_iv(false));
    proof {
        // the posts say something at these values: 5 stays a member
        assert(m.gamma(bv(8, 5)));
        assert(dd_cmp_holds(DdCmp::SLe, bv(8, 5), bound));
        assert(r1 is Ok && r1->Ok_0.gamma(bv(8, 5)));
        assert(x is Ok);
    }
    // restated traits of unit data_domain at the instance (merge_pre_spec / refine_pre_spec / intersect_pre_spec := the pre above)
    let _ = <IntervalDomain as AbstractDomain>::merge(&c5, &i10);
    let _ = <IntervalDomain as SpecializeByConditional>::add_signed_less_equal_bound(verif_sat_instantiate_data_domain_iv(false), &bound);
    let _ = <IntervalDomain as SpecializeByConditional>::add_unsigned_less_equal_bound(verif_sat_instantiate_data_domain_iv(false), &bound);
    let _ = <IntervalDomain as SpecializeByConditional>::add_signed_greater_equal_bound(verif_sat_instantiate_data_domain_iv(false), &bound);
    let _ = <IntervalDomain as SpecializeByConditional>::add_unsigned_greater_equal_bound(verif_sat_instantiate_data_domain_iv(false), &bound);
    let _ = <IntervalDomain as SpecializeByConditional>::add_not_equal_bound(verif_sat_instantiate_data_domain_iv(false), &bound);
    let _ = <IntervalDomain as SpecializeByConditional>::intersect(verif_sat_instantiate_data_domain_iv(true), &i10);
}

/// a = { targets {id1: [0,10]}, absolute: 5 if with_abs }   b = { targets {id1: 5, id2: [0,10]}, absolute [0,10] }
pub fn verif_sat_instantiate_data_domain_iv_pair(id1: &AbstractIdentifier, id2: &AbstractIdentifier, with_abs: bool) -> (r: (DataDomain<IntervalDomain>, DataDomain<IntervalDomain>))
    requires dd_id_ok(),
    ensures
        inst_data_merge_pre_small(r.0, r.1, 8),
        r.0.relative_values@.dom() == Set::<AbstractIdentifier>::empty().insert(*id1),
        r.1.relative_values@.dom() == Set::<AbstractIdentifier>::empty().insert(*id1).insert(*id2),
        r.0.absolute_value is Some == with_abs, r.1.absolute_value is Some,
        with_abs ==> r.0.absolute_value->Some_0.narrow() && r.0.absolute_value->Some_0.gamma(bv(8, 5)),
        r.1.absolute_value->Some_0.gamma(bv(8, 5)),
        !r.0.contains_top_values, !r.1.contains_top_values, r.0.size == ByteSize(1), r.1.size == ByteSize(1),
{
    let mut ma: std::collections::BTreeMap<AbstractIdentifier, IntervalDomain> = std::collections::BTreeMap::new();
    ma.insert(id1.clone(), verif_sat_instantiate_data_domain_iv(false));
    let mut mb: std::collections::BTreeMap<AbstractIdentifier, IntervalDomain> = std::collections::BTreeMap::new();
    mb.insert(id1.clone(), verif_sat_instantiate_data_domain_iv(true));
    mb.insert(id2.clone(), verif_sat_instantiate_data_domain_iv(false));
    let abs = if with_abs { Some(verif_sat_instantiate_data_domain_iv(true)) } else { None };
    let a = DataDomain { size: ByteSize(1), relative_values: ma, absolute_value: abs, contains_top_values: false };
    let b = DataDomain { size: ByteSize(1), relative_values: mb, absolute_value: Some(verif_sat_instantiate_data_domain_iv(false)), contains_top_values: false };
    proof {
        assert(a.relative_values@.dom() =~= Set::<AbstractIdentifier>::empty().insert(*id1));
        assert(b.relative_values@.dom() =~= Set::<AbstractIdentifier>::empty().insert(*id1).insert(*id2));
    }
    (a, b)
}

/// the contracted functions of unit data_domain at T = IntervalDomain (ALL of them) and the unit's clients
/// verif_inst_data_*; relative to (d) dd_id_ok
pub fn verif_sat_instantiate_data_domain_iv_dd(id1: AbstractIdentifier, id2: AbstractIdentifier)
    requires dd_id_ok(),
{
    proof { lemma_inst_dd_merge_hyp(); lemma_inst_dd_refine_hyp(); lemma_inst_dd_intersect_hyp(); lemma_inst_iv_clone(); }
    let bound = Bitvector::from_u8(5);
    let (a, b) = verif_sat_instantiate_data_domain_iv_pair(&id1, &id2, true);
    proof {
        assert(a.relative_values@.contains_key(id1) && b.relative_values@.contains_key(id1) && b.relative_values@.contains_key(id2));
        assert forall |id: AbstractIdentifier| #![trigger a.relative_values@.contains_key(id)] #![trigger b.relative_values@.contains_key(id)]
            a.relative_values@.contains_key(id) && b.relative_values@.contains_key(id)
            implies inst_iv_merge_pre(a.relative_values@[id], b.relative_values@[id]) && inst_iv_intersect_pre(a.relative_values@[id], b.relative_values@[id]) by {
            lemma_inst_iv_merge_pre_small(a.relative_values@[id], b.relative_values@[id]);
        }
        lemma_inst_iv_merge_pre_small(a.absolute_value->Some_0, b.absolute_value->Some_0);
    }
    // merge + its clients
    let m = a.merge(&b);
    proof {
        assert(m.relative_values@.contains_key(id2));
        assert(a.gamma(DdConcrete::Abs(bv(8, 5))) && m.gamma(DdConcrete::Abs(bv(8, 5))));
        assert(dd_id_ok() && dd_merge_hyp::<IntervalDomain>() && a.merge_pre(&b));
    }
    let _ = verif_inst_data_merge(&a, &b);
    let _ = verif_inst_data_merge_small(&a, &b, Ghost(8));
    // the five add_*_bound + their clients (the absolute part 5 has stride 0: narrow)
    let r1 = a.clone().add_signed_less_equal_bound(&bound);
    let r2 = a.clone().add_unsigned_less_equal_bound(&bound);
    let r3 = a.clone().add_signed_greater_equal_bound(&bound);
    let r4 = a.clone().add_unsigned_greater_equal_bound(&bound);
    let r5 = a.clone().add_not_equal_bound(&bound);
    let _ = verif_inst_data_sle(a.clone(), &bound);
    let _ = verif_inst_data_ule(a.clone(), &bound);
    let _ = verif_inst_data_sge(a.clone(), &bound);
    let _ = verif_inst_data_uge(a.clone(), &bound);
    let _ = verif_inst_data_ne(a.clone(), &bound);
    // intersect_relative_values on two non-empty target maps
    let i = intersect_relative_values(&a.relative_values, &b.relative_values);
    // intersect + client: targets on both sides, an absolute part on ONE side only (no T::merge of an intersection result: M3)
    let (a0, b0) = verif_sat_instantiate_data_domain_iv_pair(&id1, &id2, false);
    proof {
        assert forall |id: AbstractIdentifier| #![trigger a0.relative_values@.contains_key(id)] #![trigger b0.relative_values@.contains_key(id)]
            a0.relative_values@.contains_key(id) && b0.relative_values@.contains_key(id)
            implies inst_iv_intersect_pre(a0.relative_values@[id], b0.relative_values@[id]) by { }
        assert(dd_isect_core_abs(a0.contains_top_values, a0.absolute_value, b0.contains_top_values, b0.absolute_value) is None);
    }
    let x = a0.clone().intersect(&b0);
    let _ = verif_inst_data_intersect(a0, &b0);
    // ... and two purely absolute values (the constant 5 against [0, 10]) for the `_abs` client
    let p: DataDomain<IntervalDomain> = DataDomain { size: ByteSize(1), relative_values: std::collections::BTreeMap::new(),
        absolute_value: Some(verif_sat_instantiate_data_domain_iv(true)), contains_top_values: false };
    let q: DataDomain<IntervalDomain> = DataDomain { size: ByteSize(1), relative_values: std::collections::BTreeMap::new(),
        absolute_value: Some(verif_sat_instantiate_data_domain_iv(false)), contains_top_values: false };
    proof { assert(p.relative_values@.len() == 0 && q.relative_values@.len() == 0); }
    let _ = verif_inst_data_intersect_abs(p, &q);
    // THE MIXED CASE (findings M1 / M3 repaired): a and b both have targets AND an absolute part, so `intersect` performs BOTH optional
    // merges (of the intersected absolute part with b's, then of that merge with a's): dd_isect_pre incl. conjuncts 3 / 4 holds at these values
    proof {
        lemma_inst_dd_hints_hyp();
        lemma_inst_dd_isect_pre_small(a, b, 8);
        lemma_dd_len0(a.relative_values@); lemma_dd_len0(b.relative_values@);
        assert(a.relative_values@.len() != 0 && b.relative_values@.len() != 0 && a.absolute_value is Some && b.absolute_value is Some);
    }
    let y = a.clone().intersect(&b);
    let _ = verif_inst_data_intersect_small(a.clone(), &b, Ghost(8));
    // without_widening_hints at T = IntervalDomain + its client
    let h = a.clone().without_widening_hints();
    let _ = verif_inst_data_unhint(a.clone());
}
