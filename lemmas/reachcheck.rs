// ---------------------------------------------------------------------------
// lemmas/reachcheck.rs -- proof-only lemmas of unit `reachcheck` (all proved by Verus, none trusted).
// Part 1: paths of unblocked intraprocedural steps (reflexivity, extension at the end, prefixes).
// Part 2: a set that contains the start node and is closed under such steps contains everything reachable;
//         the search invariant with an empty worklist excludes every hit.
// Part 3: glue for the loop body (broadcast): a step extends reachability, targets are nodes of the graph, the measure.
// ---------------------------------------------------------------------------

// ---- Part 1 -----------------------------------------------------------------------------------------------------------

pub proof fn lemma_rc_reach_refl<'a, N>(g: DiGraph<N, Edge<'a>>, check: Tid, a: NodeIndex)
    ensures rc_reach(g, check, a, a),
{
    assert(rc_path(g, check, Seq::<int>::empty(), a, a));
}

/// a path from a to src(e), then the step e
pub proof fn lemma_rc_reach_snoc<'a, N>(g: DiGraph<N, Edge<'a>>, check: Tid, a: NodeIndex, e: int)
    requires rc_step(g, check, e), rc_reach(g, check, a, cg_src(g, e)),
    ensures rc_reach(g, check, a, cg_tgt(g, e)),
{
    let p = choose |p: Seq<int>| rc_path(g, check, p, a, cg_src(g, e));
    let q = p.push(e);
    assert forall |k: int| 0 <= k < q.len() implies rc_step(g, check, #[trigger] q[k]) by {
        if k < p.len() { assert(q[k] == p[k]); }
    }
    assert forall |i: int, j: int| 0 <= i && j == i + 1 && j < q.len() implies cg_tgt(g, #[trigger] q[i]) == cg_src(g, #[trigger] q[j]) by {
        assert(q[i] == p[i]);
        if j < p.len() { assert(q[j] == p[j]); }
    }
    if p.len() > 0 { assert(q[0] == p[0]); }
    assert(rc_path(g, check, q, a, cg_tgt(g, e)));
}

/// a path without its last step is a path to the source of that step
pub proof fn lemma_rc_path_prefix<'a, N>(g: DiGraph<N, Edge<'a>>, check: Tid, p: Seq<int>, a: NodeIndex, b: NodeIndex)
    requires rc_path(g, check, p, a, b), p.len() > 0,
    ensures rc_path(g, check, p.drop_last(), a, cg_src(g, p[p.len() - 1])),
{
    let k = p.len() - 1;
    let r = p.drop_last();
    assert forall |i: int| 0 <= i < r.len() implies rc_step(g, check, #[trigger] r[i]) by { assert(r[i] == p[i]); }
    assert forall |i: int, j: int| 0 <= i && j == i + 1 && j < r.len() implies cg_tgt(g, #[trigger] r[i]) == cg_src(g, #[trigger] r[j]) by {
        assert(r[i] == p[i] && r[j] == p[j]);
    }
    if k > 0 {
        assert(r[0] == p[0]);
        assert(r[k - 1] == p[k - 1]);
        assert(cg_tgt(g, p[k - 1]) == cg_src(g, p[k]));
    }
}

// ---- Part 2 -----------------------------------------------------------------------------------------------------------

/// `vis` is closed under unblocked intraprocedural steps
pub open spec fn rc_step_closed<'a, N>(g: DiGraph<N, Edge<'a>>, check: Tid, vis: Set<NodeIndex>) -> bool {
    forall |e: int| rc_step(g, check, e) && vis.contains(#[trigger] cg_src(g, e)) ==> vis.contains(cg_tgt(g, e))
}

/// induction on the length of the path, peeling off the LAST step
pub proof fn lemma_rc_closed_path<'a, N>(g: DiGraph<N, Edge<'a>>, check: Tid, start: NodeIndex, vis: Set<NodeIndex>, p: Seq<int>, b: NodeIndex)
    requires vis.contains(start), rc_step_closed(g, check, vis), rc_path(g, check, p, start, b),
    ensures vis.contains(b),
    decreases p.len(),
{
    if p.len() > 0 {
        let k = p.len() - 1;
        lemma_rc_path_prefix(g, check, p, start, b);
        lemma_rc_closed_path(g, check, start, vis, p.drop_last(), cg_src(g, p[k]));
        assert(rc_step(g, check, p[k]));
        assert(cg_tgt(g, p[k]) == b);
    }
}

/// The search invariant with an EMPTY worklist: the visited set is closed and contains the start node, so it contains
/// every reachable node; no edge leaving a visited node calls `use_`; hence there is no hit.
pub proof fn lemma_rc_exit<'a, N>(g: DiGraph<N, Edge<'a>>, start: NodeIndex, check: Tid, use_: Tid, vis: Set<NodeIndex>, work: Seq<NodeIndex>)
    requires
        rc_sound(g, start, check, vis, work),
        rc_closed(g, check, use_, vis, work, None),
        work.len() == 0,
    ensures
        forall |e: int| !rc_sink_hit(g, start, check, use_, e),
        rc_answer_ok(g, start, check, use_, None),
{
    assert forall |x: NodeIndex| #[trigger] vis.contains(x) implies rc_expanded(vis, work, None, x) by {
        assert(!work.contains(x));
    }
    assert(rc_step_closed(g, check, vis)) by {
        assert forall |e: int| rc_step(g, check, e) && vis.contains(#[trigger] cg_src(g, e)) implies vis.contains(cg_tgt(g, e)) by {
            assert(rc_expanded(vis, work, None, cg_src(g, e)));
        }
    }
    assert forall |e: int| !rc_sink_hit(g, start, check, use_, e) by {
        if rc_sink_hit(g, start, check, use_, e) {
            let p = choose |p: Seq<int>| rc_path(g, check, p, start, cg_src(g, e));
            lemma_rc_closed_path(g, check, start, vis, p, cg_src(g, e));
            assert(rc_expanded(vis, work, None, cg_src(g, e)));
            assert(false);
        }
    }
}

// ---- Part 3 -----------------------------------------------------------------------------------------------------------

/// one more step from a reachable node (broadcast form of lemma_rc_reach_snoc, phrased over an edge reference)
pub broadcast proof fn lemma_rc_ref_step<'a, N>(g: DiGraph<N, Edge<'a>>, check: Tid, a: NodeIndex, x: RcEdgeReference<'a, Edge<'a>>)
    requires
        rc_ref_of(g, x),
        #[trigger] rc_reach(g, check, a, x.src),
        #[trigger] rc_step(g, check, x.e.i as int),
    ensures
        rc_reach(g, check, a, x.tgt),
{
    lemma_rc_reach_snoc(g, check, a, x.e.i as int);
}

/// the target of an edge is a node of the graph, i.e. one of the nodes the termination measure counts
pub broadcast proof fn lemma_rc_ref_in_universe<'a, N, E>(g: DiGraph<N, E>, root: NodeIndex, x: RcEdgeReference<'a, E>)
    requires #[trigger] rc_ref_of(g, x),
    ensures #[trigger] cg_universe(g, root).contains(x.tgt),
{
    axiom_cg_digraph_bounds(g);
    assert(g.edge_seq()[x.e.i as int].1.i < g.node_count_spec());
    lemma_cg_nodes_contains(g.node_count_spec(), x.tgt);
}

/// visiting a new node of the universe makes the measure smaller (broadcast form of lemma_cg_unvisited_decreases)
pub broadcast proof fn lemma_rc_unvisited_insert<N, E>(g: DiGraph<N, E>, root: NodeIndex, vis: Set<NodeIndex>, x: NodeIndex)
    requires cg_universe(g, root).contains(x), !vis.contains(x),
    ensures #[trigger] cg_unvisited(g, root, vis.insert(x)) < cg_unvisited(g, root, vis),
{
    lemma_cg_unvisited_decreases(g, root, vis, x);
}

/// broadcast form of lemma_rc_exit: fires where the postcondition for the answer `None` is wanted
pub broadcast proof fn lemma_rc_exit_none<'a, N>(g: DiGraph<N, Edge<'a>>, start: NodeIndex, check: Tid, use_: Tid, vis: Set<NodeIndex>, work: Seq<NodeIndex>)
    requires
        #[trigger] rc_sound(g, start, check, vis, work),
        rc_closed(g, check, use_, vis, work, None),
        work.len() == 0,
    ensures
        #[trigger] rc_answer_ok(g, start, check, use_, None),
{
    lemma_rc_exit(g, start, check, use_, vis, work);
}
