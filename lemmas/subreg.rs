// ---------------------------------------------------------------------------
// lemmas/subreg.rs -- proved facts of unit `subreg` (no assumptions).
// ---------------------------------------------------------------------------

// ---- arithmetic of byte ranges ----------------------------------------------------------------------------------------

/// taking bits [l, l+s) of the low B bits of u is taking bits [l, l+s) of u, when the range lies below B
pub proof fn lemma_sr_sub_of_low(u: nat, bb: nat, l: nat, s: nat)
    requires l + s <= bb
    ensures ((u % p2(bb)) / p2(l)) % p2(s) == (u / p2(l)) % p2(s),
{
    lemma_p2(bb); lemma_p2(l); lemma_p2(s);
    let r = u % p2(bb);
    let q = u / p2(bb);
    let d = (bb - l - s) as nat;
    lemma_p2(d);
    lemma_p2_mono(l, bb);
    lemma_p2_mono(s, (bb - l) as nat);
    let pl = p2(l) as int; let ps = p2(s) as int; let pd = p2(d) as int; let pb = p2(bb) as int;
    assert(p2((bb - l) as nat) == p2(s) * p2(d));
    assert(pb == pl * (ps * pd));
    vstd::arithmetic::div_mod::lemma_fundamental_div_mod(u as int, pb);
    assert(u as int == pb * (q as int) + r as int);
    // u = pl * (ps * pd * q) + r   ==>   u / pl = ps * pd * q + r / pl
    let k = ps * pd * (q as int);
    assert(u as int == pl * k + r as int) by (nonlinear_arith)
        requires u as int == pb * (q as int) + r as int, pb == pl * (ps * pd), k == ps * pd * (q as int);
    vstd::arithmetic::div_mod::lemma_fundamental_div_mod(r as int, pl);
    let rq = (r as int) / pl; let rr = (r as int) % pl;
    assert(u as int == pl * (k + rq) + rr) by (nonlinear_arith)
        requires u as int == pl * k + r as int, r as int == pl * rq + rr;
    vstd::arithmetic::div_mod::lemma_mod_bound(r as int, pl);
    vstd::arithmetic::div_mod::lemma_fundamental_div_mod_converse(u as int, pl, k + rq, rr);
    assert((u as int) / pl == k + rq);
    // (k + rq) % ps == rq % ps  since k is a multiple of ps
    let m = pd * (q as int);
    assert(k + rq == ps * m + rq) by (nonlinear_arith) requires k == ps * pd * (q as int), m == pd * (q as int);
    vstd::arithmetic::div_mod::lemma_mod_multiples_vanish(m, rq, ps);
    assert((ps * m + rq) % ps == rq % ps);
}

/// a value below 2^(l+s) has nothing above bit l+s
pub proof fn lemma_sr_div_small(u: nat, n: nat)
    requires u < p2(n)
    ensures u / p2(n) == 0, u % p2(n) == u,
{
    lemma_p2(n);
    vstd::arithmetic::div_mod::lemma_small_mod(u, p2(n));
    vstd::arithmetic::div_mod::lemma_basic_div(u as int, p2(n) as int);
}

pub proof fn lemma_sr_div_one(x: nat)
    ensures x / p2(0) == x,
{
    lemma_p2_consts();
    let d = p2(0);
    assert(x / d == x) by (nonlinear_arith) requires d == 1;
}

/// the quotient of a value below 2^b by 2^k is below 2^(b-k)
pub proof fn lemma_sr_div_bound(u: nat, bb: nat, k: nat)
    requires u < p2(bb), k <= bb
    ensures u / p2(k) < p2((bb - k) as nat),
{
    lemma_p2(k); lemma_p2((bb - k) as nat);
    lemma_p2_mono(k, bb);
    let pk = p2(k) as int; let pd = p2((bb - k) as nat) as int;
    vstd::arithmetic::div_mod::lemma_fundamental_div_mod(u as int, pk);
    vstd::arithmetic::div_mod::lemma_mod_bound(u as int, pk);
    let q = (u as int) / pk;
    if q >= pd {
        assert(pk * q >= pk * pd) by (nonlinear_arith) requires q >= pd, pk > 0;
        assert(false);
    }
}

/// u = (u / 2^k) * 2^k + u % 2^k,  2^(a+b) = 2^a * 2^b
pub proof fn lemma_sr_split(u: nat, k: nat)
    ensures u == (u / p2(k)) * p2(k) + u % p2(k), u % p2(k) < p2(k),
{
    lemma_p2(k);
    vstd::arithmetic::div_mod::lemma_fundamental_div_mod(u as int, p2(k) as int);
    vstd::arithmetic::div_mod::lemma_mod_bound(u as int, p2(k) as int);
    assert(p2(k) * (u / p2(k)) == (u / p2(k)) * p2(k)) by (nonlinear_arith);
}

// ---- the leaves --------------------------------------------------------------------------------------------------------

/// bytes [lsb, lsb + size) of the base register: the SUBPIECE expression over the base register, read plainly, is the aliasing
/// reading of the sub-register
pub proof fn lemma_sr_sub_expr_sound(t: SrTable, env: SrEnv, v: Variable)
    requires sr_table_ok(t), t.contains_key(&v.name), sr_var_fits(t, v),
    ensures sr_eval(t, env, false, sr_sub_expr(t, v)) == sr_read(t, env, true, v),
{
    let base = sr_base(t, v.name);
    let bv_ = sr_base_var(t, v.name);
    assert(t.contains_key(&base));
    let bb = (8 * (*t[&base]).size.0) as nat;
    let l = (8 * sr_lsb(t, v.name)) as nat;
    let s = (8 * v.size.0) as nat;
    let u = env(base).u@;
    reveal_with_fuel(sr_eval, 3);
    lemma_sr_sub_of_low(u, bb, l, s);
    lemma_p2_consts();
    assert(u / p2(0) == u);
    assert(sr_eval(t, env, false, Expression::Var(bv_)) == pcode_subpiece(env(base), 0, bb));
}

pub proof fn lemma_sr_is_subpiece_of(t: SrTable, base: String, lsb: ByteSize, size: ByteSize)
    ensures sr_is_subpiece_of(t, base, lsb, size,
        Expression::Subpiece { low_byte: lsb, size: size, arg: Box::new(Expression::Var(Variable { name: base, size: (*t[&base]).size, is_temp: false })) }),
{
    let base_var = Variable { name: base, size: (*t[&base]).size, is_temp: false };
    let r = Expression::Subpiece { low_byte: lsb, size: size, arg: Box::new(Expression::Var(base_var)) };
    reveal_with_fuel(sr_eval, 3);
    reveal_with_fuel(sr_occurs, 3);
    reveal_with_fuel(expr_bytes, 3);
    if lsb.0 + size.0 <= (*t[&base]).size.0 <= MAXBYTES() {
        assert forall |env: SrEnv| #[trigger] sr_eval(t, env, false, r) == pcode_subpiece(env(base), (8 * lsb.0) as nat, (8 * size.0) as nat) by {
            let u = env(base).u@;
            lemma_sr_sub_of_low(u, (8 * (*t[&base]).size.0) as nat, (8 * lsb.0) as nat, (8 * size.0) as nat);
            lemma_sr_div_one(u);
        }
    }
}

/// a variable that needs no replacement reads the same in both readings
pub proof fn lemma_sr_read_same(t: SrTable, env: SrEnv, v: Variable)
    requires sr_table_ok(t), !sr_needs(t, v),
    ensures sr_read(t, env, false, v) == sr_read(t, env, true, v),
{
    if t.contains_key(&v.name) {
        assert(sr_base(t, v.name) == v.name);
        assert(t.contains_key(&sr_base(t, v.name)));
    }
}

pub proof fn lemma_sr_base_var_plain(t: SrTable, n: String)
    requires sr_table_ok(t), t.contains_key(&n),
    ensures sr_plain_var(t, sr_base_var(t, n)), !sr_needs(t, sr_base_var(t, n)), t.contains_key(&sr_base_var(t, n).name),
            1 <= sr_base_var(t, n).size.0 <= MAXBYTES(),
{
    assert(t.contains_key(&sr_base(t, n)));
}

pub broadcast proof fn lemma_sr_listed_add(a: Seq<&Variable>, b: Seq<&Variable>, v: Variable)
    ensures (sr_listed(a, v) || sr_listed(b, v)) ==> #[trigger] sr_listed(a + b, v),
{
    if sr_listed(a, v) {
        let i = choose |i: int| 0 <= i < a.len() && 0 <= i && *(#[trigger] a[i]) == v;
        assert((a + b)[i] == a[i]);
    } else if sr_listed(b, v) {
        let i = choose |i: int| 0 <= i < b.len() && 0 <= i && *(#[trigger] b[i]) == v;
        assert((a + b)[a.len() + i] == b[i]);
    }
}
pub broadcast proof fn lemma_sr_listed_first(s: Seq<&Variable>, v: Variable)
    ensures s.len() > 0 && *s[0] == v ==> #[trigger] sr_listed(s, v),
{
}

// ---- sequential replacement of the inputs == simultaneous replacement -------------------------------------------------------

pub proof fn lemma_sr_done_step(pairs: Seq<(Variable, Expression)>, k: int, v: Variable)
    requires 0 <= k < pairs.len()
    ensures sr_done(pairs, k + 1, v) <==> (sr_done(pairs, k, v) || pairs[k].0 == v),
{
    if sr_done(pairs, k, v) {
        let j = choose |j: int| 0 <= j < k && j < pairs.len() && (#[trigger] pairs[j]).0 == v;
        assert(0 <= j < k + 1 && pairs[j].0 == v);
    }
    if pairs[k].0 == v { assert(0 <= k < k + 1 && pairs[k].0 == v); }
    if sr_done(pairs, k + 1, v) {
        let j = choose |j: int| 0 <= j < k + 1 && j < pairs.len() && (#[trigger] pairs[j]).0 == v;
        if j < k { assert(0 <= j < k && pairs[j].0 == v); }
    }
}

pub broadcast proof fn lemma_sr_done_push(pairs: Seq<(Variable, Expression)>, p: (Variable, Expression), n: int, v: Variable)
    ensures n == pairs.len() + 1 && (sr_done(pairs, n - 1, v) || p.0 == v) ==> #[trigger] sr_done(pairs.push(p), n, v),
{
    if n == pairs.len() + 1 {
        if sr_done(pairs, n - 1, v) {
            let j = choose |j: int| 0 <= j < n - 1 && j < pairs.len() && (#[trigger] pairs[j]).0 == v;
            assert(pairs.push(p)[j] == pairs[j]);
        } else if p.0 == v {
            assert(pairs.push(p)[n - 1] == p);
        }
    }
}

/// one more call of substitute_input_var (broadcast form for the loop of replace_input_subregister)
pub broadcast proof fn lemma_sr_subst_step_b(t: SrTable, e: Expression, pairs: Seq<(Variable, Expression)>, k: int, x: Variable, r: Expression)
    ensures sr_table_ok(t) && sr_pairs_ok(t, pairs) && 0 <= k < pairs.len() && x == pairs[k].0 && r == pairs[k].1
        ==> #[trigger] sr_subst1(sr_subst_part(t, e, pairs, k), x, r) == sr_subst_part(t, e, pairs, k + 1),
{
    if sr_table_ok(t) && sr_pairs_ok(t, pairs) && 0 <= k < pairs.len() && x == pairs[k].0 && r == pairs[k].1 {
        lemma_sr_subst_step(t, e, pairs, k);
    }
}

/// one more call of substitute_input_var
pub proof fn lemma_sr_subst_step(t: SrTable, e: Expression, pairs: Seq<(Variable, Expression)>, k: int)
    requires sr_table_ok(t), sr_pairs_ok(t, pairs), 0 <= k < pairs.len(),
    ensures sr_subst1(sr_subst_part(t, e, pairs, k), pairs[k].0, pairs[k].1) == sr_subst_part(t, e, pairs, k + 1),
    decreases e
{
    let x = pairs[k].0;
    let r = pairs[k].1;
    match e {
        Expression::Var(v) => {
            lemma_sr_done_step(pairs, k, v);
            if sr_done(pairs, k, v) {
                let j = choose |j: int| 0 <= j < k && j < pairs.len() && (#[trigger] pairs[j]).0 == v;
                assert(sr_needs(t, pairs[j].0));
                lemma_sr_base_var_plain(t, v.name);
                // the base register inside the SUBPIECE is not itself to be replaced, hence it is not x
                assert(sr_needs(t, x));
                assert(sr_base_var(t, v.name) != x);
                reveal_with_fuel(sr_subst1, 3);
            }
        }
        Expression::Const(c) => {}
        Expression::BinOp { op, lhs, rhs } => { lemma_sr_subst_step(t, *lhs, pairs, k); lemma_sr_subst_step(t, *rhs, pairs, k); }
        Expression::UnOp { op, arg } => { lemma_sr_subst_step(t, *arg, pairs, k); }
        Expression::Cast { op, size, arg } => { lemma_sr_subst_step(t, *arg, pairs, k); }
        Expression::Unknown { description, size } => {}
        Expression::Subpiece { low_byte, size, arg } => { lemma_sr_subst_step(t, *arg, pairs, k); }
    }
}

pub proof fn lemma_sr_part_zero(t: SrTable, e: Expression, pairs: Seq<(Variable, Expression)>)
    ensures sr_subst_part(t, e, pairs, 0) == e,
    decreases e
{
    match e {
        Expression::Var(v) => {}
        Expression::Const(c) => {}
        Expression::BinOp { op, lhs, rhs } => { lemma_sr_part_zero(t, *lhs, pairs); lemma_sr_part_zero(t, *rhs, pairs); }
        Expression::UnOp { op, arg } => { lemma_sr_part_zero(t, *arg, pairs); }
        Expression::Cast { op, size, arg } => { lemma_sr_part_zero(t, *arg, pairs); }
        Expression::Unknown { description, size } => {}
        Expression::Subpiece { low_byte, size, arg } => { lemma_sr_part_zero(t, *arg, pairs); }
    }
}

/// every variable of `e` that has to be replaced is among the first k pairs
pub open spec fn sr_covered(t: SrTable, e: Expression, pairs: Seq<(Variable, Expression)>, k: int) -> bool {
    forall |v: Variable| #![trigger sr_occurs(e, v)] sr_occurs(e, v) && sr_needs(t, v) ==> sr_done(pairs, k, v)
}

/// value: plain reading of the result == aliasing reading of the original
pub proof fn lemma_sr_part_eval(t: SrTable, env: SrEnv, e: Expression, pairs: Seq<(Variable, Expression)>, k: int)
    requires sr_table_ok(t), sr_pairs_ok(t, pairs), sr_expr_fits(t, e), sr_covered(t, e, pairs, k),
    ensures sr_eval(t, env, false, sr_subst_part(t, e, pairs, k)) == sr_eval(t, env, true, e),
    decreases e
{
    match e {
        Expression::Var(v) => {
            assert(sr_occurs(e, v));
            if sr_done(pairs, k, v) {
                let j = choose |j: int| 0 <= j < k && j < pairs.len() && (#[trigger] pairs[j]).0 == v;
                assert(sr_needs(t, pairs[j].0));
                lemma_sr_sub_expr_sound(t, env, v);
            } else {
                lemma_sr_read_same(t, env, v);
            }
        }
        Expression::Const(c) => {}
        Expression::BinOp { op, lhs, rhs } => {
            assert forall |v: Variable| sr_occurs(*lhs, v) implies sr_occurs(e, v) by {}
            assert forall |v: Variable| sr_occurs(*rhs, v) implies sr_occurs(e, v) by {}
            lemma_sr_part_eval(t, env, *lhs, pairs, k); lemma_sr_part_eval(t, env, *rhs, pairs, k);
        }
        Expression::UnOp { op, arg } => { assert forall |v: Variable| sr_occurs(*arg, v) implies sr_occurs(e, v) by {} lemma_sr_part_eval(t, env, *arg, pairs, k); }
        Expression::Cast { op, size, arg } => { assert forall |v: Variable| sr_occurs(*arg, v) implies sr_occurs(e, v) by {} lemma_sr_part_eval(t, env, *arg, pairs, k); }
        Expression::Unknown { description, size } => {}
        Expression::Subpiece { low_byte, size, arg } => { assert forall |v: Variable| sr_occurs(*arg, v) implies sr_occurs(e, v) by {} lemma_sr_part_eval(t, env, *arg, pairs, k); }
    }
}

/// size and well-sizedness are kept
pub proof fn lemma_sr_part_shape(t: SrTable, e: Expression, pairs: Seq<(Variable, Expression)>, k: int)
    requires sr_table_ok(t), sr_pairs_ok(t, pairs), sr_expr_fits(t, e),
    ensures expr_bytes(sr_subst_part(t, e, pairs, k)) == expr_bytes(e),
            sr_sized(e) ==> sr_sized(sr_subst_part(t, e, pairs, k)),
    decreases e
{
    match e {
        Expression::Var(v) => {
            assert(sr_occurs(e, v));
            if sr_done(pairs, k, v) {
                let j = choose |j: int| 0 <= j < k && j < pairs.len() && (#[trigger] pairs[j]).0 == v;
                assert(sr_needs(t, pairs[j].0));
                lemma_sr_base_var_plain(t, v.name);
                reveal_with_fuel(sr_sized, 3);
                reveal_with_fuel(expr_bytes, 3);
            }
        }
        Expression::Const(c) => {}
        Expression::BinOp { op, lhs, rhs } => {
            assert forall |v: Variable| sr_occurs(*lhs, v) implies sr_occurs(e, v) by {}
            assert forall |v: Variable| sr_occurs(*rhs, v) implies sr_occurs(e, v) by {}
            lemma_sr_part_shape(t, *lhs, pairs, k); lemma_sr_part_shape(t, *rhs, pairs, k);
        }
        Expression::UnOp { op, arg } => { assert forall |v: Variable| sr_occurs(*arg, v) implies sr_occurs(e, v) by {} lemma_sr_part_shape(t, *arg, pairs, k); }
        Expression::Cast { op, size, arg } => { assert forall |v: Variable| sr_occurs(*arg, v) implies sr_occurs(e, v) by {} lemma_sr_part_shape(t, *arg, pairs, k); }
        Expression::Unknown { description, size } => {}
        Expression::Subpiece { low_byte, size, arg } => { assert forall |v: Variable| sr_occurs(*arg, v) implies sr_occurs(e, v) by {} lemma_sr_part_shape(t, *arg, pairs, k); }
    }
}

/// which variables are left
pub proof fn lemma_sr_part_occurs(t: SrTable, e: Expression, pairs: Seq<(Variable, Expression)>, k: int, w: Variable)
    requires sr_table_ok(t), sr_pairs_ok(t, pairs), sr_occurs(sr_subst_part(t, e, pairs, k), w),
    ensures (sr_occurs(e, w) && !sr_done(pairs, k, w)) || (t.contains_key(&w.name) && sr_plain_var(t, w)),
    decreases e
{
    match e {
        Expression::Var(v) => {
            if sr_done(pairs, k, v) {
                let j = choose |j: int| 0 <= j < k && j < pairs.len() && (#[trigger] pairs[j]).0 == v;
                assert(sr_needs(t, pairs[j].0));
                lemma_sr_base_var_plain(t, v.name);
                reveal_with_fuel(sr_occurs, 3);
                assert(w == sr_base_var(t, v.name));
            }
        }
        Expression::Const(c) => {}
        Expression::BinOp { op, lhs, rhs } => {
            if sr_occurs(sr_subst_part(t, *lhs, pairs, k), w) { lemma_sr_part_occurs(t, *lhs, pairs, k, w); } else { lemma_sr_part_occurs(t, *rhs, pairs, k, w); }
        }
        Expression::UnOp { op, arg } => { lemma_sr_part_occurs(t, *arg, pairs, k, w); }
        Expression::Cast { op, size, arg } => { lemma_sr_part_occurs(t, *arg, pairs, k, w); }
        Expression::Unknown { description, size } => {}
        Expression::Subpiece { low_byte, size, arg } => { lemma_sr_part_occurs(t, *arg, pairs, k, w); }
    }
}

/// the contract of replace_input_subregister, from "all pairs substituted and every sub-register input has a pair"
pub proof fn lemma_sr_inputs_replaced(t: SrTable, e: Expression, pairs: Seq<(Variable, Expression)>, k: int)
    requires sr_table_ok(t), sr_pairs_ok(t, pairs), sr_expr_fits(t, e), sr_covered(t, e, pairs, k),
    ensures sr_inputs_replaced(t, e, sr_subst_part(t, e, pairs, k)),
{
    let new = sr_subst_part(t, e, pairs, k);
    assert forall |env: SrEnv| #[trigger] sr_eval(t, env, false, new) == sr_eval(t, env, true, e) by {
        lemma_sr_part_eval(t, env, e, pairs, k);
    }
    lemma_sr_part_shape(t, e, pairs, k);
    assert forall |w: Variable| #![trigger sr_occurs(new, w)] sr_occurs(new, w) implies sr_plain_var(t, w) && (sr_occurs(e, w) || t.contains_key(&w.name)) by {
        lemma_sr_part_occurs(t, e, pairs, k, w);
        if sr_occurs(e, w) && !sr_done(pairs, k, w) {
            // not replaced: it needs no replacement; inside the table that means base register at full size (it fits)
            assert(!sr_needs(t, w));
            assert(sr_var_fits(t, w));
            if t.contains_key(&w.name) { assert(t.contains_key(&sr_base(t, w.name))); }
        }
    }
}

pub broadcast proof fn lemma_sr_inputs_replaced_b(t: SrTable, e: Expression, pairs: Seq<(Variable, Expression)>, k: int)
    ensures sr_table_ok(t) && sr_pairs_ok(t, pairs) && sr_expr_fits(t, e) && sr_covered(t, e, pairs, k)
        ==> #[trigger] sr_inputs_replaced(t, e, sr_subst_part(t, e, pairs, k)),
{
    if sr_table_ok(t) && sr_pairs_ok(t, pairs) && sr_expr_fits(t, e) && sr_covered(t, e, pairs, k) {
        lemma_sr_inputs_replaced(t, e, pairs, k);
    }
}
pub broadcast proof fn lemma_sr_part_zero_b(t: SrTable, e: Expression, pairs: Seq<(Variable, Expression)>)
    ensures #[trigger] sr_subst_part(t, e, pairs, 0) == e,
{
    lemma_sr_part_zero(t, e, pairs);
}

// ---- PIECE: the assignment expression for the base register ---------------------------------------------------------------

/// the reference shape (what has to come out for which position of the sub-register)
pub open spec fn sr_piece_expr(value: Expression, base: RegisterProperties, sub: RegisterProperties) -> Expression {
    let bvar = Box::new(Expression::Var(Variable { name: base.register, size: base.size, is_temp: false }));
    let low = Expression::Subpiece { low_byte: ByteSize(0), size: sub.lsb, arg: bvar };
    let high = Expression::Subpiece { low_byte: ByteSize((sub.lsb.0 + sub.size.0) as u64), size: ByteSize((base.size.0 - (sub.lsb.0 + sub.size.0)) as u64), arg: bvar };
    if sub.lsb.0 > 0 && sub.lsb.0 + sub.size.0 == base.size.0 {
        Expression::BinOp { op: BinOpType::Piece, lhs: Box::new(value), rhs: Box::new(low) }
    } else if sub.lsb.0 > 0 {
        Expression::BinOp { op: BinOpType::Piece, lhs: Box::new(Expression::BinOp { op: BinOpType::Piece, lhs: Box::new(high), rhs: Box::new(value) }), rhs: Box::new(low) }
    } else {
        Expression::BinOp { op: BinOpType::Piece, lhs: Box::new(high), rhs: Box::new(value) }
    }
}

pub open spec fn sr_piece_pre(base: RegisterProperties, sub: RegisterProperties) -> bool {
    1 <= sub.size.0 && sub.lsb.0 + sub.size.0 <= base.size.0 && sub.size.0 < base.size.0 && base.size.0 <= MAXBYTES()
}

/// pure arithmetic of putting the three parts together
pub proof fn lemma_sr_piece_arith(u: nat, bb: nat, l: nat, s: nat, xu: nat)
    requires u < p2(bb), l + s <= bb, xu < p2(s),
    ensures
        (u / p2(l + s)) % p2((bb - (l + s)) as nat) == u / p2(l + s),
        (u / p2(l + s)) * p2(l + s) + (xu % p2(s)) * p2(l) + u % p2(l) == ((u / p2(l + s)) * p2(s) + xu) * p2(l) + u % p2(l),
        l + s == bb ==> u / p2(l + s) == 0,
        l == 0 ==> u % p2(l) == 0 && p2(l) == 1,
        l + s == bb ==> (u / p2(l + s)) * p2(l + s) + (xu % p2(s)) * p2(l) + u % p2(l) == xu * p2(l) + u % p2(l),
        l == 0 ==> (u / p2(l + s)) * p2(l + s) + (xu % p2(s)) * p2(l) + u % p2(l) == (u / p2(l + s)) * p2(s) + xu,
{
    let ls = l + s;
    lemma_p2_consts();
    lemma_p2(bb); lemma_p2(l); lemma_p2(s); lemma_p2(ls);
    lemma_sr_div_bound(u, bb, ls);
    vstd::arithmetic::div_mod::lemma_small_mod(u / p2(ls), p2((bb - ls) as nat));
    vstd::arithmetic::div_mod::lemma_small_mod(xu, p2(s));
    vstd::arithmetic::power2::lemma_pow2_adds(s, l);
    assert(p2(ls) == p2(s) * p2(l)) by { assert(s + l == ls); }
    let hi = u / p2(ls);
    assert(hi * p2(ls) + xu * p2(l) == (hi * p2(s) + xu) * p2(l)) by (nonlinear_arith)
        requires p2(ls) == p2(s) * p2(l);
    if ls == bb {
        lemma_sr_div_small(u, bb);
        assert(hi * p2(ls) == 0) by (nonlinear_arith) requires hi == 0;
    }
    if l == 0 {
        assert(u % p2(l) == 0);
        assert((xu % p2(s)) * p2(l) == xu) by (nonlinear_arith) requires xu % p2(s) == xu, p2(l) == 1;
    }
}

/// PIECE of two well-formed values: nothing is cut off by the reduction to the result width
pub proof fn lemma_sr_piece_bin(a: Bitvector, b: Bitvector)
    requires a.wf(), b.wf(), a.w@ + b.w@ <= MAXW(),
    ensures sr_bin(BinOpType::Piece, a, b) == bv(a.w@ + b.w@, a.u@ * p2(b.w@) + b.u@),
{
    lemma_piece(a, b);
    vstd::arithmetic::div_mod::lemma_small_mod(a.u@ * p2(b.w@) + b.u@, p2(a.w@ + b.w@));
}

/// the two SUBPIECEs of the base register that the assignment expression keeps
pub proof fn lemma_sr_piece_parts(t: SrTable, env: SrEnv, base: RegisterProperties, low: nat, size: nat)
    requires low + size <= base.size.0,
    ensures ({
        let base_var = Variable { name: base.register, size: base.size, is_temp: false };
        let old = sr_read(t, env, false, base_var);
        let e = Expression::Subpiece { low_byte: ByteSize(low as u64), size: ByteSize(size as u64), arg: Box::new(Expression::Var(base_var)) };
        &&& old.w@ == 8 * base.size.0 && old.u@ < p2((8 * base.size.0) as nat)
        &&& (base.size.0 <= MAXBYTES() ==> sr_eval(t, env, false, e) == bv((8 * size) as nat, (old.u@ / p2((8 * low) as nat)) % p2((8 * size) as nat)))
        &&& (base.size.0 <= MAXBYTES() && low == 0 ==> sr_eval(t, env, false, e) == bv((8 * size) as nat, old.u@ % p2((8 * size) as nat)))
    }),
{
    lemma_sr_div_one(sr_read(t, env, false, Variable { name: base.register, size: base.size, is_temp: false }).u@);
    let base_var = Variable { name: base.register, size: base.size, is_temp: false };
    let bb = (8 * base.size.0) as nat;
    lemma_p2_consts(); lemma_p2(bb);
    vstd::arithmetic::div_mod::lemma_mod_bound((env(base.register).u@ / p2(0)) as int, p2(bb) as int);
    reveal_with_fuel(sr_eval, 3);
}

pub proof fn lemma_sr_piece_value(t: SrTable, env: SrEnv, value: Expression, base: RegisterProperties, sub: RegisterProperties)
    requires sr_piece_pre(base, sub),
             sr_eval(t, env, false, value).wf(), sr_eval(t, env, false, value).w@ == 8 * sub.size.0,
    ensures sr_eval(t, env, false, sr_piece_expr(value, base, sub))
            == sr_insert(sr_read(t, env, false, Variable { name: base.register, size: base.size, is_temp: false }), sub.lsb.0 as nat, sub.size.0 as nat, sr_eval(t, env, false, value)),
{
    let base_var = Variable { name: base.register, size: base.size, is_temp: false };
    let x = sr_eval(t, env, false, value);
    let old = sr_read(t, env, false, base_var);
    let bb = (8 * base.size.0) as nat;
    let l = (8 * sub.lsb.0) as nat;
    let s = (8 * sub.size.0) as nat;
    let lsb = sub.lsb.0 as nat;
    let lss = (sub.lsb.0 + sub.size.0) as nat;
    let hs = (base.size.0 - lss) as nat;
    let u = old.u@;
    lemma_sr_piece_parts(t, env, base, 0, lsb);
    lemma_sr_piece_parts(t, env, base, lss, hs);
    lemma_sr_piece_arith(u, bb, l, s, x.u@);
    lemma_p2_consts();
    assert(8 * (lsb + sub.size.0 as nat) == l + s);
    let bvar = Box::new(Expression::Var(base_var));
    let low = Expression::Subpiece { low_byte: ByteSize(0), size: sub.lsb, arg: bvar };
    let high = Expression::Subpiece { low_byte: ByteSize((sub.lsb.0 + sub.size.0) as u64), size: ByteSize((base.size.0 - (sub.lsb.0 + sub.size.0)) as u64), arg: bvar };
    let lo_v = sr_eval(t, env, false, low);
    let hi_v = sr_eval(t, env, false, high);
    assert(lo_v == bv(l, u % p2(l)));
    assert(hi_v == bv((8 * hs) as nat, u / p2(l + s)));
    let ins = sr_insert(old, lsb, sub.size.0 as nat, x);
    assert(ins == bv(bb, (u / p2(l + s)) * p2(l + s) + (x.u@ % p2(s)) * p2(l) + u % p2(l)));
    lemma_p2(l); lemma_p2(s); lemma_p2((8 * hs) as nat);
    vstd::arithmetic::div_mod::lemma_mod_bound(u as int, p2(l) as int);
    lemma_sr_div_bound(u, bb, l + s);
    if sub.lsb.0 > 0 && sub.lsb.0 + sub.size.0 == base.size.0 {
        let r = Expression::BinOp { op: BinOpType::Piece, lhs: Box::new(value), rhs: Box::new(low) };
        lemma_sr_piece_bin(x, lo_v);
        assert(sr_eval(t, env, false, r) == sr_bin(BinOpType::Piece, x, lo_v));
        assert(sr_eval(t, env, false, r) == ins);
    } else if sub.lsb.0 > 0 {
        let inner = Expression::BinOp { op: BinOpType::Piece, lhs: Box::new(high), rhs: Box::new(value) };
        let r = Expression::BinOp { op: BinOpType::Piece, lhs: Box::new(inner), rhs: Box::new(low) };
        lemma_sr_piece_bin(hi_v, x);
        lemma_piece(hi_v, x);
        lemma_sr_piece_bin(sr_bin(BinOpType::Piece, hi_v, x), lo_v);
        assert(sr_eval(t, env, false, inner) == sr_bin(BinOpType::Piece, hi_v, x));
        assert(sr_eval(t, env, false, r) == sr_bin(BinOpType::Piece, sr_eval(t, env, false, inner), lo_v));
        assert(sr_eval(t, env, false, r) == ins);
    } else {
        let r = Expression::BinOp { op: BinOpType::Piece, lhs: Box::new(high), rhs: Box::new(value) };
        lemma_sr_piece_bin(hi_v, x);
        assert(sr_eval(t, env, false, r) == sr_bin(BinOpType::Piece, hi_v, x));
        assert(sr_eval(t, env, false, r) == ins);
    }
}

pub proof fn lemma_sr_piece_expr(t: SrTable, value: Expression, base: RegisterProperties, sub: RegisterProperties)
    requires sr_piece_pre(base, sub), expr_bytes(value) == sub.size.0,
    ensures sr_pieced(t, value, base, sub, sr_piece_expr(value, base, sub)),
{
    let r = sr_piece_expr(value, base, sub);
    let base_var = Variable { name: base.register, size: base.size, is_temp: false };
    assert forall |env: SrEnv| ({
            let x = sr_eval(t, env, false, value);
            x.wf() && x.w@ == 8 * sub.size.0 ==>
                #[trigger] sr_eval(t, env, false, r) == sr_insert(sr_read(t, env, false, base_var), sub.lsb.0 as nat, sub.size.0 as nat, x)
        }) by {
        let x = sr_eval(t, env, false, value);
        if x.wf() && x.w@ == 8 * sub.size.0 { lemma_sr_piece_value(t, env, value, base, sub); }
    }
    reveal_with_fuel(expr_bytes, 4);
    reveal_with_fuel(sr_occurs, 4);
    reveal_with_fuel(sr_sized, 4);
}
