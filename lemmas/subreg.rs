// ---------------------------------------------------------------------------
// lemmas/subreg.rs -- proved facts of unit `subreg` (no assumptions).
// ---------------------------------------------------------------------------

// ---- arithmetic of byte ranges ----------------------------------------------------------------------------------------

/// taking bits [l, l+s) of the low B bits of u is taking bits [l, l+s) of u, when the range lies below B
pub proof fn lemma_sr_sub_of_low(u: nat, bb: nat, l: nat, s: nat)
    requires l + s <= bb
    ensures ((u % p2(bb)) / p2(l)) % p2(s) == (u / p2(l)) % p2(s),
{
    lemma_p2(bb); lemma_p2(l); lemma_p2(s);
    let r = u % p2(bb);
    let q = u / p2(bb);
    let d = (bb - l - s) as nat;
    lemma_p2(d);
    lemma_p2_mono(l, bb);
    lemma_p2_mono(s, (bb - l) as nat);
    let pl = p2(l) as int; let ps = p2(s) as int; let pd = p2(d) as int; let pb = p2(bb) as int;
    assert(p2((bb - l) as nat) == p2(s) * p2(d));
    assert(pb == pl * (ps * pd));
    vstd::arithmetic::div_mod::lemma_fundamental_div_mod(u as int, pb);
    assert(u as int == pb * (q as int) + r as int);
    // u = pl * (ps * pd * q) + r   ==>   u / pl = ps * pd * q + r / pl
    let k = ps * pd * (q as int);
    assert(u as int == pl * k + r as int) by (nonlinear_arith)
        requires u as int == pb * (q as int) + r as int, pb == pl * (ps * pd), k == ps * pd * (q as int);
    vstd::arithmetic::div_mod::lemma_fundamental_div_mod(r as int, pl);
    let rq = (r as int) / pl; let rr = (r as int) % pl;
    assert(u as int == (k + rq) * pl + rr) by (nonlinear_arith)
        requires u as int == pl * k + r as int, r as int == pl * rq + rr;
    vstd::arithmetic::div_mod::lemma_mod_bound(r as int, pl);
    assert(0 <= rr < pl && pl != 0);
    vstd::arithmetic::div_mod::lemma_fundamental_div_mod_converse(u as int, pl, k + rq, rr);
    assert((u as int) / pl == k + rq);
    // (k + rq) % ps == rq % ps  since k is a multiple of ps
    let m = pd * (q as int);
    assert(k + rq == ps * m + rq) by (nonlinear_arith) requires k == ps * pd * (q as int), m == pd * (q as int);
    vstd::arithmetic::div_mod::lemma_mod_multiples_vanish(m, rq, ps);
    assert((ps * m + rq) % ps == rq % ps);
}

/// a value below 2^(l+s) has nothing above bit l+s
pub proof fn lemma_sr_div_small(u: nat, n: nat)
    requires u < p2(n)
    ensures u / p2(n) == 0, u % p2(n) == u,
{
    lemma_p2(n);
    vstd::arithmetic::div_mod::lemma_small_mod(u, p2(n));
    vstd::arithmetic::div_mod::lemma_basic_div(u as int, p2(n) as int);
}

pub proof fn lemma_sr_div_one(x: nat)
    ensures x / p2(0) == x,
{
    lemma_p2_consts();
    let d = p2(0);
    assert(x / d == x) by (nonlinear_arith) requires d == 1;
}

/// the quotient of a value below 2^b by 2^k is below 2^(b-k)
pub proof fn lemma_sr_div_bound(u: nat, bb: nat, k: nat)
    requires u < p2(bb), k <= bb
    ensures u / p2(k) < p2((bb - k) as nat),
{
    lemma_p2(k); lemma_p2((bb - k) as nat);
    lemma_p2_mono(k, bb);
    let pk = p2(k) as int; let pd = p2((bb - k) as nat) as int;
    vstd::arithmetic::div_mod::lemma_fundamental_div_mod(u as int, pk);
    vstd::arithmetic::div_mod::lemma_mod_bound(u as int, pk);
    let q = (u as int) / pk;
    if q >= pd {
        assert(pk * q >= pk * pd) by (nonlinear_arith) requires q >= pd, pk > 0;
        assert(false);
    }
}

/// u = (u / 2^k) * 2^k + u % 2^k,  2^(a+b) = 2^a * 2^b
pub proof fn lemma_sr_split(u: nat, k: nat)
    ensures u == (u / p2(k)) * p2(k) + u % p2(k), u % p2(k) < p2(k),
{
    lemma_p2(k);
    vstd::arithmetic::div_mod::lemma_fundamental_div_mod(u as int, p2(k) as int);
    vstd::arithmetic::div_mod::lemma_mod_bound(u as int, p2(k) as int);
    assert(p2(k) * (u / p2(k)) == (u / p2(k)) * p2(k)) by (nonlinear_arith);
}

// ---- the leaves --------------------------------------------------------------------------------------------------------

/// bytes [lsb, lsb + size) of the base register: the SUBPIECE expression over the base register, read plainly, is the aliasing
/// reading of the sub-register
pub proof fn lemma_sr_sub_expr_sound(t: SrTable, env: SrEnv, v: Variable)
    requires sr_table_ok(t), t.contains_key(&v.name), sr_var_fits(t, v),
    ensures sr_eval(t, env, false, sr_sub_expr(t, v)) == sr_read(t, env, true, v),
{
    let base = sr_base(t, v.name);
    let bv_ = sr_base_var(t, v.name);
    assert(t.contains_key(&base));
    let bb = (8 * (*t[&base]).size.0) as nat;
    let l = (8 * sr_lsb(t, v.name)) as nat;
    let s = (8 * v.size.0) as nat;
    let u = env(base).u@;
    reveal_with_fuel(sr_eval, 3);
    lemma_sr_sub_of_low(u, bb, l, s);
    lemma_p2_consts();
    assert(u / p2(0) == u);
    assert(sr_eval(t, env, false, Expression::Var(bv_)) == pcode_subpiece(env(base), 0, bb));
}

pub proof fn lemma_sr_is_subpiece_of(t: SrTable, base: String, lsb: ByteSize, size: ByteSize)
    ensures sr_is_subpiece_of(t, base, lsb, size,
        Expression::Subpiece { low_byte: lsb, size: size, arg: Box::new(Expression::Var(Variable { name: base, size: (*t[&base]).size, is_temp: false })) }),
{
    let base_var = Variable { name: base, size: (*t[&base]).size, is_temp: false };
    let r = Expression::Subpiece { low_byte: lsb, size: size, arg: Box::new(Expression::Var(base_var)) };
    reveal_with_fuel(sr_eval, 3);
    reveal_with_fuel(sr_occurs, 3);
    reveal_with_fuel(expr_bytes, 3);
    if lsb.0 + size.0 <= (*t[&base]).size.0 <= MAXBYTES() {
        assert forall |env: SrEnv| #[trigger] sr_eval(t, env, false, r) == pcode_subpiece(env(base), (8 * lsb.0) as nat, (8 * size.0) as nat) by {
            let u = env(base).u@;
            lemma_sr_sub_of_low(u, (8 * (*t[&base]).size.0) as nat, (8 * lsb.0) as nat, (8 * size.0) as nat);
            lemma_sr_div_one(u);
        }
    }
}

/// a variable that needs no replacement reads the same in both readings
pub proof fn lemma_sr_read_same(t: SrTable, env: SrEnv, v: Variable)
    requires sr_table_ok(t), !sr_needs(t, v),
    ensures sr_read(t, env, false, v) == sr_read(t, env, true, v),
{
    if t.contains_key(&v.name) {
        assert(sr_base(t, v.name) == v.name);
        assert(t.contains_key(&sr_base(t, v.name)));
    }
}

pub proof fn lemma_sr_base_var_plain(t: SrTable, n: String)
    requires sr_table_ok(t), t.contains_key(&n),
    ensures sr_plain_var(t, sr_base_var(t, n)), !sr_needs(t, sr_base_var(t, n)), t.contains_key(&sr_base_var(t, n).name),
            1 <= sr_base_var(t, n).size.0 <= MAXBYTES(),
{
    assert(t.contains_key(&sr_base(t, n)));
}

pub broadcast proof fn lemma_sr_listed_add(a: Seq<&Variable>, b: Seq<&Variable>, v: Variable)
    ensures (sr_listed(a, v) || sr_listed(b, v)) ==> #[trigger] sr_listed(a + b, v),
{
    if sr_listed(a, v) {
        let i = choose |i: int| 0 <= i < a.len() && 0 <= i && *(#[trigger] a[i]) == v;
        assert((a + b)[i] == a[i]);
    } else if sr_listed(b, v) {
        let i = choose |i: int| 0 <= i < b.len() && 0 <= i && *(#[trigger] b[i]) == v;
        assert((a + b)[a.len() + i] == b[i]);
    }
}
pub broadcast proof fn lemma_sr_listed_first(s: Seq<&Variable>, v: Variable)
    ensures s.len() > 0 && *s[0] == v ==> #[trigger] sr_listed(s, v),
{
}

// ---- sequential replacement of the inputs == simultaneous replacement -------------------------------------------------------

pub proof fn lemma_sr_done_step(pairs: Seq<(Variable, Expression)>, k: int, v: Variable)
    requires 0 <= k < pairs.len()
    ensures sr_done(pairs, k + 1, v) <==> (sr_done(pairs, k, v) || pairs[k].0 == v),
{
    if sr_done(pairs, k, v) {
        let j = choose |j: int| 0 <= j < k && j < pairs.len() && (#[trigger] pairs[j]).0 == v;
        assert(0 <= j < k + 1 && pairs[j].0 == v);
    }
    if pairs[k].0 == v { assert(0 <= k < k + 1 && pairs[k].0 == v); }
    if sr_done(pairs, k + 1, v) {
        let j = choose |j: int| 0 <= j < k + 1 && j < pairs.len() && (#[trigger] pairs[j]).0 == v;
        if j < k { assert(0 <= j < k && pairs[j].0 == v); }
    }
}

pub broadcast proof fn lemma_sr_done_push(pairs: Seq<(Variable, Expression)>, p: (Variable, Expression), n: int, v: Variable)
    ensures n == pairs.len() + 1 && (sr_done(pairs, n - 1, v) || p.0 == v) ==> #[trigger] sr_done(pairs.push(p), n, v),
{
    if n == pairs.len() + 1 {
        if sr_done(pairs, n - 1, v) {
            let j = choose |j: int| 0 <= j < n - 1 && j < pairs.len() && (#[trigger] pairs[j]).0 == v;
            assert(pairs.push(p)[j] == pairs[j]);
        } else if p.0 == v {
            assert(pairs.push(p)[n - 1] == p);
        }
    }
}

/// one more call of substitute_input_var (broadcast form for the loop of replace_input_subregister)
pub broadcast proof fn lemma_sr_subst_step_b(t: SrTable, e: Expression, pairs: Seq<(Variable, Expression)>, k: int, x: Variable, r: Expression)
    ensures sr_table_ok(t) && sr_pairs_ok(t, pairs) && 0 <= k < pairs.len() && x == pairs[k].0 && r == pairs[k].1
        ==> #[trigger] sr_subst1(sr_subst_part(t, e, pairs, k), x, r) == sr_subst_part(t, e, pairs, k + 1),
{
    if sr_table_ok(t) && sr_pairs_ok(t, pairs) && 0 <= k < pairs.len() && x == pairs[k].0 && r == pairs[k].1 {
        lemma_sr_subst_step(t, e, pairs, k);
    }
}

/// one more call of substitute_input_var
pub proof fn lemma_sr_subst_step(t: SrTable, e: Expression, pairs: Seq<(Variable, Expression)>, k: int)
    requires sr_table_ok(t), sr_pairs_ok(t, pairs), 0 <= k < pairs.len(),
    ensures sr_subst1(sr_subst_part(t, e, pairs, k), pairs[k].0, pairs[k].1) == sr_subst_part(t, e, pairs, k + 1),
    decreases e
{
    let x = pairs[k].0;
    let r = pairs[k].1;
    match e {
        Expression::Var(v) => {
            lemma_sr_done_step(pairs, k, v);
            if sr_done(pairs, k, v) {
                let j = choose |j: int| 0 <= j < k && j < pairs.len() && (#[trigger] pairs[j]).0 == v;
                assert(sr_needs(t, pairs[j].0));
                lemma_sr_base_var_plain(t, v.name);
                // the base register inside the SUBPIECE is not itself to be replaced, hence it is not x
                assert(sr_needs(t, x));
                assert(sr_base_var(t, v.name) != x);
                reveal_with_fuel(sr_subst1, 3);
            }
        }
        Expression::Const(c) => {}
        Expression::BinOp { op, lhs, rhs } => { lemma_sr_subst_step(t, *lhs, pairs, k); lemma_sr_subst_step(t, *rhs, pairs, k); }
        Expression::UnOp { op, arg } => { lemma_sr_subst_step(t, *arg, pairs, k); }
        Expression::Cast { op, size, arg } => { lemma_sr_subst_step(t, *arg, pairs, k); }
        Expression::Unknown { description, size } => {}
        Expression::Subpiece { low_byte, size, arg } => { lemma_sr_subst_step(t, *arg, pairs, k); }
    }
}

pub proof fn lemma_sr_part_zero(t: SrTable, e: Expression, pairs: Seq<(Variable, Expression)>)
    ensures sr_subst_part(t, e, pairs, 0) == e,
    decreases e
{
    match e {
        Expression::Var(v) => {}
        Expression::Const(c) => {}
        Expression::BinOp { op, lhs, rhs } => { lemma_sr_part_zero(t, *lhs, pairs); lemma_sr_part_zero(t, *rhs, pairs); }
        Expression::UnOp { op, arg } => { lemma_sr_part_zero(t, *arg, pairs); }
        Expression::Cast { op, size, arg } => { lemma_sr_part_zero(t, *arg, pairs); }
        Expression::Unknown { description, size } => {}
        Expression::Subpiece { low_byte, size, arg } => { lemma_sr_part_zero(t, *arg, pairs); }
    }
}

/// every variable of `e` that has to be replaced is among the first k pairs
pub open spec fn sr_covered(t: SrTable, e: Expression, pairs: Seq<(Variable, Expression)>, k: int) -> bool {
    forall |v: Variable| #![trigger sr_occurs(e, v)] sr_occurs(e, v) && sr_needs(t, v) ==> sr_done(pairs, k, v)
}

/// value: plain reading of the result == aliasing reading of the original
pub proof fn lemma_sr_part_eval(t: SrTable, env: SrEnv, e: Expression, pairs: Seq<(Variable, Expression)>, k: int)
    requires sr_table_ok(t), sr_pairs_ok(t, pairs), sr_expr_fits(t, e), sr_covered(t, e, pairs, k),
    ensures sr_eval(t, env, false, sr_subst_part(t, e, pairs, k)) == sr_eval(t, env, true, e),
    decreases e
{
    match e {
        Expression::Var(v) => {
            assert(sr_occurs(e, v));
            if sr_done(pairs, k, v) {
                let j = choose |j: int| 0 <= j < k && j < pairs.len() && (#[trigger] pairs[j]).0 == v;
                assert(sr_needs(t, pairs[j].0));
                lemma_sr_sub_expr_sound(t, env, v);
            } else {
                lemma_sr_read_same(t, env, v);
            }
        }
        Expression::Const(c) => {}
        Expression::BinOp { op, lhs, rhs } => {
            assert forall |v: Variable| sr_occurs(*lhs, v) implies sr_occurs(e, v) by {}
            assert forall |v: Variable| sr_occurs(*rhs, v) implies sr_occurs(e, v) by {}
            lemma_sr_part_eval(t, env, *lhs, pairs, k); lemma_sr_part_eval(t, env, *rhs, pairs, k);
        }
        Expression::UnOp { op, arg } => { assert forall |v: Variable| sr_occurs(*arg, v) implies sr_occurs(e, v) by {} lemma_sr_part_eval(t, env, *arg, pairs, k); }
        Expression::Cast { op, size, arg } => { assert forall |v: Variable| sr_occurs(*arg, v) implies sr_occurs(e, v) by {} lemma_sr_part_eval(t, env, *arg, pairs, k); }
        Expression::Unknown { description, size } => {}
        Expression::Subpiece { low_byte, size, arg } => { assert forall |v: Variable| sr_occurs(*arg, v) implies sr_occurs(e, v) by {} lemma_sr_part_eval(t, env, *arg, pairs, k); }
    }
}

/// size and well-sizedness are kept
pub proof fn lemma_sr_part_shape(t: SrTable, e: Expression, pairs: Seq<(Variable, Expression)>, k: int)
    requires sr_table_ok(t), sr_pairs_ok(t, pairs), sr_expr_fits(t, e),
    ensures expr_bytes(sr_subst_part(t, e, pairs, k)) == expr_bytes(e),
            sr_sized(e) ==> sr_sized(sr_subst_part(t, e, pairs, k)),
    decreases e
{
    match e {
        Expression::Var(v) => {
            assert(sr_occurs(e, v));
            if sr_done(pairs, k, v) {
                let j = choose |j: int| 0 <= j < k && j < pairs.len() && (#[trigger] pairs[j]).0 == v;
                assert(sr_needs(t, pairs[j].0));
                lemma_sr_base_var_plain(t, v.name);
                reveal_with_fuel(sr_sized, 3);
                reveal_with_fuel(expr_bytes, 3);
            }
        }
        Expression::Const(c) => {}
        Expression::BinOp { op, lhs, rhs } => {
            assert forall |v: Variable| sr_occurs(*lhs, v) implies sr_occurs(e, v) by {}
            assert forall |v: Variable| sr_occurs(*rhs, v) implies sr_occurs(e, v) by {}
            lemma_sr_part_shape(t, *lhs, pairs, k); lemma_sr_part_shape(t, *rhs, pairs, k);
        }
        Expression::UnOp { op, arg } => { assert forall |v: Variable| sr_occurs(*arg, v) implies sr_occurs(e, v) by {} lemma_sr_part_shape(t, *arg, pairs, k); }
        Expression::Cast { op, size, arg } => { assert forall |v: Variable| sr_occurs(*arg, v) implies sr_occurs(e, v) by {} lemma_sr_part_shape(t, *arg, pairs, k); }
        Expression::Unknown { description, size } => {}
        Expression::Subpiece { low_byte, size, arg } => { assert forall |v: Variable| sr_occurs(*arg, v) implies sr_occurs(e, v) by {} lemma_sr_part_shape(t, *arg, pairs, k); }
    }
}

/// which variables are left
pub proof fn lemma_sr_part_occurs(t: SrTable, e: Expression, pairs: Seq<(Variable, Expression)>, k: int, w: Variable)
    requires sr_table_ok(t), sr_pairs_ok(t, pairs), sr_occurs(sr_subst_part(t, e, pairs, k), w),
    ensures (sr_occurs(e, w) && !sr_done(pairs, k, w)) || (t.contains_key(&w.name) && sr_plain_var(t, w)),
    decreases e
{
    match e {
        Expression::Var(v) => {
            if sr_done(pairs, k, v) {
                let j = choose |j: int| 0 <= j < k && j < pairs.len() && (#[trigger] pairs[j]).0 == v;
                assert(sr_needs(t, pairs[j].0));
                lemma_sr_base_var_plain(t, v.name);
                reveal_with_fuel(sr_occurs, 3);
                assert(w == sr_base_var(t, v.name));
            }
        }
        Expression::Const(c) => {}
        Expression::BinOp { op, lhs, rhs } => {
            if sr_occurs(sr_subst_part(t, *lhs, pairs, k), w) { lemma_sr_part_occurs(t, *lhs, pairs, k, w); } else { lemma_sr_part_occurs(t, *rhs, pairs, k, w); }
        }
        Expression::UnOp { op, arg } => { lemma_sr_part_occurs(t, *arg, pairs, k, w); }
        Expression::Cast { op, size, arg } => { lemma_sr_part_occurs(t, *arg, pairs, k, w); }
        Expression::Unknown { description, size } => {}
        Expression::Subpiece { low_byte, size, arg } => { lemma_sr_part_occurs(t, *arg, pairs, k, w); }
    }
}

/// the contract of replace_input_subregister, from "all pairs substituted and every sub-register input has a pair"
pub proof fn lemma_sr_inputs_replaced(t: SrTable, e: Expression, pairs: Seq<(Variable, Expression)>, k: int)
    requires sr_table_ok(t), sr_pairs_ok(t, pairs), sr_expr_fits(t, e), sr_covered(t, e, pairs, k),
    ensures sr_inputs_replaced(t, e, sr_subst_part(t, e, pairs, k)),
{
    let new = sr_subst_part(t, e, pairs, k);
    assert forall |env: SrEnv| #[trigger] sr_eval(t, env, false, new) == sr_eval(t, env, true, e) by {
        lemma_sr_part_eval(t, env, e, pairs, k);
    }
    lemma_sr_part_shape(t, e, pairs, k);
    assert forall |w: Variable| #![trigger sr_occurs(new, w)] sr_occurs(new, w) implies sr_plain_var(t, w) && (sr_occurs(e, w) || t.contains_key(&w.name)) by {
        lemma_sr_part_occurs(t, e, pairs, k, w);
        if sr_occurs(e, w) && !sr_done(pairs, k, w) {
            // not replaced: it needs no replacement; inside the table that means base register at full size (it fits)
            assert(!sr_needs(t, w));
            assert(sr_var_fits(t, w));
            if t.contains_key(&w.name) { assert(t.contains_key(&sr_base(t, w.name))); }
        }
    }
}

pub broadcast proof fn lemma_sr_inputs_replaced_b(t: SrTable, e: Expression, pairs: Seq<(Variable, Expression)>, k: int)
    ensures sr_table_ok(t) && sr_pairs_ok(t, pairs) && sr_expr_fits(t, e) && sr_covered(t, e, pairs, k)
        ==> #[trigger] sr_inputs_replaced(t, e, sr_subst_part(t, e, pairs, k)),
{
    if sr_table_ok(t) && sr_pairs_ok(t, pairs) && sr_expr_fits(t, e) && sr_covered(t, e, pairs, k) {
        lemma_sr_inputs_replaced(t, e, pairs, k);
    }
}
pub broadcast proof fn lemma_sr_part_zero_b(t: SrTable, e: Expression, pairs: Seq<(Variable, Expression)>)
    ensures #[trigger] sr_subst_part(t, e, pairs, 0) == e,
{
    lemma_sr_part_zero(t, e, pairs);
}

// ---- PIECE: the assignment expression for the base register ---------------------------------------------------------------

/// the reference shape (what has to come out for which position of the sub-register)
pub open spec fn sr_piece_expr(value: Expression, base: RegisterProperties, sub: RegisterProperties) -> Expression {
    let bvar = Box::new(Expression::Var(Variable { name: base.register, size: base.size, is_temp: false }));
    let low = Expression::Subpiece { low_byte: ByteSize(0), size: sub.lsb, arg: bvar };
    let high = Expression::Subpiece { low_byte: ByteSize((sub.lsb.0 + sub.size.0) as u64), size: ByteSize((base.size.0 - (sub.lsb.0 + sub.size.0)) as u64), arg: bvar };
    if sub.lsb.0 > 0 && sub.lsb.0 + sub.size.0 == base.size.0 {
        Expression::BinOp { op: BinOpType::Piece, lhs: Box::new(value), rhs: Box::new(low) }
    } else if sub.lsb.0 > 0 {
        Expression::BinOp { op: BinOpType::Piece, lhs: Box::new(Expression::BinOp { op: BinOpType::Piece, lhs: Box::new(high), rhs: Box::new(value) }), rhs: Box::new(low) }
    } else {
        Expression::BinOp { op: BinOpType::Piece, lhs: Box::new(high), rhs: Box::new(value) }
    }
}

pub open spec fn sr_piece_pre(base: RegisterProperties, sub: RegisterProperties) -> bool {
    1 <= sub.size.0 && sub.lsb.0 + sub.size.0 <= base.size.0 && sub.size.0 < base.size.0 && base.size.0 <= MAXBYTES()
}

/// pure arithmetic of putting the three parts together
pub proof fn lemma_sr_piece_arith(u: nat, bb: nat, l: nat, s: nat, xu: nat)
    requires u < p2(bb), l + s <= bb, xu < p2(s),
    ensures
        (u / p2(l + s)) % p2((bb - (l + s)) as nat) == u / p2(l + s),
        (u / p2(l + s)) * p2(l + s) + (xu % p2(s)) * p2(l) + u % p2(l) == ((u / p2(l + s)) * p2(s) + xu) * p2(l) + u % p2(l),
        l + s == bb ==> u / p2(l + s) == 0,
        l == 0 ==> u % p2(l) == 0 && p2(l) == 1,
        l + s == bb ==> (u / p2(l + s)) * p2(l + s) + (xu % p2(s)) * p2(l) + u % p2(l) == xu * p2(l) + u % p2(l),
        l == 0 ==> (u / p2(l + s)) * p2(l + s) + (xu % p2(s)) * p2(l) + u % p2(l) == (u / p2(l + s)) * p2(s) + xu,
{
    let ls = l + s;
    lemma_p2_consts();
    lemma_p2(bb); lemma_p2(l); lemma_p2(s); lemma_p2(ls);
    lemma_sr_div_bound(u, bb, ls);
    vstd::arithmetic::div_mod::lemma_small_mod(u / p2(ls), p2((bb - ls) as nat));
    vstd::arithmetic::div_mod::lemma_small_mod(xu, p2(s));
    vstd::arithmetic::power2::lemma_pow2_adds(s, l);
    assert(p2(ls) == p2(s) * p2(l)) by { assert(s + l == ls); }
    let hi = u / p2(ls);
    assert(hi * p2(ls) + xu * p2(l) == (hi * p2(s) + xu) * p2(l)) by (nonlinear_arith)
        requires p2(ls) == p2(s) * p2(l);
    if ls == bb {
        lemma_sr_div_small(u, bb);
        assert(hi * p2(ls) == 0) by (nonlinear_arith) requires hi == 0;
    }
    if l == 0 {
        assert(u % p2(l) == 0);
        assert((xu % p2(s)) * p2(l) == xu) by (nonlinear_arith) requires xu % p2(s) == xu, p2(l) == 1;
    }
}

/// PIECE of two well-formed values: nothing is cut off by the reduction to the result width
pub proof fn lemma_sr_piece_bin(a: Bitvector, b: Bitvector)
    requires a.wf(), b.wf(), a.w@ + b.w@ <= MAXW(),
    ensures sr_bin(BinOpType::Piece, a, b) == bv(a.w@ + b.w@, a.u@ * p2(b.w@) + b.u@),
{
    lemma_piece(a, b);
    vstd::arithmetic::div_mod::lemma_small_mod(a.u@ * p2(b.w@) + b.u@, p2(a.w@ + b.w@));
}

/// the two SUBPIECEs of the base register that the assignment expression keeps
pub proof fn lemma_sr_piece_parts(t: SrTable, env: SrEnv, base: RegisterProperties, low: nat, size: nat)
    requires low + size <= base.size.0,
    ensures ({
        let base_var = Variable { name: base.register, size: base.size, is_temp: false };
        let old = sr_read(t, env, false, base_var);
        let e = Expression::Subpiece { low_byte: ByteSize(low as u64), size: ByteSize(size as u64), arg: Box::new(Expression::Var(base_var)) };
        &&& old.w@ == 8 * base.size.0 && old.u@ < p2((8 * base.size.0) as nat)
        &&& (base.size.0 <= MAXBYTES() ==> sr_eval(t, env, false, e) == bv((8 * size) as nat, (old.u@ / p2((8 * low) as nat)) % p2((8 * size) as nat)))
        &&& (base.size.0 <= MAXBYTES() && low == 0 ==> sr_eval(t, env, false, e) == bv((8 * size) as nat, old.u@ % p2((8 * size) as nat)))
    }),
{
    lemma_sr_div_one(sr_read(t, env, false, Variable { name: base.register, size: base.size, is_temp: false }).u@);
    let base_var = Variable { name: base.register, size: base.size, is_temp: false };
    let bb = (8 * base.size.0) as nat;
    lemma_p2_consts(); lemma_p2(bb);
    vstd::arithmetic::div_mod::lemma_mod_bound((env(base.register).u@ / p2(0)) as int, p2(bb) as int);
    reveal_with_fuel(sr_eval, 3);
}

pub proof fn lemma_sr_piece_value(t: SrTable, env: SrEnv, value: Expression, base: RegisterProperties, sub: RegisterProperties)
    requires sr_piece_pre(base, sub),
             sr_eval(t, env, false, value).wf(), sr_eval(t, env, false, value).w@ == 8 * sub.size.0,
    ensures sr_eval(t, env, false, sr_piece_expr(value, base, sub))
            == sr_insert(sr_read(t, env, false, Variable { name: base.register, size: base.size, is_temp: false }), sub.lsb.0 as nat, sub.size.0 as nat, sr_eval(t, env, false, value)),
{
    let base_var = Variable { name: base.register, size: base.size, is_temp: false };
    let x = sr_eval(t, env, false, value);
    let old = sr_read(t, env, false, base_var);
    let bb = (8 * base.size.0) as nat;
    let l = (8 * sub.lsb.0) as nat;
    let s = (8 * sub.size.0) as nat;
    let lsb = sub.lsb.0 as nat;
    let lss = (sub.lsb.0 + sub.size.0) as nat;
    let hs = (base.size.0 - lss) as nat;
    let u = old.u@;
    lemma_sr_piece_parts(t, env, base, 0, lsb);
    lemma_sr_piece_parts(t, env, base, lss, hs);
    lemma_sr_piece_arith(u, bb, l, s, x.u@);
    lemma_p2_consts();
    assert(8 * (lsb + sub.size.0 as nat) == l + s);
    let bvar = Box::new(Expression::Var(base_var));
    let low = Expression::Subpiece { low_byte: ByteSize(0), size: sub.lsb, arg: bvar };
    let high = Expression::Subpiece { low_byte: ByteSize((sub.lsb.0 + sub.size.0) as u64), size: ByteSize((base.size.0 - (sub.lsb.0 + sub.size.0)) as u64), arg: bvar };
    let lo_v = sr_eval(t, env, false, low);
    let hi_v = sr_eval(t, env, false, high);
    assert(lo_v == bv(l, u % p2(l)));
    assert(hi_v == bv((8 * hs) as nat, u / p2(l + s)));
    let ins = sr_insert(old, lsb, sub.size.0 as nat, x);
    assert(ins == bv(bb, (u / p2(l + s)) * p2(l + s) + (x.u@ % p2(s)) * p2(l) + u % p2(l)));
    lemma_p2(l); lemma_p2(s); lemma_p2((8 * hs) as nat);
    vstd::arithmetic::div_mod::lemma_mod_bound(u as int, p2(l) as int);
    lemma_sr_div_bound(u, bb, l + s);
    if sub.lsb.0 > 0 && sub.lsb.0 + sub.size.0 == base.size.0 {
        let r = Expression::BinOp { op: BinOpType::Piece, lhs: Box::new(value), rhs: Box::new(low) };
        lemma_sr_piece_bin(x, lo_v);
        assert(sr_eval(t, env, false, r) == sr_bin(BinOpType::Piece, x, lo_v));
        assert(sr_eval(t, env, false, r) == ins);
    } else if sub.lsb.0 > 0 {
        let inner = Expression::BinOp { op: BinOpType::Piece, lhs: Box::new(high), rhs: Box::new(value) };
        let r = Expression::BinOp { op: BinOpType::Piece, lhs: Box::new(inner), rhs: Box::new(low) };
        lemma_sr_piece_bin(hi_v, x);
        lemma_piece(hi_v, x);
        lemma_sr_piece_bin(sr_bin(BinOpType::Piece, hi_v, x), lo_v);
        assert(sr_eval(t, env, false, inner) == sr_bin(BinOpType::Piece, hi_v, x));
        assert(sr_eval(t, env, false, r) == sr_bin(BinOpType::Piece, sr_eval(t, env, false, inner), lo_v));
        assert(sr_eval(t, env, false, r) == ins);
    } else {
        let r = Expression::BinOp { op: BinOpType::Piece, lhs: Box::new(high), rhs: Box::new(value) };
        lemma_sr_piece_bin(hi_v, x);
        assert(sr_eval(t, env, false, r) == sr_bin(BinOpType::Piece, hi_v, x));
        assert(sr_eval(t, env, false, r) == ins);
    }
}

pub proof fn lemma_sr_piece_expr(t: SrTable, value: Expression, base: RegisterProperties, sub: RegisterProperties)
    requires sr_piece_pre(base, sub), expr_bytes(value) == sub.size.0,
    ensures sr_pieced(t, value, base, sub, sr_piece_expr(value, base, sub)),
{
    let r = sr_piece_expr(value, base, sub);
    let base_var = Variable { name: base.register, size: base.size, is_temp: false };
    assert forall |env: SrEnv| ({
            let x = sr_eval(t, env, false, value);
            x.wf() && x.w@ == 8 * sub.size.0 ==>
                #[trigger] sr_eval(t, env, false, r) == sr_insert(sr_read(t, env, false, base_var), sub.lsb.0 as nat, sub.size.0 as nat, x)
        }) by {
        let x = sr_eval(t, env, false, value);
        if x.wf() && x.w@ == 8 * sub.size.0 { lemma_sr_piece_value(t, env, value, base, sub); }
    }
    reveal_with_fuel(expr_bytes, 4);
    reveal_with_fuel(sr_occurs, 4);
    reveal_with_fuel(sr_sized, 4);
}

// ---- facts about evaluation ---------------------------------------------------------------------------------------------

pub proof fn lemma_sr_occurs_sub(e: Expression)
    ensures match e {
        Expression::BinOp { op, lhs, rhs } => (forall |v: Variable| #![trigger sr_occurs(*lhs, v)] sr_occurs(*lhs, v) ==> sr_occurs(e, v))
                                           && (forall |v: Variable| #![trigger sr_occurs(*rhs, v)] sr_occurs(*rhs, v) ==> sr_occurs(e, v)),
        Expression::UnOp { op, arg } => forall |v: Variable| #![trigger sr_occurs(*arg, v)] sr_occurs(*arg, v) ==> sr_occurs(e, v),
        Expression::Cast { op, size, arg } => forall |v: Variable| #![trigger sr_occurs(*arg, v)] sr_occurs(*arg, v) ==> sr_occurs(e, v),
        Expression::Subpiece { low_byte, size, arg } => forall |v: Variable| #![trigger sr_occurs(*arg, v)] sr_occurs(*arg, v) ==> sr_occurs(e, v),
        _ => true,
    },
{
}

/// an expression over base registers at full size and names outside the table reads the same in both readings
pub proof fn lemma_sr_eval_plain(t: SrTable, env: SrEnv, e: Expression)
    requires sr_table_ok(t), sr_plain_expr(t, e),
    ensures sr_eval(t, env, true, e) == sr_eval(t, env, false, e),
    decreases e
{
    lemma_sr_occurs_sub(e);
    match e {
        Expression::Var(v) => {
            assert(sr_occurs(e, v));
            assert(sr_plain_var(t, v));
            if t.contains_key(&v.name) { assert(t.contains_key(&sr_base(t, v.name))); }
        }
        Expression::Const(c) => {}
        Expression::BinOp { op, lhs, rhs } => { lemma_sr_eval_plain(t, env, *lhs); lemma_sr_eval_plain(t, env, *rhs); }
        Expression::UnOp { op, arg } => { lemma_sr_eval_plain(t, env, *arg); }
        Expression::Cast { op, size, arg } => { lemma_sr_eval_plain(t, env, *arg); }
        Expression::Unknown { description, size } => {}
        Expression::Subpiece { low_byte, size, arg } => { lemma_sr_eval_plain(t, env, *arg); }
    }
}

/// the value of an expression depends on the cells it reads only
pub proof fn lemma_sr_eval_agree(t: SrTable, env1: SrEnv, env2: SrEnv, alias: bool, e: Expression, tmp: String)
    requires sr_table_ok(t), !t.contains_key(&tmp), sr_avoids(e, tmp),
             forall |n: String| n != tmp ==> #[trigger] env1(n) == env2(n),
    ensures sr_eval(t, env1, alias, e) == sr_eval(t, env2, alias, e),
    decreases e
{
    lemma_sr_occurs_sub(e);
    match e {
        Expression::Var(v) => {
            assert(sr_occurs(e, v));
            let c = sr_cell(t, alias, v);
            if alias && t.contains_key(&v.name) { assert(t.contains_key(&sr_base(t, v.name))); }
            assert(c != tmp);
            assert(env1(c) == env2(c));
        }
        Expression::Const(c) => {}
        Expression::BinOp { op, lhs, rhs } => { lemma_sr_eval_agree(t, env1, env2, alias, *lhs, tmp); lemma_sr_eval_agree(t, env1, env2, alias, *rhs, tmp); }
        Expression::UnOp { op, arg } => { lemma_sr_eval_agree(t, env1, env2, alias, *arg, tmp); }
        Expression::Cast { op, size, arg } => { lemma_sr_eval_agree(t, env1, env2, alias, *arg, tmp); }
        Expression::Unknown { description, size } => {}
        Expression::Subpiece { low_byte, size, arg } => { lemma_sr_eval_agree(t, env1, env2, alias, *arg, tmp); }
    }
}

pub proof fn lemma_sr_bin_sized(op: BinOpType, a: Bitvector, b: Bitvector)
    requires (op is BoolXOr || op is BoolAnd || op is BoolOr) ==> a.w@ == 8,
    ensures sr_bin(op, a, b).w@ == out_bits(op, a.w@, b.w@), sr_bin(op, a, b).u@ < p2(sr_bin(op, a, b).w@),
{
    let w = out_bits(op, a.w@, b.w@);
    lemma_p2(w);
    match pcode_bin(op, a, b) {
        Some(x) => {
            assert(x.w@ == w);
            vstd::arithmetic::div_mod::lemma_mod_bound(x.u@ as int, p2(w) as int);
        }
        None => { vstd::arithmetic::div_mod::lemma_mod_bound(sr_junk_bin(op, a, b) as int, p2(w) as int); }
    }
}
pub proof fn lemma_sr_un_sized(op: UnOpType, a: Bitvector)
    ensures sr_un(op, a).w@ == sr_un_bits(op, a.w@), sr_un(op, a).u@ < p2(sr_un(op, a).w@),
{
    let w = sr_un_bits(op, a.w@);
    lemma_p2(w);
    match pcode_un(op, a) {
        Some(x) => { assert(x.w@ == w); vstd::arithmetic::div_mod::lemma_mod_bound(x.u@ as int, p2(w) as int); }
        None => { vstd::arithmetic::div_mod::lemma_mod_bound(sr_junk_un(op, a) as int, p2(w) as int); }
    }
}
pub proof fn lemma_sr_cast_sized(op: CastOpType, a: Bitvector, w: nat)
    ensures sr_cast(op, a, w).w@ == w, sr_cast(op, a, w).u@ < p2(w),
{
    lemma_p2(w);
    match pcode_cast(op, a, w) {
        Some(x) => { assert(x.w@ == w); vstd::arithmetic::div_mod::lemma_mod_bound(x.u@ as int, p2(w) as int); }
        None => { vstd::arithmetic::div_mod::lemma_mod_bound(sr_junk_cast(op, a, w) as int, p2(w) as int); }
    }
}

/// a well-sized expression evaluates to a well-formed value of expr_bytes bytes
pub proof fn lemma_sr_eval_sized(t: SrTable, env: SrEnv, alias: bool, e: Expression)
    requires sr_sized(e),
    ensures sr_eval(t, env, alias, e).wf(), sr_eval(t, env, alias, e).w@ == 8 * expr_bytes(e), 1 <= expr_bytes(e) <= MAXBYTES(),
    decreases e
{
    match e {
        Expression::Var(v) => {
            lemma_p2((8 * v.size.0) as nat);
            vstd::arithmetic::div_mod::lemma_mod_bound((env(sr_cell(t, alias, v)).u@ / p2(8 * sr_off(t, alias, v))) as int, p2((8 * v.size.0) as nat) as int);
        }
        Expression::Const(c) => {}
        Expression::BinOp { op, lhs, rhs } => {
            lemma_sr_eval_sized(t, env, alias, *lhs); lemma_sr_eval_sized(t, env, alias, *rhs);
            lemma_sr_bin_sized(op, sr_eval(t, env, alias, *lhs), sr_eval(t, env, alias, *rhs));
        }
        Expression::UnOp { op, arg } => {
            lemma_sr_eval_sized(t, env, alias, *arg);
            lemma_sr_un_sized(op, sr_eval(t, env, alias, *arg));
        }
        Expression::Cast { op, size, arg } => {
            lemma_sr_cast_sized(op, sr_eval(t, env, alias, *arg), (8 * size.0) as nat);
        }
        Expression::Unknown { description, size } => {
            let w = (8 * size.0) as nat;
            lemma_p2(w);
            vstd::arithmetic::div_mod::lemma_mod_bound(sr_junk_unknown(description, w) as int, p2(w) as int);
        }
        Expression::Subpiece { low_byte, size, arg } => {
            lemma_sr_eval_sized(t, env, alias, *arg);
            let a = sr_eval(t, env, alias, *arg);
            let w = (8 * size.0) as nat;
            lemma_p2(w);
            vstd::arithmetic::div_mod::lemma_mod_bound((a.u@ / p2((8 * low_byte.0) as nat)) as int, p2(w) as int);
        }
    }
}

// ---- facts about sr_insert ------------------------------------------------------------------------------------------------

pub open spec fn sr_insert_u(u: nat, l: nat, s: nat, xu: nat) -> nat {
    (u / p2(l + s)) * p2(l + s) + (xu % p2(s)) * p2(l) + u % p2(l)
}

pub proof fn lemma_sr_insert_arith(u: nat, w: nat, l: nat, s: nat, xu: nat)
    requires u < p2(w), l + s <= w,
    ensures
        sr_insert_u(u, l, s, xu) < p2(w),
        (sr_insert_u(u, l, s, xu) / p2(l)) % p2(s) == xu % p2(s),
        (l == 0 && s == w) ==> sr_insert_u(u, l, s, xu) == xu % p2(s),
{
    let ls = l + s;
    let hi = u / p2(ls); let xs = xu % p2(s); let lo = u % p2(l);
    lemma_p2(w); lemma_p2(l); lemma_p2(s); lemma_p2(ls); lemma_p2((w - ls) as nat);
    lemma_p2_consts();
    vstd::arithmetic::power2::lemma_pow2_adds(s, l);
    assert(p2(ls) == p2(s) * p2(l)) by { assert(s + l == ls); }
    lemma_p2_mono(ls, w);
    assert(p2(w) == p2(ls) * p2((w - ls) as nat));
    lemma_sr_div_bound(u, w, ls);
    vstd::arithmetic::div_mod::lemma_mod_bound(xu as int, p2(s) as int);
    vstd::arithmetic::div_mod::lemma_mod_bound(u as int, p2(l) as int);
    let pl = p2(l) as int; let ps = p2(s) as int; let pls = p2(ls) as int; let pd = p2((w - ls) as nat) as int;
    // bound
    assert((hi as int) * pls + (xs as int) * pl + (lo as int) < pls * pd) by (nonlinear_arith)
        requires 0 <= hi < pd, 0 <= xs < ps, 0 <= lo < pl, pls == ps * pl, pl > 0, ps > 0;
    // reading the field back
    let i = sr_insert_u(u, l, s, xu);
    let q = (hi as int) * ps + (xs as int);
    assert(i as int == q * pl + (lo as int)) by (nonlinear_arith)
        requires i as int == (hi as int) * pls + (xs as int) * pl + (lo as int), pls == ps * pl, q == (hi as int) * ps + (xs as int);
    assert(0 <= (lo as int) < pl && pl != 0);
    vstd::arithmetic::div_mod::lemma_fundamental_div_mod_converse(i as int, pl, q, lo as int);
    assert((i as int) / pl == q);
    assert(q == ps * (hi as int) + (xs as int)) by (nonlinear_arith) requires q == (hi as int) * ps + (xs as int);
    vstd::arithmetic::div_mod::lemma_mod_multiples_vanish(hi as int, xs as int, ps);
    vstd::arithmetic::div_mod::lemma_small_mod(xs, p2(s));
    if l == 0 && s == w {
        lemma_sr_div_small(u, w);
        assert(hi == 0);
        assert(lo == 0);
        assert(i as int == xs as int) by (nonlinear_arith)
            requires i as int == (hi as int) * pls + (xs as int) * pl + (lo as int), hi == 0, lo == 0, pl == 1;
    }
}

/// replacing bytes inside a well-formed value gives a well-formed value of the same width; reading the bytes back gives the
/// written value; replacing ALL bytes gives the written value
pub proof fn lemma_sr_insert(old: Bitvector, lsb: nat, size: nat, x: Bitvector)
    requires old.wf(), 8 * (lsb + size) <= old.w@,
    ensures
        sr_insert(old, lsb, size, x).wf(), sr_insert(old, lsb, size, x).w@ == old.w@,
        pcode_subpiece(sr_insert(old, lsb, size, x), 8 * lsb, 8 * size) == sr_fit(x, size),
        (lsb == 0 && 8 * size == old.w@) ==> sr_insert(old, lsb, size, x) == sr_fit(x, size),
{
    lemma_sr_insert_arith(old.u@, old.w@, 8 * lsb, 8 * size, x.u@);
    assert(8 * (lsb + size) == 8 * lsb + 8 * size);
    assert(sr_insert(old, lsb, size, x).u@ == sr_insert_u(old.u@, 8 * lsb, 8 * size, x.u@));
}

// ---- runs -------------------------------------------------------------------------------------------------------------------

pub proof fn lemma_sr_run_prefix(t: SrTable, alias: bool, a: Seq<Term<Def>>, b: Seq<Term<Def>>, n: int, s: SrState)
    requires 0 <= n <= a.len(), n <= b.len(), forall |i: int| 0 <= i < n ==> #[trigger] a[i] == b[i],
    ensures sr_run(t, alias, a, 0, n, s) == sr_run(t, alias, b, 0, n, s),
    decreases n
{
    if n > 0 {
        lemma_sr_run_prefix(t, alias, a, b, n - 1, s);
        assert(a[n - 1] == b[n - 1]);
    }
}

// ---- simulation: the reference output executed plainly == the input def(s) executed with aliasing ---------------------------

pub proof fn lemma_sr_fit(x: Bitvector, n: nat, old: Bitvector, l: nat)
    requires 1 <= n <= MAXBYTES(),
    ensures
        sr_fit(x, n).wf(), sr_fit(x, n).w@ == 8 * n,
        x.wf() && x.w@ == 8 * n ==> sr_fit(x, n) == x,
        pcode_subpiece(sr_fit(x, n), 0, 8 * n) == sr_fit(x, n),
        sr_fit(sr_fit(x, n), n) == sr_fit(x, n),
        sr_insert(old, l, n, sr_fit(x, n)) == sr_insert(old, l, n, x),
{
    let w = 8 * n;
    lemma_p2(w);
    vstd::arithmetic::div_mod::lemma_mod_bound(x.u@ as int, p2(w) as int);
    let f = x.u@ % p2(w);
    vstd::arithmetic::div_mod::lemma_small_mod(f, p2(w));
    lemma_sr_div_one(f);
    if x.wf() && x.w@ == w { vstd::arithmetic::div_mod::lemma_small_mod(x.u@, p2(w)); }
}

/// the base register read plainly is the content of its cell (when the cell has the register's size)
pub proof fn lemma_sr_read_base(t: SrTable, env: SrEnv, b: String)
    requires sr_table_ok(t), sr_env_ok(t, env), t.contains_key(&b), (*t[&b]).base_register == b,
    ensures sr_read(t, env, false, Variable { name: b, size: (*t[&b]).size, is_temp: false }) == env(b),
            env(b).wf(), env(b).w@ == 8 * (*t[&b]).size.0,
{
    let u = env(b).u@;
    lemma_sr_div_one(u);
    vstd::arithmetic::div_mod::lemma_small_mod(u, p2(env(b).w@));
}

/// a plain expression that avoids the temporary has the same value on both sides of the simulation
pub proof fn lemma_sr_value_same(t: SrTable, tmp: String, e: Expression, p: SrState, a: SrState)
    requires sr_table_ok(t), !t.contains_key(&tmp), sr_plain_expr(t, e), sr_avoids(e, tmp), sr_sim(tmp, p, a),
    ensures sr_eval(t, p.env, false, e) == sr_eval(t, a.env, true, e),
            sr_eval(t, p.env, false, e) == sr_eval(t, a.env, false, e),
{
    lemma_sr_eval_plain(t, a.env, e);
    lemma_sr_eval_agree(t, p.env, a.env, false, e, tmp);
}

/// writing a variable that is no sub-register: same effect in both readings
pub proof fn lemma_sr_write_keep(t: SrTable, tmp: String, var: Variable, x: Bitvector, p: SrState, a: SrState)
    requires sr_table_ok(t), !t.contains_key(&tmp), sr_sim(tmp, p, a), sr_env_ok(t, a.env),
             sr_outvar_ok(t, var), var.name != tmp, !sr_needs(t, var),
             t.contains_key(&var.name) ==> 1 <= var.size.0 <= MAXBYTES(),
    ensures
        sr_sim(tmp, SrState { env: sr_write(t, p.env, false, var, x), ..p }, SrState { env: sr_write(t, a.env, true, var, x), ..a }),
        sr_env_ok(t, sr_write(t, a.env, true, var, x)),
        sr_plain_var(t, var),
{
    let pe = sr_write(t, p.env, false, var, x);
    let ae = sr_write(t, a.env, true, var, x);
    if t.contains_key(&var.name) {
        let b = var.name;
        assert(sr_base(t, var.name) == b);
        assert(t.contains_key(&sr_base(t, var.name)));
        lemma_sr_read_base(t, a.env, b);
        lemma_sr_insert((a.env)(b), 0, var.size.0 as nat, x);
        lemma_sr_fit(x, var.size.0 as nat, (a.env)(b), 0);
        assert(ae(b) == sr_fit(x, var.size.0 as nat));
        assert forall |n: String| n != tmp implies #[trigger] pe(n) == ae(n) by {}
        assert forall |n: String| #[trigger] t.contains_key(&n) && (*t[&n]).base_register == n implies ae(n).wf() && ae(n).w@ == 8 * (*t[&n]).size.0 by {}
    } else {
        assert forall |n: String| n != tmp implies #[trigger] pe(n) == ae(n) by {}
        assert forall |n: String| #[trigger] t.contains_key(&n) && (*t[&n]).base_register == n implies ae(n).wf() && ae(n).w@ == 8 * (*t[&n]).size.0 by {}
    }
}

/// a def that writes no sub-register and has plain inputs is kept: same effect
pub proof fn lemma_sr_sim_keep(t: SrTable, tmp: String, d: Def, p: SrState, a: SrState)
    requires sr_table_ok(t), !t.contains_key(&tmp), sr_sim(tmp, p, a), sr_env_ok(t, a.env),
             sr_def_ok(t, tmp, d), sr_def_inputs_plain(t, d), !sr_writes_sub(t, d),
    ensures
        sr_sim(tmp, sr_step(t, false, d, p), sr_step(t, true, d, a)),
        sr_env_ok(t, sr_step(t, true, d, a).env),
        sr_def_plain(t, d),
{
    match d {
        Def::Assign { var, value } => {
            lemma_sr_value_same(t, tmp, value, p, a);
            if t.contains_key(&var.name) { assert(t.contains_key(&sr_base(t, var.name))); }
            lemma_sr_write_keep(t, tmp, var, sr_eval(t, p.env, false, value), p, a);
        }
        Def::Load { var, address } => {
            lemma_sr_value_same(t, tmp, address, p, a);
            if t.contains_key(&var.name) { assert(t.contains_key(&sr_base(t, var.name))); }
            lemma_sr_write_keep(t, tmp, var, sr_mem_load(p.mem, sr_eval(t, p.env, false, address), (8 * var.size.0) as nat), p, a);
        }
        Def::Store { address, value } => {
            lemma_sr_value_same(t, tmp, address, p, a);
            lemma_sr_value_same(t, tmp, value, p, a);
        }
    }
}

/// facts about a written sub-register and its base register
pub proof fn lemma_sr_sub_facts(t: SrTable, var: Variable)
    requires sr_table_ok(t), sr_outvar_ok(t, var), sr_needs(t, var),
    ensures
        t.contains_key(&sr_base(t, var.name)),
        sr_base_props(t, var.name).register == sr_base(t, var.name),
        sr_base_props(t, var.name).base_register == sr_base(t, var.name),
        sr_piece_pre(sr_base_props(t, var.name), sr_sub_props(t, var)),
        sr_sub_props(t, var).lsb.0 == sr_lsb(t, var.name), sr_sub_props(t, var).size == var.size,
        sr_base_props(t, var.name).size.0 == sr_base_size(t, var.name),
        8 * (sr_lsb(t, var.name) + var.size.0) <= 8 * sr_base_size(t, var.name),
{
    let b = sr_base(t, var.name);
    assert(t.contains_key(&b));
    assert((*t[&b]).register == b);
}

/// `sub = x` (x the value of a plain expression) as an assignment to the base register
pub proof fn lemma_sr_sim_piece(t: SrTable, tmp: String, var: Variable, value: Expression, pe: SrEnv, ae: SrEnv, x: Bitvector)
    requires sr_table_ok(t), !t.contains_key(&tmp), sr_env_ok(t, ae), sr_outvar_ok(t, var), sr_needs(t, var),
             forall |n: String| n != tmp ==> #[trigger] pe(n) == ae(n),
             expr_bytes(value) == var.size.0,
             sr_eval(t, pe, false, value) == x, x.wf(), x.w@ == 8 * var.size.0,
    ensures ({
        let d = sr_base_assign(t, var, value);
        let b = sr_base(t, var.name);
        let new_p = sr_write(t, pe, false, d->Assign_var, sr_eval(t, pe, false, d->Assign_value));
        let new_a = sr_write(t, ae, true, var, x);
        &&& forall |n: String| n != tmp ==> #[trigger] new_p(n) == new_a(n)
        &&& sr_env_ok(t, new_a)
        &&& new_p(tmp) == pe(tmp)
        &&& sr_plain_var(t, d->Assign_var)
        &&& (forall |v: Variable| #![trigger sr_occurs(d->Assign_value, v)] sr_occurs(d->Assign_value, v) ==> sr_occurs(value, v) || sr_plain_var(t, v))
    }),
{
    let d = sr_base_assign(t, var, value);
    let b = sr_base(t, var.name);
    let bp = sr_base_props(t, var.name);
    let sp = sr_sub_props(t, var);
    lemma_sr_sub_facts(t, var);
    lemma_sr_piece_expr(t, value, bp, sp);
    let r = sr_piece_expr(value, bp, sp);
    let base_var = Variable { name: bp.register, size: bp.size, is_temp: false };
    assert(d->Assign_var == base_var);
    assert(d->Assign_value == r);
    lemma_sr_read_base(t, ae, b);
    assert(b != tmp);
    assert(pe(b) == ae(b));
    // the base register read plainly from pe
    let u = pe(b).u@;
    lemma_sr_div_one(u);
    vstd::arithmetic::div_mod::lemma_small_mod(u, p2(pe(b).w@));
    assert(sr_read(t, pe, false, base_var) == pe(b));
    let ins = sr_insert(ae(b), sr_lsb(t, var.name), var.size.0 as nat, x);
    assert(sr_eval(t, pe, false, r) == ins);
    lemma_sr_insert(ae(b), sr_lsb(t, var.name), var.size.0 as nat, x);
    lemma_sr_fit(ins, bp.size.0 as nat, ae(b), 0);
    let new_p = sr_write(t, pe, false, base_var, ins);
    let new_a = sr_write(t, ae, true, var, x);
    assert(new_p(b) == ins);
    assert(new_a(b) == ins);
    assert forall |n: String| n != tmp implies #[trigger] new_p(n) == new_a(n) by {}
    assert forall |n: String| #[trigger] t.contains_key(&n) && (*t[&n]).base_register == n implies new_a(n).wf() && new_a(n).w@ == 8 * (*t[&n]).size.0 by {}
    assert(sr_plain_var(t, base_var));
}

/// `S = x; B = CAST(S)` (B the base register of S, written at full size) as the single assignment `B = CAST(xe)`, where the
/// plain value of `xe` is x
pub proof fn lemma_sr_sim_merge(t: SrTable, tmp: String, var: Variable, next: Def, xe: Expression, pe: SrEnv, ae: SrEnv, x: Bitvector)
    requires sr_table_ok(t), !t.contains_key(&tmp), sr_env_ok(t, ae), sr_outvar_ok(t, var), sr_needs(t, var),
             forall |n: String| n != tmp ==> #[trigger] pe(n) == ae(n),
             sr_eval(t, pe, false, xe) == x, x.wf(), x.w@ == 8 * var.size.0,
             sr_merge_ok(t, var, next),
    ensures ({
        let cv = next->Assign_var;
        let m = sr_def_subst(next, var, xe);
        let new_p = sr_write(t, pe, false, cv, sr_eval(t, pe, false, m->Assign_value));
        let a1 = sr_write(t, ae, true, var, x);
        let new_a = sr_write(t, a1, true, cv, sr_eval(t, a1, true, next->Assign_value));
        &&& m is Assign && m->Assign_var == cv
        &&& forall |n: String| n != tmp ==> #[trigger] new_p(n) == new_a(n)
        &&& sr_env_ok(t, new_a)
        &&& new_p(tmp) == pe(tmp)
        &&& sr_plain_var(t, cv)
        &&& (forall |v: Variable| #![trigger sr_occurs(m->Assign_value, v)] sr_occurs(m->Assign_value, v) ==> sr_occurs(xe, v))
    }),
{
    let cv = next->Assign_var;
    let b = sr_base(t, var.name);
    lemma_sr_sub_facts(t, var);
    assert(cv.name == b);
    assert((*t[&b]).base_register == b);
    let op = next->Assign_value->Cast_op;
    let csz = next->Assign_value->Cast_size;
    let m = sr_def_subst(next, var, xe);
    reveal_with_fuel(sr_subst1, 3);
    assert(next->Assign_value == Expression::Cast { op: op, size: csz, arg: next->Assign_value->Cast_arg });
    assert(m->Assign_value == Expression::Cast { op: op, size: csz, arg: Box::new(xe) });
    reveal_with_fuel(sr_occurs, 3);
    reveal_with_fuel(sr_eval, 3);
    // aliasing side: write the sub-register, read it back, cast, overwrite the base register
    lemma_sr_read_base(t, ae, b);
    let old = ae(b);
    let lsb = sr_lsb(t, var.name);
    let sz = var.size.0 as nat;
    let bsz = (*t[&b]).size.0 as nat;
    let ins = sr_insert(old, lsb, sz, x);
    lemma_sr_insert(old, lsb, sz, x);
    lemma_sr_fit(x, sz, old, lsb);
    let a1 = sr_write(t, ae, true, var, x);
    assert(a1(b) == ins);
    assert(sr_read(t, a1, true, var) == x);
    let y = sr_cast(op, x, (8 * csz.0) as nat);
    assert(sr_eval(t, a1, true, next->Assign_value) == y);
    assert(sr_base(t, cv.name) == b && sr_lsb(t, cv.name) == 0);
    lemma_sr_insert(ins, 0, bsz, y);
    lemma_sr_fit(y, bsz, ins, 0);
    let new_a = sr_write(t, a1, true, cv, y);
    assert(new_a(b) == sr_fit(y, bsz));
    // plain side
    assert(sr_eval(t, pe, false, m->Assign_value) == y);
    let new_p = sr_write(t, pe, false, cv, y);
    assert(new_p(b) == sr_fit(y, bsz));
    assert(b != tmp);
    assert forall |n: String| n != tmp implies #[trigger] new_p(n) == new_a(n) by {}
    assert forall |n: String| #[trigger] t.contains_key(&n) && (*t[&n]).base_register == n implies new_a(n).wf() && new_a(n).w@ == 8 * (*t[&n]).size.0 by {}
}

pub proof fn lemma_sr_run_terms_1(t: SrTable, alias: bool, x: Def, s: SrState)
    ensures sr_run_terms(t, alias, seq![x], s) == sr_step(t, alias, x, s),
{
    let ds = seq![x];
    assert(ds.last() == x);
    assert(ds.drop_last() =~= Seq::<Def>::empty());
    reveal_with_fuel(sr_run_terms, 3);
}
pub proof fn lemma_sr_run_terms_2(t: SrTable, alias: bool, x: Def, y: Def, s: SrState)
    ensures sr_run_terms(t, alias, seq![x, y], s) == sr_step(t, alias, y, sr_step(t, alias, x, s)),
{
    let ds = seq![x, y];
    assert(ds.last() == y);
    assert(ds.drop_last() =~= seq![x]);
    lemma_sr_run_terms_1(t, alias, x, s);
    reveal_with_fuel(sr_run_terms, 2);
}

/// what the aliasing side ends in after `d` (and the merged cast)
pub open spec fn sr_alias_after(t: SrTable, d: Def, merge: bool, next: Def, a: SrState) -> SrState {
    if sr_consumes(t, d, merge) { sr_step(t, true, next, sr_step(t, true, d, a)) } else { sr_step(t, true, d, a) }
}

pub open spec fn sr_merge_pre(t: SrTable, d: Def, merge: bool, next: Def) -> bool {
    merge ==> sr_writes_sub(t, d) && sr_merge_ok(t, sr_def_out(d)->Some_0, next)
}

/// THE SIMULATION STEP: the reference output for `d` executed plainly == `d` (and the merged cast) executed with aliasing
pub proof fn lemma_sr_out_sim(t: SrTable, tmp: String, d: Def, merge: bool, next: Def, p: SrState, a: SrState)
    requires sr_table_ok(t), !t.contains_key(&tmp), sr_sim(tmp, p, a), sr_env_ok(t, a.env),
             sr_def_ok(t, tmp, d), sr_def_inputs_plain(t, d), sr_merge_pre(t, d, merge, next),
    ensures ({
        let new = sr_out_terms(t, tmp, d, merge, next);
        let a2 = sr_alias_after(t, d, merge, next, a);
        &&& sr_sim(tmp, sr_run_terms(t, false, new, p), a2)
        &&& sr_env_ok(t, a2.env)
        &&& 1 <= new.len() <= 2
        &&& forall |i: int| 0 <= i < new.len() ==> sr_def_plain(t, #[trigger] new[i])
    }),
{
    let new = sr_out_terms(t, tmp, d, merge, next);
    if !sr_writes_sub(t, d) {
        assert(new =~= seq![d]);
        lemma_sr_run_terms_1(t, false, d, p);
        lemma_sr_sim_keep(t, tmp, d, p, a);
    } else {
        match d {
            Def::Assign { var, value } => {
                lemma_sr_value_same(t, tmp, value, p, a);
                let x = sr_eval(t, p.env, false, value);
                lemma_sr_eval_sized(t, p.env, false, value);
                if merge {
                    let m = sr_def_subst(next, var, value);
                    assert(new =~= seq![m]);
                    lemma_sr_run_terms_1(t, false, m, p);
                    lemma_sr_sim_merge(t, tmp, var, next, value, p.env, a.env, x);
                    assert(sr_plain_expr(t, m->Assign_value));
                    assert(sr_def_plain(t, m));
                } else {
                    let m = sr_base_assign(t, var, value);
                    assert(new =~= seq![m]);
                    lemma_sr_run_terms_1(t, false, m, p);
                    lemma_sr_sim_piece(t, tmp, var, value, p.env, a.env, x);
                    assert(sr_plain_expr(t, m->Assign_value));
                    assert(sr_def_plain(t, m));
                }
            }
            Def::Load { var, address } => {
                lemma_sr_value_same(t, tmp, address, p, a);
                lemma_sr_sub_facts(t, var);
                let tv = sr_tmp_var(tmp, var.size);
                let ld = Def::Load { var: tv, address: address };
                let sz = var.size.0 as nat;
                let loaded = sr_mem_load(p.mem, sr_eval(t, p.env, false, address), (8 * var.size.0) as nat);
                let p1 = sr_step(t, false, ld, p);
                assert(p1.env == sr_upd(p.env, tmp, sr_fit(loaded, sz)));
                let x = sr_fit(loaded, sz);
                lemma_sr_fit(loaded, sz, (a.env)(sr_base(t, var.name)), sr_lsb(t, var.name));
                let xe = Expression::Var(tv);
                assert(sr_eval(t, p1.env, false, xe) == x);
                assert forall |n: String| n != tmp implies #[trigger] (p1.env)(n) == (a.env)(n) by {}
                // the aliasing side writes `loaded`; writing its low bytes is the same write
                assert(sr_write(t, a.env, true, var, loaded) == sr_write(t, a.env, true, var, x));
                assert(sr_plain_var(t, tv));
                assert(sr_def_plain(t, ld));
                reveal_with_fuel(sr_occurs, 2);
                if merge {
                    let m = sr_def_subst(next, var, xe);
                    assert(new =~= seq![ld, m]);
                    lemma_sr_run_terms_2(t, false, ld, m, p);
                    lemma_sr_sim_merge(t, tmp, var, next, xe, p1.env, a.env, x);
                    assert(sr_plain_expr(t, m->Assign_value));
                    assert(sr_def_plain(t, m));
                } else {
                    let m = sr_base_assign(t, var, xe);
                    assert(new =~= seq![ld, m]);
                    lemma_sr_run_terms_2(t, false, ld, m, p);
                    lemma_sr_sim_piece(t, tmp, var, xe, p1.env, a.env, x);
                    assert(sr_plain_expr(t, m->Assign_value));
                    assert(sr_def_plain(t, m));
                }
            }
            Def::Store { address, value } => {}
        }
    }
}

/// a plain expression fits
pub proof fn lemma_sr_plain_fits(t: SrTable, e: Expression)
    requires sr_table_ok(t), sr_plain_expr(t, e),
    ensures sr_expr_fits(t, e),
{
    assert forall |v: Variable| #![trigger sr_occurs(e, v)] sr_occurs(e, v) implies sr_var_fits(t, v) by {
        assert(sr_plain_var(t, v));
        if t.contains_key(&v.name) { assert(t.contains_key(&sr_base(t, v.name))); }
    }
}
pub proof fn lemma_sr_replaced_avoids(t: SrTable, tmp: String, e0: Expression, e1: Expression)
    requires sr_table_ok(t), !t.contains_key(&tmp), sr_inputs_replaced(t, e0, e1), sr_avoids(e0, tmp),
    ensures sr_avoids(e1, tmp), sr_expr_fits(t, e1), sr_plain_expr(t, e1),
{
    lemma_sr_plain_fits(t, e1);
    assert forall |v: Variable| #![trigger sr_occurs(e1, v)] sr_occurs(e1, v) implies v.name != tmp by {
        if sr_occurs(e0, v) { } else { assert(t.contains_key(&v.name)); }
    }
}

/// the def with its inputs replaced: still well-formed, plain inputs, and the same step in the aliasing reading
pub proof fn lemma_sr_def_mid(t: SrTable, tmp: String, d0: Def, d1: Def)
    requires sr_table_ok(t), !t.contains_key(&tmp), sr_def_ok(t, tmp, d0), sr_def_inputs_replaced(t, d0, d1),
    ensures sr_def_ok(t, tmp, d1), sr_def_inputs_plain(t, d1), sr_def_out(d1) == sr_def_out(d0),
            forall |a: SrState| #[trigger] sr_step(t, true, d1, a) == sr_step(t, true, d0, a),
{
    match d0 {
        Def::Assign { var, value } => {
            let v1 = d1->Assign_value;
            lemma_sr_replaced_avoids(t, tmp, value, v1);
            assert forall |a: SrState| #[trigger] sr_step(t, true, d1, a) == sr_step(t, true, d0, a) by {
                lemma_sr_eval_plain(t, a.env, v1);
                assert(sr_eval(t, a.env, false, v1) == sr_eval(t, a.env, true, value));
            }
        }
        Def::Load { var, address } => {
            let v1 = d1->Load_address;
            lemma_sr_replaced_avoids(t, tmp, address, v1);
            assert forall |a: SrState| #[trigger] sr_step(t, true, d1, a) == sr_step(t, true, d0, a) by {
                lemma_sr_eval_plain(t, a.env, v1);
                assert(sr_eval(t, a.env, false, v1) == sr_eval(t, a.env, true, address));
            }
        }
        Def::Store { address, value } => {
            let a1 = d1->Store_address; let v1 = d1->Store_value;
            lemma_sr_replaced_avoids(t, tmp, address, a1);
            lemma_sr_replaced_avoids(t, tmp, value, v1);
            assert forall |a: SrState| #[trigger] sr_step(t, true, d1, a) == sr_step(t, true, d0, a) by {
                lemma_sr_eval_plain(t, a.env, a1); lemma_sr_eval_plain(t, a.env, v1);
                assert(sr_eval(t, a.env, false, a1) == sr_eval(t, a.env, true, address));
                assert(sr_eval(t, a.env, false, v1) == sr_eval(t, a.env, true, value));
            }
        }
    }
}

/// the reference output is plain (state-free form of the last clause of lemma_sr_out_sim)
pub proof fn lemma_sr_out_sim_plain(t: SrTable, tmp: String, d: Def, merge: bool, next: Def)
    requires sr_table_ok(t), !t.contains_key(&tmp), sr_def_ok(t, tmp, d), sr_def_inputs_plain(t, d), sr_merge_pre(t, d, merge, next),
    ensures ({
        let new = sr_out_terms(t, tmp, d, merge, next);
        &&& 1 <= new.len() <= 2
        &&& forall |i: int| 0 <= i < new.len() ==> sr_def_plain(t, #[trigger] new[i])
    }),
{
    // any pair of simulating states with well-sized base register cells will do
    let env0: SrEnv = |n: String| if t.contains_key(&n) { bv((8 * (*t[&n]).size.0) as nat, 0) } else { bv(8, 0) };
    let s0 = SrState { env: env0, mem: arbitrary(), writes: Seq::empty() };
    assert forall |n: String| #[trigger] t.contains_key(&n) && (*t[&n]).base_register == n implies env0(n).wf() && env0(n).w@ == 8 * (*t[&n]).size.0 by {
        lemma_p2((8 * (*t[&n]).size.0) as nat);
    }
    lemma_sr_out_sim(t, tmp, d, merge, next, s0, s0);
}

/// ONE ROUND OF THE BUILDER, for one start state
pub proof fn lemma_sr_inv_step_state(t: SrTable, tmp: String, defs: Seq<Term<Def>>, pos: int, out0: Seq<Term<Def>>, d1: Def, merge: bool,
                                     pos1: int, out1: Seq<Term<Def>>, s: SrState)
    requires sr_table_ok(t), sr_defs_ok(t, tmp, defs), 1 <= pos <= defs.len(),
             sr_inv(t, tmp, defs, pos - 1, out0),
             sr_def_inputs_replaced(t, defs[pos - 1].term, d1),
             sr_out_rel(t, tmp, d1, defs, pos, pos1, out0, out1, merge),
             sr_env_ok(t, s.env),
    ensures sr_sim(tmp, sr_run(t, false, out1, 0, out1.len() as int, s), sr_run(t, true, defs, 0, pos1, s)),
            sr_env_ok(t, sr_run(t, true, defs, 0, pos1, s).env),
{
    let d0 = defs[pos - 1].term;
    let next = defs[pos].term;
    lemma_sr_def_mid(t, tmp, d0, d1);
    let new = sr_out_terms(t, tmp, d1, merge, next);
    let n0 = out0.len() as int;
    assert(sr_writes_sub(t, d1) == sr_writes_sub(t, d0));
    if merge { assert(pos < defs.len()); }
    assert(sr_merge_pre(t, d1, merge, next));
    let p = sr_run(t, false, out0, 0, n0, s);
    let a = sr_run(t, true, defs, 0, pos - 1, s);
    assert(sr_sim(tmp, p, a) && sr_env_ok(t, a.env));
    lemma_sr_out_sim(t, tmp, d1, merge, next, p, a);
    // aliasing side
    assert(sr_run(t, true, defs, 0, pos, s) == sr_step(t, true, d0, a));
    assert(sr_step(t, true, d1, a) == sr_step(t, true, d0, a));
    if sr_consumes(t, d1, merge) {
        assert(sr_run(t, true, defs, 0, pos + 1, s) == sr_step(t, true, next, sr_run(t, true, defs, 0, pos, s)));
    }
    assert(sr_run(t, true, defs, 0, pos1, s) == sr_alias_after(t, d1, merge, next, a));
    // plain side
    lemma_sr_run_prefix(t, false, out1, out0, n0, s);
    assert(sr_run(t, false, out1, 0, n0, s) == p);
    if new.len() == 1 {
        assert(new =~= seq![new[0]]);
        lemma_sr_run_terms_1(t, false, new[0], p);
        assert(out1[n0 + 0].term == new[0]);
        assert(sr_run(t, false, out1, 0, n0 + 1, s) == sr_step(t, false, out1[n0].term, sr_run(t, false, out1, 0, n0, s)));
    } else {
        assert(new =~= seq![new[0], new[1]]);
        lemma_sr_run_terms_2(t, false, new[0], new[1], p);
        assert(out1[n0 + 0].term == new[0]);
        assert(out1[n0 + 1].term == new[1]);
        assert(sr_run(t, false, out1, 0, n0 + 1, s) == sr_step(t, false, out1[n0].term, sr_run(t, false, out1, 0, n0, s)));
        assert(sr_run(t, false, out1, 0, n0 + 2, s) == sr_step(t, false, out1[n0 + 1].term, sr_run(t, false, out1, 0, n0 + 1, s)));
    }
    assert(sr_run(t, false, out1, 0, out1.len() as int, s) == sr_run_terms(t, false, new, p));
}

/// ONE ROUND OF THE BUILDER keeps the claim: the def at pos-1 (inputs replaced: d1) handled by replace_output_subregister
pub proof fn lemma_sr_inv_step(t: SrTable, tmp: String, defs: Seq<Term<Def>>, pos: int, out0: Seq<Term<Def>>, d1: Def, merge: bool,
                               pos1: int, out1: Seq<Term<Def>>)
    requires sr_table_ok(t), sr_defs_ok(t, tmp, defs), 1 <= pos <= defs.len(),
             sr_inv(t, tmp, defs, pos - 1, out0),
             sr_def_inputs_replaced(t, defs[pos - 1].term, d1),
             sr_out_rel(t, tmp, d1, defs, pos, pos1, out0, out1, merge),
    ensures sr_inv(t, tmp, defs, pos1, out1),
{
    let d0 = defs[pos - 1].term;
    let next = defs[pos].term;
    let new = sr_out_terms(t, tmp, d1, merge, next);
    let n0 = out0.len() as int;
    assert forall |s: SrState| sr_env_ok(t, s.env) implies ({
            &&& sr_sim(tmp, #[trigger] sr_run(t, false, out1, 0, out1.len() as int, s), sr_run(t, true, defs, 0, pos1, s))
            &&& sr_env_ok(t, sr_run(t, true, defs, 0, pos1, s).env)
        }) by {
        lemma_sr_inv_step_state(t, tmp, defs, pos, out0, d1, merge, pos1, out1, s);
    }
    assert forall |i: int| 0 <= i < out1.len() implies sr_def_plain(t, (#[trigger] out1[i]).term) by {
        if i < n0 { assert(out1[i] == out0[i]); } else {
            lemma_sr_def_mid(t, tmp, d0, d1);
            lemma_sr_out_sim_plain(t, tmp, d1, merge, next);
            assert(out1[n0 + (i - n0)].term == new[i - n0]);
        }
    }
}

// ---- the property-level reading of sr_block_replaced (client lemma) ------------------------------------------------------------

/// PROPERTY C11, sub-register substitution of one block, spelled out: for EVERY start state (cells of the base registers of
/// the register's size, any memory), the block after the substitution, executed plainly, and the block before it, executed with
/// aliasing, end with
///   (1) the same content of every base register of the table,
///   (2) the same memory and the same sequence of memory writes (address, value),
///   (3) for every jump the same value of the condition / indirect target.
pub proof fn lemma_sr_block_claim(t: SrTable, old: Term<Blk>, new: Term<Blk>, s: SrState)
    requires sr_table_ok(t), sr_block_ok(t, old.term), sr_block_replaced(t, old, new), sr_env_ok(t, s.env),
    ensures ({
        let p = sr_run(t, false, new.term.defs@, 0, new.term.defs@.len() as int, s);
        let a = sr_run(t, true, old.term.defs@, 0, old.term.defs@.len() as int, s);
        &&& forall |b: String| #[trigger] t.contains_key(&b) ==> (p.env)(b) == (a.env)(b)
        &&& p.mem == a.mem && p.writes == a.writes
        &&& forall |i: int| 0 <= i < old.term.jmps@.len() && sr_jmp_expr((#[trigger] old.term.jmps@[i]).term) is Some ==>
                sr_jmp_expr(new.term.jmps@[i].term) is Some
                && sr_eval(t, p.env, false, sr_jmp_expr(new.term.jmps@[i].term)->Some_0) == sr_eval(t, a.env, true, sr_jmp_expr(old.term.jmps@[i].term)->Some_0)
    }),
{
    let tmp = sr_tmp();
    let p = sr_run(t, false, new.term.defs@, 0, new.term.defs@.len() as int, s);
    let a = sr_run(t, true, old.term.defs@, 0, old.term.defs@.len() as int, s);
    assert(sr_sim(tmp, p, a));
    assert forall |b: String| #[trigger] t.contains_key(&b) implies (p.env)(b) == (a.env)(b) by { assert(b != tmp); }
    assert forall |i: int| 0 <= i < old.term.jmps@.len() && sr_jmp_expr((#[trigger] old.term.jmps@[i]).term) is Some implies
                sr_jmp_expr(new.term.jmps@[i].term) is Some
                && sr_eval(t, p.env, false, sr_jmp_expr(new.term.jmps@[i].term)->Some_0) == sr_eval(t, a.env, true, sr_jmp_expr(old.term.jmps@[i].term)->Some_0) by {
        let e0 = sr_jmp_expr(old.term.jmps@[i].term)->Some_0;
        assert(sr_jump_replaced(t, old.term.jmps@[i].term, new.term.jmps@[i].term));
        let e1 = sr_jmp_expr(new.term.jmps@[i].term)->Some_0;
        assert(sr_eval(t, p.env, false, e1) == sr_eval(t, p.env, true, e0));
        lemma_sr_eval_agree(t, p.env, a.env, true, e0, tmp);
    }
}
