// ---------------------------------------------------------------------------
// lemmas/modsel.rs -- proved lemmas of unit `modsel` (property C22).  Nothing here is trusted.
// ---------------------------------------------------------------------------

/// the characters of the 19 known names, of the dangling kernel-module entry "CWE457" and of "" (a string literal is opaque
/// until revealed, and Z3 separates two literals only when the differing character is a TERM: hence the explicit list)
pub proof fn lemma_ms_reveal_names()
    ensures
        "CWE78"@.len() == 5 && "CWE78"@[0] == 'C' && "CWE78"@[1] == 'W' && "CWE78"@[2] == 'E' && "CWE78"@[3] == '7' && "CWE78"@[4] == '8',
        "CWE119"@.len() == 6 && "CWE119"@[0] == 'C' && "CWE119"@[1] == 'W' && "CWE119"@[2] == 'E' && "CWE119"@[3] == '1' && "CWE119"@[4] == '1' && "CWE119"@[5] == '9',
        "CWE134"@.len() == 6 && "CWE134"@[0] == 'C' && "CWE134"@[1] == 'W' && "CWE134"@[2] == 'E' && "CWE134"@[3] == '1' && "CWE134"@[4] == '3' && "CWE134"@[5] == '4',
        "CWE190"@.len() == 6 && "CWE190"@[0] == 'C' && "CWE190"@[1] == 'W' && "CWE190"@[2] == 'E' && "CWE190"@[3] == '1' && "CWE190"@[4] == '9' && "CWE190"@[5] == '0',
        "CWE215"@.len() == 6 && "CWE215"@[0] == 'C' && "CWE215"@[1] == 'W' && "CWE215"@[2] == 'E' && "CWE215"@[3] == '2' && "CWE215"@[4] == '1' && "CWE215"@[5] == '5',
        "CWE243"@.len() == 6 && "CWE243"@[0] == 'C' && "CWE243"@[1] == 'W' && "CWE243"@[2] == 'E' && "CWE243"@[3] == '2' && "CWE243"@[4] == '4' && "CWE243"@[5] == '3',
        "CWE252"@.len() == 6 && "CWE252"@[0] == 'C' && "CWE252"@[1] == 'W' && "CWE252"@[2] == 'E' && "CWE252"@[3] == '2' && "CWE252"@[4] == '5' && "CWE252"@[5] == '2',
        "CWE332"@.len() == 6 && "CWE332"@[0] == 'C' && "CWE332"@[1] == 'W' && "CWE332"@[2] == 'E' && "CWE332"@[3] == '3' && "CWE332"@[4] == '3' && "CWE332"@[5] == '2',
        "CWE337"@.len() == 6 && "CWE337"@[0] == 'C' && "CWE337"@[1] == 'W' && "CWE337"@[2] == 'E' && "CWE337"@[3] == '3' && "CWE337"@[4] == '3' && "CWE337"@[5] == '7',
        "CWE367"@.len() == 6 && "CWE367"@[0] == 'C' && "CWE367"@[1] == 'W' && "CWE367"@[2] == 'E' && "CWE367"@[3] == '3' && "CWE367"@[4] == '6' && "CWE367"@[5] == '7',
        "CWE416"@.len() == 6 && "CWE416"@[0] == 'C' && "CWE416"@[1] == 'W' && "CWE416"@[2] == 'E' && "CWE416"@[3] == '4' && "CWE416"@[4] == '1' && "CWE416"@[5] == '6',
        "CWE426"@.len() == 6 && "CWE426"@[0] == 'C' && "CWE426"@[1] == 'W' && "CWE426"@[2] == 'E' && "CWE426"@[3] == '4' && "CWE426"@[4] == '2' && "CWE426"@[5] == '6',
        "CWE467"@.len() == 6 && "CWE467"@[0] == 'C' && "CWE467"@[1] == 'W' && "CWE467"@[2] == 'E' && "CWE467"@[3] == '4' && "CWE467"@[4] == '6' && "CWE467"@[5] == '7',
        "CWE476"@.len() == 6 && "CWE476"@[0] == 'C' && "CWE476"@[1] == 'W' && "CWE476"@[2] == 'E' && "CWE476"@[3] == '4' && "CWE476"@[4] == '7' && "CWE476"@[5] == '6',
        "CWE560"@.len() == 6 && "CWE560"@[0] == 'C' && "CWE560"@[1] == 'W' && "CWE560"@[2] == 'E' && "CWE560"@[3] == '5' && "CWE560"@[4] == '6' && "CWE560"@[5] == '0',
        "CWE676"@.len() == 6 && "CWE676"@[0] == 'C' && "CWE676"@[1] == 'W' && "CWE676"@[2] == 'E' && "CWE676"@[3] == '6' && "CWE676"@[4] == '7' && "CWE676"@[5] == '6',
        "CWE782"@.len() == 6 && "CWE782"@[0] == 'C' && "CWE782"@[1] == 'W' && "CWE782"@[2] == 'E' && "CWE782"@[3] == '7' && "CWE782"@[4] == '8' && "CWE782"@[5] == '2',
        "CWE789"@.len() == 6 && "CWE789"@[0] == 'C' && "CWE789"@[1] == 'W' && "CWE789"@[2] == 'E' && "CWE789"@[3] == '7' && "CWE789"@[4] == '8' && "CWE789"@[5] == '9',
        "Memory"@.len() == 6 && "Memory"@[0] == 'M' && "Memory"@[1] == 'e' && "Memory"@[2] == 'm' && "Memory"@[3] == 'o' && "Memory"@[4] == 'r' && "Memory"@[5] == 'y',
        "CWE457"@.len() == 6 && "CWE457"@[0] == 'C' && "CWE457"@[1] == 'W' && "CWE457"@[2] == 'E' && "CWE457"@[3] == '4' && "CWE457"@[4] == '5' && "CWE457"@[5] == '7',
        ""@.len() == 0,
{
    reveal_strlit("CWE78"); reveal_strlit("CWE119"); reveal_strlit("CWE134"); reveal_strlit("CWE190"); reveal_strlit("CWE215");
    reveal_strlit("CWE243"); reveal_strlit("CWE252"); reveal_strlit("CWE332"); reveal_strlit("CWE337"); reveal_strlit("CWE367");
    reveal_strlit("CWE416"); reveal_strlit("CWE426"); reveal_strlit("CWE467"); reveal_strlit("CWE476"); reveal_strlit("CWE560");
    reveal_strlit("CWE676"); reveal_strlit("CWE782"); reveal_strlit("CWE789"); reveal_strlit("Memory"); reveal_strlit("CWE457");
    reveal_strlit("");
}

/// the known names as a set: 19 different texts
pub open spec fn ms_known_set() -> Set<Seq<char>> {
    set!["CWE78"@, "CWE119"@, "CWE134"@, "CWE190"@, "CWE215"@, "CWE243"@, "CWE252"@, "CWE332"@, "CWE337"@, "CWE367"@,
         "CWE416"@, "CWE426"@, "CWE467"@, "CWE476"@, "CWE560"@, "CWE676"@, "CWE782"@, "CWE789"@, "Memory"@]
}

pub proof fn lemma_ms_known_set()
    ensures
        ms_known_set().len() == 19,
        forall |p: Seq<char>| #[trigger] ms_known_set().contains(p) <==> ms_is_known(p),
{
    lemma_ms_reveal_names();
}

/// a sequence with as many entries as DIFFERENT entries has no entry twice (converse of vstd's lemma_no_dup_set_cardinality)
pub proof fn lemma_ms_card_no_dup<A>(s: Seq<A>)
    requires
        s.to_set().len() == s.len(),
    ensures
        s.no_duplicates(),
    decreases s.len(),
{
    if !s.no_duplicates() {
        let (i, j) = choose |i: int, j: int| 0 <= i < s.len() && 0 <= j < s.len() && i != j && s[i] == s[j];
        let t = s.remove(j);
        assert forall |x: A| t.to_set().contains(x) <==> s.to_set().contains(x) by {
            if s.to_set().contains(x) {
                let k = choose |k: int| 0 <= k < s.len() && s[k] == x;
                if k < j { assert(t[k] == x); }
                else if k > j { assert(t[k - 1] == x); }
                else { if i < j { assert(t[i] == x); } else { assert(t[i - 1] == x); } }
            }
            if t.to_set().contains(x) {
                let k = choose |k: int| 0 <= k < t.len() && t[k] == x;
                if k < j { assert(s[k] == x); } else { assert(s[k + 1] == x); }
            }
        }
        assert(t.to_set() =~= s.to_set());
        t.lemma_cardinality_of_set();
        assert(false);
    }
}

/// what the body of `get_modules` shows WITHOUT a case split: 19 entries, each carrying a known name (position by position,
/// in whatever order), and every known name carried by some entry
pub open spec fn ms_list19(ms: Seq<&CweModule>) -> bool {
    &&& ms.len() == 19
    &&& ms_is_known(ms[0].name@) && ms_is_known(ms[1].name@) && ms_is_known(ms[2].name@) && ms_is_known(ms[3].name@)
    &&& ms_is_known(ms[4].name@) && ms_is_known(ms[5].name@) && ms_is_known(ms[6].name@) && ms_is_known(ms[7].name@)
    &&& ms_is_known(ms[8].name@) && ms_is_known(ms[9].name@) && ms_is_known(ms[10].name@) && ms_is_known(ms[11].name@)
    &&& ms_is_known(ms[12].name@) && ms_is_known(ms[13].name@) && ms_is_known(ms[14].name@) && ms_is_known(ms[15].name@)
    &&& ms_is_known(ms[16].name@) && ms_is_known(ms[17].name@) && ms_is_known(ms[18].name@)
    &&& forall |p: Seq<char>| ms_is_known(p) ==> #[trigger] ms_has_name(ms, p)
}

/// "names every known check once": 19 entries with known names that cover the 19 known names carry pairwise different
/// names (counting argument: a list that is as long as its set of names has no name twice).  Independent of the ORDER.
pub proof fn lemma_ms_list19_once(ms: Seq<&CweModule>)
    requires
        ms_list19(ms),
    ensures
        ms_all_known_once(ms),
{
    assert forall |k: int| 0 <= k < 19 implies ms_is_known((#[trigger] ms[k]).name@) by {
        if k == 0 {} else if k == 1 {} else if k == 2 {} else if k == 3 {} else if k == 4 {} else if k == 5 {} else if k == 6 {}
        else if k == 7 {} else if k == 8 {} else if k == 9 {} else if k == 10 {} else if k == 11 {} else if k == 12 {}
        else if k == 13 {} else if k == 14 {} else if k == 15 {} else if k == 16 {} else if k == 17 {} else {}
    }
    assert forall |p: Seq<char>| #[trigger] ms_has_name(ms, p) <==> ms_is_known(p) by {
        if ms_has_name(ms, p) {
            let k = choose |k: int| 0 <= k < ms.len() && (#[trigger] ms[k]).name@ == p;
            assert(ms_is_known(ms[k].name@));
        }
    }
    lemma_ms_count_distinct(ms);
}

/// "names every known check once", the counting half: 19 entries whose names are exactly the 19 known names carry pairwise
/// different names.  (Independent of the ORDER of the list.)
pub proof fn lemma_ms_count_distinct(ms: Seq<&CweModule>)
    requires
        ms.len() == 19,
        forall |p: Seq<char>| #[trigger] ms_has_name(ms, p) <==> ms_is_known(p),
    ensures
        ms_names_distinct(ms),
{
    let names = Seq::new(ms.len(), |i: int| ms[i].name@);
    lemma_ms_known_set();
    assert forall |p: Seq<char>| names.to_set().contains(p) <==> ms_known_set().contains(p) by {
        if names.to_set().contains(p) {
            let k = choose |k: int| 0 <= k < names.len() && names[k] == p;
            assert(ms[k].name@ == p);
            assert(ms_has_name(ms, p));
        }
        if ms_known_set().contains(p) {
            assert(ms_has_name(ms, p));
            let k = choose |k: int| 0 <= k < ms.len() && (#[trigger] ms[k]).name@ == p;
            assert(names[k] == p);
        }
    }
    assert(names.to_set() =~= ms_known_set());
    lemma_ms_card_no_dup(names);
    assert forall |i: int, j: int| 0 <= i < j < ms.len() implies (#[trigger] ms[i]).name@ != (#[trigger] ms[j]).name@ by {
        assert(names[i] != names[j]);
    }
}

/// partial run, one step of the loop over the yielded pieces: piece `v[n]` names the module `m` (first of that name)
pub proof fn lemma_ms_partial_step_some(old: Seq<&CweModule>, out: Seq<&CweModule>, v: Seq<&str>, n: int, m: &CweModule)
    requires
        ms_partial_inv(old, out, v, n),
        0 <= n < v.len(),
        forall |i: int, j: int| 0 <= i < j < v.len() ==> (#[trigger] v[i])@ != (#[trigger] v[j])@,
        exists |i: int| ms_first_of_name(old, i) && *m == *#[trigger] old[i] && old[i].name@ == v[n]@,
    ensures
        ms_partial_inv(old, out.push(m), v, n + 1),
{
    let i0 = choose |i: int| ms_first_of_name(old, i) && *m == *#[trigger] old[i] && old[i].name@ == v[n]@;
    let out2 = out.push(m);
    assert forall |k: int| 0 <= k < out2.len() implies ms_selected_for(old, v, n + 1, #[trigger] out2[k]) by {
        if k < out.len() {
            assert(out2[k] == out[k]);
            let (i, j) = choose |i: int, j: int| ms_picked_for(old, v, n, out[k], i, j);
            assert(ms_picked_for(old, v, n + 1, out2[k], i, j));
        } else {
            assert(ms_picked_for(old, v, n + 1, out2[k], i0, n));
        }
    }
    assert forall |a: int, b: int| 0 <= a < b < out2.len() implies (#[trigger] out2[a]).name@ != (#[trigger] out2[b]).name@ by {
        if b < out.len() {
            assert(out2[a] == out[a] && out2[b] == out[b]);
        } else {
            assert(out2[a] == out[a]);
            let (i, j) = choose |i: int, j: int| ms_picked_for(old, v, n, out[a], i, j);
            assert(v[j]@ != v[n]@);
        }
    }
    assert forall |i: int, j: int| 0 <= i < old.len() && 0 <= j < n + 1 && (#[trigger] old[i]).name@ == (#[trigger] v[j])@
        implies ms_has_name(out2, old[i].name@) by {
        if j < n {
            assert(ms_has_name(out, old[i].name@));
            let k = choose |k: int| 0 <= k < out.len() && (#[trigger] out[k]).name@ == old[i].name@;
            assert(out2[k] == out[k]);
        } else {
            assert(out2[out.len() as int] == m);
        }
    }
    assert forall |j: int| 0 <= j < n + 1 && (#[trigger] v[j])@.len() > 0 implies ms_has_name(old, v[j]@) by {
        if j == n { assert(old[i0].name@ == v[n]@); }
    }
}

/// partial run, one step: the EMPTY piece `v[n]` names no module and is skipped
pub proof fn lemma_ms_partial_step_none(old: Seq<&CweModule>, out: Seq<&CweModule>, v: Seq<&str>, n: int)
    requires
        ms_partial_inv(old, out, v, n),
        0 <= n < v.len(),
        v[n]@.len() == 0,
        forall |i: int| 0 <= i < old.len() ==> (#[trigger] old[i]).name@ != v[n]@,
    ensures
        ms_partial_inv(old, out, v, n + 1),
{
    assert forall |k: int| 0 <= k < out.len() implies ms_selected_for(old, v, n + 1, #[trigger] out[k]) by {
        let (i, j) = choose |i: int, j: int| ms_picked_for(old, v, n, out[k], i, j);
        assert(ms_picked_for(old, v, n + 1, out[k], i, j));
    }
}

/// partial run, after the loop: the yielded pieces are exactly the comma-separated pieces of the parameter
pub proof fn lemma_ms_partial_finish(old: Seq<&CweModule>, out: Seq<&CweModule>, v: Seq<&str>, s: Seq<char>, texts: Set<Seq<char>>)
    requires
        ms_partial_inv(old, out, v, v.len() as int),
        forall |p: Seq<char>| #[trigger] texts.contains(p) <==> ms_is_piece(s, ',', p),
        forall |p: Seq<char>| #[trigger] texts.contains(p) <==> ms_yields(v, p),
    ensures
        ms_partial_post(old, out, s),
{
    assert forall |k: int| 0 <= k < out.len() implies ms_selected(old, s, #[trigger] out[k]) by {
        let (i, j) = choose |i: int, j: int| ms_picked_for(old, v, v.len() as int, out[k], i, j);
        assert(ms_yields(v, v[j]@));
        assert(texts.contains(old[i].name@));
        assert(ms_picked(old, s, out[k], i));
    }
    assert forall |i: int| 0 <= i < old.len() && ms_is_piece(s, ',', (#[trigger] old[i]).name@) implies ms_has_name(out, old[i].name@) by {
        assert(texts.contains(old[i].name@));
        let j = choose |j: int| 0 <= j < v.len() && (#[trigger] v[j])@ == old[i].name@;
    }
    assert forall |p: Seq<char>| #[trigger] ms_is_piece(s, ',', p) && p.len() > 0 implies ms_has_name(old, p) by {
        assert(texts.contains(p));
        let j = choose |j: int| 0 <= j < v.len() && (#[trigger] v[j])@ == p;
    }
}

/// the partial-run contract in the words of the property (old list with pairwise different names)
pub proof fn lemma_ms_partial_exact(old: Seq<&CweModule>, new: Seq<&CweModule>, s: Seq<char>)
    requires
        ms_names_distinct(old),
        ms_partial_post(old, new, s),
    ensures
        ms_partial_exact(old, new, s),
{
    assert forall |k: int| 0 <= k < new.len() implies ms_has_module(old, #[trigger] new[k]) by {
        assert(ms_selected(old, s, new[k]));
        let i = choose |i: int| ms_picked(old, s, new[k], i);
        assert(*old[i] == *new[k]);
    }
    assert forall |i: int| 0 <= i < old.len() implies (ms_has_module(new, #[trigger] old[i]) <==> ms_is_piece(s, ',', old[i].name@)) by {
        if ms_has_module(new, old[i]) {
            let k = choose |k: int| 0 <= k < new.len() && *#[trigger] new[k] == *old[i];
            assert(ms_selected(old, s, new[k]));
            let i2 = choose |i2: int| ms_picked(old, s, new[k], i2);
            assert(old[i2].name@ == old[i].name@);
        }
        if ms_is_piece(s, ',', old[i].name@) {
            assert(ms_has_name(new, old[i].name@));
            let k = choose |k: int| 0 <= k < new.len() && (#[trigger] new[k]).name@ == old[i].name@;
            assert(ms_selected(old, s, new[k]));
            let i2 = choose |i2: int| ms_picked(old, s, new[k], i2);
            assert(old[i2].name@ == old[i].name@);
            if i2 < i { assert(old[i2].name@ != old[i].name@); } else if i < i2 { assert(old[i].name@ != old[i2].name@); }
            assert(i2 == i);
        }
    }
    assert forall |k: int, l: int| 0 <= k < l < new.len() implies *#[trigger] new[k] != *#[trigger] new[l] by {
        assert(new[k].name@ != new[l].name@);
    }
}

/// "every check except the OS-command-injection check" is well defined: exactly ONE entry of a list that names every known
/// check once carries the name "CWE78"
pub proof fn lemma_ms_one_oscmd(ms: Seq<&CweModule>)
    requires
        ms_all_known_once(ms),
    ensures
        exists |i: int| 0 <= i < ms.len() && (#[trigger] ms[i]).name@ == ms_oscmd()
            && forall |j: int| 0 <= j < ms.len() && j != i ==> (#[trigger] ms[j]).name@ != ms_oscmd(),
{
    lemma_ms_reveal_names();
    assert(ms_is_known(ms_oscmd()));
    assert(ms_has_name(ms, ms_oscmd()));
    let i = choose |i: int| 0 <= i < ms.len() && (#[trigger] ms[i]).name@ == ms_oscmd();
    assert forall |j: int| 0 <= j < ms.len() && j != i implies (#[trigger] ms[j]).name@ != ms_oscmd() by {
        if j < i { assert(ms[j].name@ != ms[i].name@); } else { assert(ms[i].name@ != ms[j].name@); }
    }
}

/// the kernel-module list, entry by entry (the constant is the extracted text of checkers.rs): no entry twice, the
/// OS-command-injection check is not on it, and every entry names a known check -- EXCEPT the entry "CWE457" (observation O1)
pub proof fn lemma_ms_lkm_entries()
    ensures
        forall |k: int| 0 <= k < ms_lkm().len() ==> ms_is_known((#[trigger] ms_lkm()[k])@) || ms_lkm_dangling(ms_lkm()[k]@),
        forall |k: int, l: int| 0 <= k < l < ms_lkm().len() ==> (#[trigger] ms_lkm()[k])@ != (#[trigger] ms_lkm()[l])@,
{
    lemma_ms_reveal_names();
}

/// ... hence every kernel-module entry except the dangling one is the name of exactly one module of a list that names
/// every known check once (`get_modules()`): the kernel-module subset can be executed, entry by entry
pub proof fn lemma_ms_lkm_in_modules(ms: Seq<&CweModule>)
    requires
        ms_all_known_once(ms),
    ensures
        forall |k: int| 0 <= k < ms_lkm().len() && !ms_lkm_dangling((#[trigger] ms_lkm()[k])@) ==> ms_has_name(ms, ms_lkm()[k]@),
{
    lemma_ms_lkm_entries();
}

/// every yielded item is a piece of the parameter
pub proof fn lemma_ms_yielded_is_piece(v: Seq<&str>, s: Seq<char>, texts: Set<Seq<char>>, j: int)
    requires
        0 <= j < v.len(),
        forall |p: Seq<char>| #[trigger] texts.contains(p) <==> ms_is_piece(s, ',', p),
        forall |p: Seq<char>| #[trigger] texts.contains(p) <==> ms_yields(v, p),
    ensures
        ms_is_piece(s, ',', v[j]@),
{
    assert(ms_yields(v, v[j]@));
    assert(texts.contains(v[j]@));
}

// ---- the two descriptions of `str::split` agree ----

pub proof fn lemma_ms_first_sep(s: Seq<char>, c: char)
    ensures
        0 <= ms_first_sep(s, c) <= s.len(),
        forall |k: int| 0 <= k < ms_first_sep(s, c) ==> s[k] != c,
        ms_first_sep(s, c) < s.len() ==> s[ms_first_sep(s, c)] == c,
    decreases s.len(),
{
    if s.len() == 0 || s[0] == c {
    } else {
        lemma_ms_first_sep(s.skip(1), c);
        assert forall |k: int| 0 <= k < ms_first_sep(s, c) implies s[k] != c by {
            if k > 0 { assert(s.skip(1)[k - 1] == s[k]); }
        }
        if ms_first_sep(s, c) < s.len() {
            assert(s.skip(1)[ms_first_sep(s.skip(1), c)] == s[ms_first_sep(s, c)]);
        }
    }
}

/// a piece of the string behind the first separator is a piece of the whole string, and conversely
pub proof fn lemma_ms_piece_shift(s: Seq<char>, c: char, i: int, a: int, b: int)
    requires
        0 <= i < s.len(),
        s[i] == c,
        0 <= a <= b <= s.len() - i - 1,
    ensures
        ms_piece_at(s.skip(i + 1), c, a, b) <==> ms_piece_at(s, c, a + i + 1, b + i + 1),
        s.skip(i + 1).subrange(a, b) == s.subrange(a + i + 1, b + i + 1),
{
    let t = s.skip(i + 1);
    assert(t.subrange(a, b) =~= s.subrange(a + i + 1, b + i + 1));
    if ms_piece_at(t, c, a, b) {
        assert forall |k: int| a + i + 1 <= k < b + i + 1 implies s[k] != c by { assert(t[k - i - 1] == s[k]); }
        if a > 0 { assert(t[a - 1] == s[a + i]); }
        if b < t.len() { assert(t[b] == s[b + i + 1]); }
    }
    if ms_piece_at(s, c, a + i + 1, b + i + 1) {
        assert forall |k: int| a <= k < b implies t[k] != c by { assert(t[k] == s[k + i + 1]); }
        if a > 0 { assert(t[a - 1] == s[a + i]); }
        if b < t.len() { assert(t[b] == s[b + i + 1]); }
    }
}

/// every element of the recursive split is a maximal separator-free substring
pub proof fn lemma_ms_split_sound(s: Seq<char>, c: char, p: Seq<char>)
    requires
        ms_split(s, c).contains(p),
    ensures
        ms_is_piece(s, c, p),
    decreases s.len(),
{
    let i = ms_first_sep(s, c);
    lemma_ms_first_sep(s, c);
    let k = choose |k: int| 0 <= k < ms_split(s, c).len() && ms_split(s, c)[k] == p;
    if i < s.len() {
        let t = s.skip(i + 1);
        if k == 0 {
            assert(ms_piece_at(s, c, 0, i));
            assert(s.subrange(0, i) == p);
        } else {
            assert(ms_split(t, c)[k - 1] == p);
            lemma_ms_split_sound(t, c, p);
            let (a, b) = choose |a: int, b: int| ms_piece_at(t, c, a, b) && #[trigger] t.subrange(a, b) == p;
            lemma_ms_piece_shift(s, c, i, a, b);
            assert(ms_piece_at(s, c, a + i + 1, b + i + 1) && s.subrange(a + i + 1, b + i + 1) == p);
        }
    } else {
        assert(ms_piece_at(s, c, 0, s.len() as int));
        assert(s.subrange(0, s.len() as int) =~= s);
    }
}

/// every maximal separator-free substring is an element of the recursive split
pub proof fn lemma_ms_split_complete(s: Seq<char>, c: char, p: Seq<char>)
    requires
        ms_is_piece(s, c, p),
    ensures
        ms_split(s, c).contains(p),
    decreases s.len(),
{
    let i = ms_first_sep(s, c);
    lemma_ms_first_sep(s, c);
    let (a, b) = choose |a: int, b: int| ms_piece_at(s, c, a, b) && #[trigger] s.subrange(a, b) == p;
    if i < s.len() {
        let t = s.skip(i + 1);
        if a <= i {
            if a > 0 { assert(s[a - 1] != c); }
            if b > i { assert(s[i] != c); }
            if b < i { assert(s[b] == c); }
            assert(a == 0 && b == i);
            assert(ms_split(s, c)[0] == p);
        } else {
            lemma_ms_piece_shift(s, c, i, a - i - 1, b - i - 1);
            assert(ms_piece_at(t, c, a - i - 1, b - i - 1) && t.subrange(a - i - 1, b - i - 1) == p);
            lemma_ms_split_complete(t, c, p);
            let k = choose |k: int| 0 <= k < ms_split(t, c).len() && ms_split(t, c)[k] == p;
            assert(ms_split(s, c)[k + 1] == p);
        }
    } else {
        if a > 0 { assert(s[a - 1] != c); }
        if b < s.len() { assert(s[b] != c); }
        assert(s.subrange(a, b) =~= s);
        assert(ms_split(s, c)[0] == p);
    }
}

/// the recursive and the declarative description of `split` agree
pub proof fn lemma_ms_split_pieces(s: Seq<char>, c: char)
    ensures
        forall |p: Seq<char>| #[trigger] ms_split(s, c).contains(p) <==> ms_is_piece(s, c, p),
{
    assert forall |p: Seq<char>| #[trigger] ms_split(s, c).contains(p) <==> ms_is_piece(s, c, p) by {
        if ms_split(s, c).contains(p) { lemma_ms_split_sound(s, c, p); }
        if ms_is_piece(s, c, p) { lemma_ms_split_complete(s, c, p); }
    }
}

// ---- the selection statement ----

/// decisions that follow a predicate keep exactly `filter(pred)`
pub proof fn lemma_ms_keep_filter<T>(s: Seq<T>, keep: Seq<bool>, pred: spec_fn(T) -> bool)
    requires
        keep.len() == s.len(),
        forall |i: int| 0 <= i < s.len() ==> #[trigger] keep[i] == pred(s[i]),
    ensures
        ms_keep(s, keep) == s.filter(pred),
    decreases s.len(),
{
    reveal(Seq::filter);
    if s.len() > 0 {
        lemma_ms_keep_filter(s.drop_last(), keep.drop_last(), pred);
        assert(keep.last() == pred(s.last()));
    }
}

/// a `retain` whose decisions follow `pred` leaves `filter(pred)`
pub proof fn lemma_ms_retained<T>(old: Seq<T>, new: Seq<T>, pred: spec_fn(T) -> bool)
    requires
        exists |keep: Seq<bool>| #![trigger ms_keep(old, keep)] keep.len() == old.len()
            && (forall |i: int| #![trigger keep[i]] 0 <= i < keep.len() ==> keep[i] == pred(old[i]))
            && new == ms_keep(old, keep),
    ensures
        new == old.filter(pred),
{
    let keep = choose |keep: Seq<bool>| #![trigger ms_keep(old, keep)] keep.len() == old.len()
            && (forall |i: int| #![trigger keep[i]] 0 <= i < keep.len() ==> keep[i] == pred(old[i]))
            && new == ms_keep(old, keep);
    lemma_ms_keep_filter(old, keep, pred);
}

/// position `k` of `f` holds an element of `s` (as a reference to the same module value)
pub open spec fn ms_elem_of(s: Seq<&CweModule>, m: &CweModule) -> bool {
    exists |i: int| 0 <= i < s.len() && #[trigger] s[i] == m
}

/// `filter` on a module list: only elements of the list that satisfy the predicate, all of them, and no name twice if the
/// list had no name twice
pub proof fn lemma_ms_filter_modules(s: Seq<&CweModule>, pred: spec_fn(&CweModule) -> bool)
    ensures
        forall |k: int| 0 <= k < s.filter(pred).len() ==> pred(#[trigger] s.filter(pred)[k]) && ms_elem_of(s, s.filter(pred)[k]),
        forall |i: int| 0 <= i < s.len() && pred(#[trigger] s[i]) ==> ms_elem_of(s.filter(pred), s[i]),
        ms_names_distinct(s) ==> ms_names_distinct(s.filter(pred)),
    decreases s.len(),
{
    reveal(Seq::filter);
    let f = s.filter(pred);
    if s.len() > 0 {
        let s0 = s.drop_last();
        let f0 = s0.filter(pred);
        lemma_ms_filter_modules(s0, pred);
        assert forall |k: int| 0 <= k < f.len() implies pred(#[trigger] f[k]) && ms_elem_of(s, f[k]) by {
            if k < f0.len() {
                assert(f[k] == f0[k]);
                assert(ms_elem_of(s0, f0[k]));
                let i = choose |i: int| 0 <= i < s0.len() && #[trigger] s0[i] == f0[k];
                assert(s[i] == f[k]);
            } else {
                assert(f[k] == s[s.len() - 1]);
            }
        }
        assert forall |i: int| 0 <= i < s.len() && pred(#[trigger] s[i]) implies ms_elem_of(f, s[i]) by {
            if i < s0.len() {
                assert(s0[i] == s[i]);
                assert(ms_elem_of(f0, s0[i]));
                let k = choose |k: int| 0 <= k < f0.len() && #[trigger] f0[k] == s0[i];
                assert(f[k] == s[i]);
            } else {
                assert(f[f.len() - 1] == s[i]);
            }
        }
        if ms_names_distinct(s) {
            assert(ms_names_distinct(s0)) by {
                assert forall |i: int, j: int| 0 <= i < j < s0.len() implies (#[trigger] s0[i]).name@ != (#[trigger] s0[j]).name@ by {
                    assert(s0[i] == s[i] && s0[j] == s[j]);
                }
            }
            assert forall |a: int, b: int| 0 <= a < b < f.len() implies (#[trigger] f[a]).name@ != (#[trigger] f[b]).name@ by {
                if b < f0.len() {
                    assert(f[a] == f0[a] && f[b] == f0[b]);
                } else {
                    assert(f[a] == f0[a]);
                    assert(ms_elem_of(s0, f0[a]));
                    let i = choose |i: int| 0 <= i < s0.len() && #[trigger] s0[i] == f0[a];
                    assert(s[i].name@ != s[s.len() - 1].name@);
                }
            }
        }
    }
}

/// a list that names every known check once, filtered by a predicate `q` on the NAME: the result names exactly the known
/// checks that satisfy `q`, each once
pub proof fn lemma_ms_filter_known(all: Seq<&CweModule>, pred: spec_fn(&CweModule) -> bool, q: spec_fn(Seq<char>) -> bool)
    requires
        ms_all_known_once(all),
        forall |m: &CweModule| #[trigger] pred(m) == q(m.name@),
    ensures
        ms_names_distinct(all.filter(pred)),
        forall |p: Seq<char>| #[trigger] ms_has_name(all.filter(pred), p) <==> ms_is_known(p) && q(p),
{
    let f = all.filter(pred);
    lemma_ms_filter_modules(all, pred);
    assert forall |p: Seq<char>| #[trigger] ms_has_name(f, p) <==> ms_is_known(p) && q(p) by {
        if ms_has_name(f, p) {
            let k = choose |k: int| 0 <= k < f.len() && (#[trigger] f[k]).name@ == p;
            assert(pred(f[k]) && ms_elem_of(all, f[k]));
            let i = choose |i: int| 0 <= i < all.len() && #[trigger] all[i] == f[k];
            assert(ms_has_name(all, p));
        }
        if ms_is_known(p) && q(p) {
            assert(ms_has_name(all, p));
            let i = choose |i: int| 0 <= i < all.len() && (#[trigger] all[i]).name@ == p;
            assert(pred(all[i]));
            assert(ms_elem_of(f, all[i]));
            let k = choose |k: int| 0 <= k < f.len() && #[trigger] f[k] == all[i];
            assert(f[k].name@ == p);
        }
    }
}

/// if every name carried by a list is known, every entry carries a known name
pub proof fn lemma_ms_known_names_of(ms: Seq<&CweModule>)
    requires
        forall |p: Seq<char>| #[trigger] ms_has_name(ms, p) ==> ms_is_known(p),
    ensures
        forall |k: int| 0 <= k < ms.len() ==> ms_is_known((#[trigger] ms[k]).name@),
{
    assert forall |k: int| 0 <= k < ms.len() implies ms_is_known((#[trigger] ms[k]).name@) by {
        assert(ms_has_name(ms, ms[k].name@));
    }
}
