// ---------------------------------------------------------------------------
// lemmas/memimage.rs -- proved facts about the C19 vocabulary (no assumptions).
// ---------------------------------------------------------------------------

/// In a valid image "the segment containing the address" is unique.
pub proof fn lemma_seg_unique(img: RuntimeMemoryImage, i: int, a: int)
    requires valid_image(img), 0 <= i < img.memory_segments@.len(), seg_contains(img.memory_segments@[i], a),
    ensures has_seg(img, a), seg_index_of(img, a) == i, seg_of(img, a) == img.memory_segments@[i],
{
    let j = seg_index_of(img, a);
    assert(0 <= j < img.memory_segments@.len() && seg_contains(img.memory_segments@[j], a));
    if j < i {
        assert(segs_disjoint(img.memory_segments@[j], img.memory_segments@[i]));
    } else if i < j {
        assert(segs_disjoint(img.memory_segments@[i], img.memory_segments@[j]));
    }
}

/// quantified form, usable as an entry hint: every segment containing `a` is *the* segment of `a`
pub proof fn lemma_seg_unique_all(img: RuntimeMemoryImage, a: int)
    requires valid_image(img),
    ensures forall|i: int| 0 <= i < img.memory_segments@.len() && seg_contains(#[trigger] img.memory_segments@[i], a)
                ==> has_seg(img, a) && seg_index_of(img, a) == i,
{
    assert forall|i: int| 0 <= i < img.memory_segments@.len() && seg_contains(#[trigger] img.memory_segments@[i], a)
        implies has_seg(img, a) && seg_index_of(img, a) == i by { lemma_seg_unique(img, i, a); }
}

/// A non-empty range lies in at most one segment of a valid image, and that is the segment of its first address.
pub proof fn lemma_range_seg_unique(img: RuntimeMemoryImage, i: int, a: int, n: int)
    requires valid_image(img), n >= 1, 0 <= i < img.memory_segments@.len(), seg_contains_range(img.memory_segments@[i], a, n),
    ensures range_has_seg(img, a, n), range_seg_index_of(img, a, n) == i, range_seg_of(img, a, n) == img.memory_segments@[i],
            has_seg(img, a), seg_index_of(img, a) == i,
{
    let j = range_seg_index_of(img, a, n);
    assert(0 <= j < img.memory_segments@.len() && seg_contains_range(img.memory_segments@[j], a, n));
    assert(seg_contains(img.memory_segments@[i], a));
    assert(seg_contains(img.memory_segments@[j], a));
    lemma_seg_unique(img, i, a);
    lemma_seg_unique(img, j, a);
}

pub proof fn lemma_range_seg_unique_all(img: RuntimeMemoryImage, a: int, n: int)
    requires valid_image(img), n >= 1,
    ensures forall|i: int| 0 <= i < img.memory_segments@.len() && seg_contains_range(#[trigger] img.memory_segments@[i], a, n)
                ==> range_has_seg(img, a, n) && range_seg_index_of(img, a, n) == i,
{
    assert forall|i: int| 0 <= i < img.memory_segments@.len() && seg_contains_range(#[trigger] img.memory_segments@[i], a, n)
        implies range_has_seg(img, a, n) && range_seg_index_of(img, a, n) == i by { lemma_range_seg_unique(img, i, a, n); }
}

/// the first NUL at or after i is unique
pub proof fn lemma_first_nul(b: Seq<u8>, i: int, k: int)
    requires is_first_nul_from(b, i, k),
    ensures has_nul_from(b, i), first_nul_from(b, i) == k,
{
    let k2 = first_nul_from(b, i);
    assert(is_first_nul_from(b, i, k2));
    if k2 < k { assert(b[k2] != 0u8); } else if k < k2 { assert(b[k] != 0u8); }
}

/// a value assembled from n bytes fits n*8 bits (so the result of `read` is a well-formed bitvector)
pub proof fn lemma_be_value_bound(s: Seq<u8>)
    ensures be_value(s) < p2((s.len() * 8) as nat),
    decreases s.len(),
{
    lemma_p2_consts();
    if s.len() > 0 {
        lemma_be_value_bound(s.drop_last());
        let m = ((s.len() - 1) * 8) as nat;
        lemma_p2_mono(m, m + 8);
        assert((m + 8 - m) as nat == 8);
        assert(be_value(s.drop_last()) * 256 + (s.last() as nat) < p2(m) * 256) by (nonlinear_arith)
            requires be_value(s.drop_last()) < p2(m), (s.last() as nat) < 256;
        assert(m + 8 == s.len() * 8);
    }
}
pub proof fn lemma_le_value_bound(s: Seq<u8>)
    ensures le_value(s) < p2((s.len() * 8) as nat),
    decreases s.len(),
{
    lemma_p2_consts();
    if s.len() > 0 {
        lemma_le_value_bound(s.drop_first());
        let m = ((s.len() - 1) * 8) as nat;
        lemma_p2_mono(m, m + 8);
        assert((m + 8 - m) as nat == 8);
        assert((s[0] as nat) + 256 * le_value(s.drop_first()) < p2(m) * 256) by (nonlinear_arith)
            requires le_value(s.drop_first()) < p2(m), (s[0] as nat) < 256;
        assert(m + 8 == s.len() * 8);
    }
}
pub proof fn lemma_mem_value_bound(s: Seq<u8>, le: bool)
    ensures mem_value(s, le) < p2((s.len() * 8) as nat),
{
    lemma_be_value_bound(s);
    lemma_le_value_bound(s);
}

// ---- byte order: the Piece fold of `read` ---------------------------------------------------------------
/// appending a byte at the least significant end: one step of the Piece fold
pub proof fn lemma_be_value_push(s: Seq<u8>, b: u8)
    ensures be_value(s.push(b)) == be_value(s) * 256 + b as nat,
{
    assert(s.push(b).drop_last() =~= s);
    assert(s.push(b).last() == b);
}
/// the same step phrased on prefixes of a fixed sequence (the form the loop invariant of `read` uses)
pub proof fn lemma_be_value_prefix_step(s: Seq<u8>, n: int)
    requires 0 <= n < s.len(),
    ensures be_value(s.subrange(0, n + 1)) == be_value(s.subrange(0, n)) * 256 + s[n] as nat,
{
    assert(s.subrange(0, n + 1) =~= s.subrange(0, n).push(s[n]));
    lemma_be_value_push(s.subrange(0, n), s[n]);
}
/// reading the reversed sequence big endian is reading the sequence little endian
pub proof fn lemma_be_reverse_is_le(s: Seq<u8>)
    ensures be_value(s.reverse()) == le_value(s),
    decreases s.len(),
{
    if s.len() > 0 {
        lemma_be_reverse_is_le(s.drop_first());
        assert(s.reverse().drop_last() =~= s.drop_first().reverse());
        assert(s.reverse().last() == s[0]);
    }
}
/// folding the bytes in `read_order` most-significant-first yields the value in the image's byte order
pub proof fn lemma_read_order_value(s: Seq<u8>, le: bool)
    ensures
        be_value(read_order(s, le)) == mem_value(s, le),
        read_order(s, le).len() == s.len(),
        read_order(s, le).subrange(0, s.len() as int) == read_order(s, le),
        s.len() >= 1 ==> be_value(read_order(s, le).subrange(0, 1)) == read_order(s, le)[0] as nat,
{
    lemma_be_reverse_is_le(s);
    if s.len() >= 1 {
        lemma_be_value_prefix_step(read_order(s, le), 0);
        assert(be_value(read_order(s, le).subrange(0, 0)) == 0);
    }
    assert(read_order(s, le).subrange(0, s.len() as int) =~= read_order(s, le));
}
