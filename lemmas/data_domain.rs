// ---------------------------------------------------------------------------
// lemmas/data_domain.rs -- proof-only lemmas of unit `data_domain` (properties C03 / C04 for DataDomain<T>).
// All proved.  They lift the hypotheses on the value domain T (dd_merge_hyp, ..) to pointer/value sets, over the
// COMPONENTS of a DataDomain (target map, absolute part, Top flag).
// ---------------------------------------------------------------------------

/// (C03, first sentence) every concrete value represented by either operand is represented by the merge
pub proof fn lemma_dd_merge_over<T: RegisterDomain>(ar: Map<AbstractIdentifier, T>, aa: Option<T>, at: bool,
                                                   br: Map<AbstractIdentifier, T>, ba: Option<T>, bt: bool, mt: bool)
    requires dd_merge_hyp::<T>(), dd_merge_pre_c(ar, aa, br, ba), mt == (at || bt),
    ensures
        forall |c: DdConcrete| dd_gamma_c(ar, aa, at, c) || dd_gamma_c(br, ba, bt, c)
            ==> #[trigger] dd_gamma_c(dd_merged_rel(ar, br), dd_merged_abs(aa, ba), mt, c),
{
    let mr = dd_merged_rel(ar, br);
    let ma = dd_merged_abs(aa, ba);
    assert forall |c: DdConcrete| dd_gamma_c(ar, aa, at, c) || dd_gamma_c(br, ba, bt, c)
        implies #[trigger] dd_gamma_c(mr, ma, mt, c) by {
        if !(at || bt) {
            match c {
                DdConcrete::Abs(v) => {
                    if aa is Some && ba is Some {
                        assert(aa->Some_0.merge_spec(&ba->Some_0).gamma_spec(v));
                    }
                },
                DdConcrete::Rel(id, off) => {
                    assert(mr.contains_key(id));
                    if ar.contains_key(id) && br.contains_key(id) {
                        assert(ar[id].merge_spec(&br[id]).gamma_spec(off));
                    }
                },
            }
        }
    }
}

/// (C03, second sentence) merging a value with something it already absorbed does not enlarge its represented set
pub proof fn lemma_dd_merge_stable<T: RegisterDomain>(ar: Map<AbstractIdentifier, T>, aa: Option<T>, at: bool,
                                                     br: Map<AbstractIdentifier, T>, ba: Option<T>, bt: bool, mt: bool)
    requires
        dd_merge_hyp::<T>(), dd_merge_pre_c(ar, aa, br, ba), mt == (at || bt),
        forall |c: DdConcrete| dd_gamma_c(br, ba, bt, c) ==> dd_gamma_c(ar, aa, at, c),
    ensures
        forall |c: DdConcrete| #[trigger] dd_gamma_c(dd_merged_rel(ar, br), dd_merged_abs(aa, ba), mt, c)
            ==> dd_gamma_c(ar, aa, at, c),
{
    let mr = dd_merged_rel(ar, br);
    let ma = dd_merged_abs(aa, ba);
    assert forall |c: DdConcrete| #[trigger] dd_gamma_c(mr, ma, mt, c) implies dd_gamma_c(ar, aa, at, c) by {
        if at {
        } else if bt {
            // other represents everything, self absorbed it: self represents c
            assert(dd_gamma_c(br, ba, bt, c));
        } else {
            match c {
                DdConcrete::Abs(v) => {
                    if aa is Some && ba is Some {
                        let x = aa->Some_0; let y = ba->Some_0;
                        assert forall |w: Bitvector| y.gamma_spec(w) implies x.gamma_spec(w) by {
                            assert(dd_gamma_c(br, ba, bt, DdConcrete::Abs(w)));
                        }
                        assert(x.merge_spec(&y).gamma_spec(v));
                    } else if ba is Some {
                        assert(dd_gamma_c(br, ba, bt, DdConcrete::Abs(v)));
                    }
                },
                DdConcrete::Rel(id, off) => {
                    if ar.contains_key(id) && br.contains_key(id) {
                        let x = ar[id]; let y = br[id];
                        assert forall |w: Bitvector| y.gamma_spec(w) implies x.gamma_spec(w) by {
                            assert(dd_gamma_c(br, ba, bt, DdConcrete::Rel(id, w)));
                        }
                        assert(x.merge_spec(&y).gamma_spec(off));
                    } else if br.contains_key(id) {
                        assert(dd_gamma_c(br, ba, bt, DdConcrete::Rel(id, off)));
                    }
                },
            }
        }
    }
}

/// the merge of two values whose components all have byte size n has components of byte size n
pub proof fn lemma_dd_merge_sized<T: RegisterDomain>(ar: Map<AbstractIdentifier, T>, aa: Option<T>,
                                                    br: Map<AbstractIdentifier, T>, ba: Option<T>, n: nat)
    requires
        dd_merge_hyp::<T>(), dd_merge_pre_c(ar, aa, br, ba),
        dd_sized_c(ar, aa, n), dd_sized_c(br, ba, n),
    ensures
        dd_sized_c(dd_merged_rel(ar, br), dd_merged_abs(aa, ba), n),
{
    let mr = dd_merged_rel(ar, br);
    assert forall |id: AbstractIdentifier| #[trigger] mr.contains_key(id) implies mr[id].bytesize_spec() == n by {
        if ar.contains_key(id) && br.contains_key(id) {
            assert(ar[id].merge_spec(&br[id]).bytesize_spec() == ar[id].bytesize_spec());
        }
    }
    if aa is Some && ba is Some {
        assert(aa->Some_0.merge_spec(&ba->Some_0).bytesize_spec() == aa->Some_0.bytesize_spec());
    }
}

/// one step of the merge loop: after visiting position i of other's entries the accumulated map is described by i + 1
pub proof fn lemma_dd_iter_step<K, V>(s: Seq<(&K, &V)>, m: Map<K, V>, i: int)
    requires dd_iter_of(s, m), 0 <= i < s.len(),
    ensures
        !dd_iter_visited(s, i, *s[i].0),
        forall |k: K| dd_iter_visited(s, i + 1, k) <==> (dd_iter_visited(s, i, k) || k == *s[i].0),
{
    if dd_iter_visited(s, i, *s[i].0) {
        let j = choose |j: int| 0 <= j < i && *(#[trigger] s[j]).0 == *s[i].0;
        assert(m[*s[j].0] == *s[j].1);
        assert(m[*s[i].0] == *s[i].1);
        assert(*s[j].1 == *s[i].1);
        assert(s[j] == s[i]);
    }
    assert forall |k: K| dd_iter_visited(s, i + 1, k) <==> (dd_iter_visited(s, i, k) || k == *s[i].0) by {
        if dd_iter_visited(s, i + 1, k) {
            let j = choose |j: int| 0 <= j < i + 1 && *(#[trigger] s[j]).0 == k;
            if j < i { assert(dd_iter_visited(s, i, k)); }
        }
        if dd_iter_visited(s, i, k) {
            let j = choose |j: int| 0 <= j < i && *(#[trigger] s[j]).0 == k;
            assert(0 <= j < i + 1 && *s[j].0 == k);
        }
        if k == *s[i].0 { assert(0 <= i < i + 1 && *s[i].0 == k); }
    }
}

/// at the end of the iteration exactly the keys of the map have been visited
pub proof fn lemma_dd_iter_done<K, V>(s: Seq<(&K, &V)>, m: Map<K, V>)
    requires dd_iter_of(s, m),
    ensures forall |k: K| dd_iter_visited(s, s.len() as int, k) <==> m.contains_key(k),
{
    assert forall |k: K| dd_iter_visited(s, s.len() as int, k) <==> m.contains_key(k) by {
        if dd_iter_visited(s, s.len() as int, k) {
            let j = choose |j: int| 0 <= j < s.len() && *(#[trigger] s[j]).0 == k;
            assert(m.contains_key(*s[j].0));
        }
    }
}

/// the merge of a target map with the empty map is the map itself
pub proof fn lemma_dd_merged_rel_empty<T: RegisterDomain>(a: Map<AbstractIdentifier, T>)
    ensures dd_merged_rel(a, Map::<AbstractIdentifier, T>::empty()) =~= a,
{
}

/// a map of length 0 has no key (vstd: finite maps)
pub proof fn lemma_dd_len0<T>(a: Map<AbstractIdentifier, T>)
    ensures a.len() == 0 <==> (forall |k: AbstractIdentifier| !a.contains_key(k)),
{
    if a.len() == 0 {
        assert forall |k: AbstractIdentifier| !a.contains_key(k) by {
            if a.contains_key(k) { assert(a.dom().contains(k)); assert(a.dom().len() != 0) by { if a.dom().len() == 0 { assert(a.dom() =~= Set::empty()); } } }
        }
    } else {
        if forall |k: AbstractIdentifier| !a.contains_key(k) { assert(a.dom() =~= Set::empty()); }
    }
}

/// (C04, intersection) every common member of the operands is a member of the result; an empty result means there is no
/// common member
pub proof fn lemma_dd_intersect_props<T: SpecializeByConditional + RegisterDomain>(
    at: bool, ar: Map<AbstractIdentifier, T>, aa: Option<T>, bt: bool, br: Map<AbstractIdentifier, T>, ba: Option<T>)
    requires dd_merge_hyp::<T>(), dd_intersect_hyp::<T>(), dd_isect_pre(at, ar, aa, bt, br, ba),
    ensures
        forall |c: DdConcrete| #![trigger dd_gamma_c(ar, aa, at, c)] #![trigger dd_gamma_c(br, ba, bt, c)]
            dd_gamma_c(ar, aa, at, c) && dd_gamma_c(br, ba, bt, c)
            ==> dd_gamma_c(dd_isect_core_rel(at, ar, bt, br), dd_isect_abs2(at, ar, aa, bt, br, ba), at && bt, c),
{
    let cr = dd_isect_core_rel(at, ar, bt, br);
    let ca = dd_isect_core_abs(at, aa, bt, ba);
    let a1 = dd_isect_abs1(at, ar, aa, bt, ba);
    let a2 = dd_isect_abs2(at, ar, aa, bt, br, ba);
    // the two merges only add absolute values
    assert forall |v: Bitvector| ca is Some && ca->Some_0.gamma_spec(v) implies a1 is Some && #[trigger] a1->Some_0.gamma_spec(v) by {
        if ar.len() != 0 && ba is Some { assert(ca->Some_0.merge_spec(&ba->Some_0).gamma_spec(v)); }
    }
    assert forall |v: Bitvector| a1 is Some && a1->Some_0.gamma_spec(v) implies a2 is Some && #[trigger] a2->Some_0.gamma_spec(v) by {
        if aa is Some && br.len() != 0 { assert(a1->Some_0.merge_spec(&aa->Some_0).gamma_spec(v)); }
    }
    assert forall |c: DdConcrete| dd_gamma_c(ar, aa, at, c) && dd_gamma_c(br, ba, bt, c)
        implies dd_gamma_c(cr, a2, at && bt, c) by {
        if !(at && bt) {
            match c {
                DdConcrete::Abs(v) => {
                    if !at && !bt {
                        let x = aa->Some_0; let y = ba->Some_0;
                        assert(x.intersect_spec(&y) is Some && x.intersect_spec(&y)->Some_0.gamma_spec(v));
                    }
                    assert(ca is Some && ca->Some_0.gamma_spec(v));
                    assert(a1 is Some && a1->Some_0.gamma_spec(v));
                    assert(a2 is Some && a2->Some_0.gamma_spec(v));
                },
                DdConcrete::Rel(id, off) => {
                    if !at && !bt {
                        let x = ar[id]; let y = br[id];
                        assert(ar.contains_key(id) && br.contains_key(id));
                        assert(x.intersect_spec(&y) is Some && x.intersect_spec(&y)->Some_0.gamma_spec(off));
                        assert(dd_intersect_keeps(ar, br, id));
                        assert(cr.contains_key(id));
                    }
                },
            }
        }
    }
}
