// ---------------------------------------------------------------------------
// lemmas/subreg_sat.rs -- SATISFIABILITY WITNESSES of the preconditions of unit `subreg` (nothing here is trusted).
//   (d)  vstd::std_specs::hash::obeys_key_model::<&String>(): uninterpreted in vstd, nothing can be proved.  It is the ONLY
//        `requires` of verif_sat_subreg_chain.  No axiom / external_body of the unit mentions it (the three axioms of shim/subreg.rs
//        speak of contains_borrowed_key / maps_borrowed_key_to_value and of String extensionality).
//   (a') verif_sat_subreg_chain (relative to (d)): builds in exec code
//          * a THREE-entry register table  RAX (base, 8 bytes), EAX (base RAX, lsb 0, 4 bytes), AH (base RAX, lsb 1, 1 byte)
//            as a real HashMap<&String, &RegisterProperties> (HashMap::new + insert of `(&p.register, p)`, as into_ir_project does);
//            lemma_sat_subreg_table_ok PROVES sr_table_ok and `loaded_value` not in the table for every table with that content;
//          * a block of FIVE defs that mention the sub-registers as outputs AND inputs (EAX = EAX + 1; RAX = ZEXT(EAX) -- the
//            mergeable cast; AH = LOAD(RAX) -- lsb > 0, middle piece; STORE(RAX, AH); EAX = EAX ^ EAX) and two jumps
//            (CBRANCH on AH == 0; BRANCH); verif_sat_subreg_block PROVES sr_block_ok (hence sr_defs_ok, sr_def_ok) for it;
//        and calls all 9 contracted functions with `requires` (and the 6 without); Verus checks the REAL `requires` at each call.
//        sr_tmp() is `choose |s: String| s@ == "loaded_value"@`: its defining property needs a String with that view, which only
//        exec code can produce (`"loaded_value".to_string()`); the client does so (as the real code does).
//        The base-register NAME of every entry is a `String::clone` of RAX's name, so that the witness does not lean on the
//        trusted axiom_sr_string_ext; the derive-Clone shims are not used to build arguments.
//   Nothing stays conditional.
// ---------------------------------------------------------------------------

/// the three registers of the witness table
pub open spec fn sr_sat_regs(rax: RegisterProperties, eax: RegisterProperties, ah: RegisterProperties) -> bool {
    &&& rax == (RegisterProperties { register: rax.register, base_register: rax.register, lsb: ByteSize(0), size: ByteSize(8) })
    &&& eax == (RegisterProperties { register: eax.register, base_register: rax.register, lsb: ByteSize(0), size: ByteSize(4) })
    &&& ah == (RegisterProperties { register: ah.register, base_register: rax.register, lsb: ByteSize(1), size: ByteSize(1) })
    &&& rax.register@ == "RAX"@ && eax.register@ == "EAX"@ && ah.register@ == "AH"@
}
/// ... and the table that holds exactly them, each under its own name
pub open spec fn sr_sat_tab(t: SrTable, rax: RegisterProperties, eax: RegisterProperties, ah: RegisterProperties) -> bool {
    &&& sr_sat_regs(rax, eax, ah)
    &&& forall |n: String| #[trigger] t.contains_key(&n) <==> (n == rax.register || n == eax.register || n == ah.register)
    &&& *t[&rax.register] == rax && *t[&eax.register] == eax && *t[&ah.register] == ah
}

pub proof fn lemma_sat_subreg_names()
    ensures "RAX"@.len() == 3 && "RAX"@[0] == 'R', "EAX"@.len() == 3 && "EAX"@[0] == 'E', "AH"@.len() == 2, "loaded_value"@.len() == 12,
{
    reveal_strlit("RAX"); reveal_strlit("EAX"); reveal_strlit("AH"); reveal_strlit("loaded_value");
}

/// sr_table_ok holds for the three-entry table, and the builder's temporary is not a register of it
pub proof fn lemma_sat_subreg_table_ok(t: SrTable, rax: RegisterProperties, eax: RegisterProperties, ah: RegisterProperties, tmp: String)
    requires sr_sat_tab(t, rax, eax, ah), tmp@ == "loaded_value"@,
    ensures sr_table_ok(t), !t.contains_key(&sr_tmp()), sr_tmp()@ == "loaded_value"@,
        sr_tmp() != rax.register && sr_tmp() != eax.register && sr_tmp() != ah.register,
{
    lemma_sat_subreg_names();
    assert(t.contains_key(&rax.register) && t.contains_key(&eax.register) && t.contains_key(&ah.register));
    assert(sr_tmp()@ == "loaded_value"@);
}

/// the antecedent `sr_env_ok` of the claim sr_inv (a precondition of replace_subregister, the postcondition of the builder) is
/// satisfiable for the witness table: RAX's cell holds a 64-bit value
pub proof fn lemma_sat_subreg_env_ok(t: SrTable, rax: RegisterProperties, eax: RegisterProperties, ah: RegisterProperties)
    requires sr_sat_tab(t, rax, eax, ah),
    ensures exists |env: SrEnv| sr_env_ok(t, env),
{
    let env: SrEnv = |n: String| bv(64, 0);
    lemma_p2(64);
    lemma_sat_subreg_names();
    assert(t.contains_key(&rax.register) && t.contains_key(&eax.register) && t.contains_key(&ah.register));
    assert(rax.register != eax.register && rax.register != ah.register);
    assert(sr_env_ok(t, env));
}

fn verif_sat_subreg_table<'a>(rax: &'a RegisterProperties, eax: &'a RegisterProperties, ah: &'a RegisterProperties)
    -> (m: HashMap<&'a String, &'a RegisterProperties>)
    requires vstd::std_specs::hash::obeys_key_model::<&String>(), sr_sat_regs(*rax, *eax, *ah),
    ensures sr_sat_tab(m@, *rax, *eax, *ah),
{
    let mut m: HashMap<&'a String, &'a RegisterProperties> = HashMap::new();
    m.insert(&rax.register, rax);
    m.insert(&eax.register, eax);
    m.insert(&ah.register, ah);
    proof {
        lemma_sat_subreg_names();
        assert(rax.register != eax.register && rax.register != ah.register && eax.register != ah.register);
    }
    m
}

fn verif_sat_subreg_var(name: &String, size: u64) -> (r: Variable)
    ensures r == (Variable { name: *name, size: ByteSize(size), is_temp: false }),
{
    Variable { name: name.clone(), size: ByteSize(size), is_temp: false }
}
fn verif_sat_subreg_ev(name: &String, size: u64) -> (r: Expression)
    ensures r == Expression::Var(Variable { name: *name, size: ByteSize(size), is_temp: false }),
{
    Expression::Var(verif_sat_subreg_var(name, size))
}
fn verif_sat_subreg_tid(s: &str) -> (r: Tid) { Tid { id: s.to_string(), address: s.to_string() } }

/// the variables of the witness block fit the table, and none is the builder's temporary
pub proof fn lemma_sat_subreg_vars(t: SrTable, rax: RegisterProperties, eax: RegisterProperties, ah: RegisterProperties, tmp: String, v: Variable)
    requires sr_sat_tab(t, rax, eax, ah), tmp@ == "loaded_value"@,
        v == (Variable { name: rax.register, size: ByteSize(8), is_temp: false })
        || v == (Variable { name: eax.register, size: ByteSize(4), is_temp: false })
        || v == (Variable { name: ah.register, size: ByteSize(1), is_temp: false }),
    ensures sr_var_fits(t, v), sr_outvar_ok(t, v), v.name != sr_tmp(), t.contains_key(&v.name),
{
    lemma_sat_subreg_table_ok(t, rax, eax, ah, tmp);
    lemma_sat_subreg_names();
    assert(t.contains_key(&rax.register) && t.contains_key(&eax.register) && t.contains_key(&ah.register));
    assert(rax.register != eax.register && rax.register != ah.register && eax.register != ah.register);
}

/// the witness block: five defs over RAX / EAX / AH, two jumps
fn verif_sat_subreg_block(rax: &RegisterProperties, eax: &RegisterProperties, ah: &RegisterProperties,
                          register_map: &HashMap<&String, &RegisterProperties>, tmp: &String) -> (b: Term<Blk>)
    requires sr_sat_tab(register_map@, *rax, *eax, *ah), tmp@ == "loaded_value"@,
    ensures sr_block_ok(register_map@, b.term), b.term.defs@.len() == 5, b.term.jmps@.len() == 2,
        b.term.jmps@[0].term is CBranch,
{
    let ghost t = register_map@;
    let ghost vr = Variable { name: rax.register, size: ByteSize(8), is_temp: false };
    let ghost ve = Variable { name: eax.register, size: ByteSize(4), is_temp: false };
    let ghost va = Variable { name: ah.register, size: ByteSize(1), is_temp: false };
    proof {
        lemma_sat_subreg_table_ok(t, *rax, *eax, *ah, *tmp);
        lemma_sat_subreg_vars(t, *rax, *eax, *ah, *tmp, vr);
        lemma_sat_subreg_vars(t, *rax, *eax, *ah, *tmp, ve);
        lemma_sat_subreg_vars(t, *rax, *eax, *ah, *tmp, va);
        reveal_with_fuel(sr_occurs, 3); reveal_with_fuel(sr_sized, 3); reveal_with_fuel(expr_bytes, 3);
    }
    // EAX = EAX + 1
    let v0 = Expression::BinOp { op: BinOpType::IntAdd, lhs: Box::new(verif_sat_subreg_ev(&eax.register, 4)), rhs: Box::new(Expression::Const(Bitvector::from_u32(1))) };
    let d0 = Def::Assign { var: verif_sat_subreg_var(&eax.register, 4), value: v0 };
    // RAX = ZEXT(EAX)
    let v1 = Expression::Cast { op: CastOpType::IntZExt, size: ByteSize(8), arg: Box::new(verif_sat_subreg_ev(&eax.register, 4)) };
    let d1 = Def::Assign { var: verif_sat_subreg_var(&rax.register, 8), value: v1 };
    // AH = LOAD(RAX)
    let d2 = Def::Load { var: verif_sat_subreg_var(&ah.register, 1), address: verif_sat_subreg_ev(&rax.register, 8) };
    // STORE(RAX, AH)
    let d3 = Def::Store { address: verif_sat_subreg_ev(&rax.register, 8), value: verif_sat_subreg_ev(&ah.register, 1) };
    // EAX = EAX ^ EAX
    let v4 = Expression::BinOp { op: BinOpType::IntXOr, lhs: Box::new(verif_sat_subreg_ev(&eax.register, 4)), rhs: Box::new(verif_sat_subreg_ev(&eax.register, 4)) };
    let d4 = Def::Assign { var: verif_sat_subreg_var(&eax.register, 4), value: v4 };
    proof {
        assert(sr_def_ok(t, sr_tmp(), d0));
        assert(sr_def_ok(t, sr_tmp(), d1));
        assert(sr_def_ok(t, sr_tmp(), d2));
        assert(sr_def_ok(t, sr_tmp(), d3));
        assert(sr_def_ok(t, sr_tmp(), d4));
    }
    let mut defs: Vec<Term<Def>> = Vec::new();
    defs.push(Term { tid: verif_sat_subreg_tid("d0"), term: d0 });
    defs.push(Term { tid: verif_sat_subreg_tid("d1"), term: d1 });
    defs.push(Term { tid: verif_sat_subreg_tid("d2"), term: d2 });
    defs.push(Term { tid: verif_sat_subreg_tid("d3"), term: d3 });
    defs.push(Term { tid: verif_sat_subreg_tid("d4"), term: d4 });
    // CBRANCH (AH == 0) ; BRANCH
    let c = Expression::BinOp { op: BinOpType::IntEqual, lhs: Box::new(verif_sat_subreg_ev(&ah.register, 1)), rhs: Box::new(Expression::Const(Bitvector::from_u8(0))) };
    let ghost gc = c;
    let mut jmps: Vec<Term<Jmp>> = Vec::new();
    jmps.push(Term { tid: verif_sat_subreg_tid("j0"), term: Jmp::CBranch { target: verif_sat_subreg_tid("blk1"), condition: c } });
    jmps.push(Term { tid: verif_sat_subreg_tid("j1"), term: Jmp::Branch(verif_sat_subreg_tid("blk2")) });
    proof {
        assert(sr_expr_fits(t, gc) && sr_avoids(gc, sr_tmp()));
    }
    Term { tid: verif_sat_subreg_tid("blk0"), term: Blk { defs, jmps, indirect_jmp_targets: Vec::new() } }
}

/// (a') relative to (d): every contracted function of the unit is called on the constructed table / block
#[verifier::exec_allows_no_decreases_clause]
pub fn verif_sat_subreg_chain()
    requires vstd::std_specs::hash::obeys_key_model::<&String>(),
{
    let rax_name = "RAX".to_string();
    let rax = RegisterProperties { register: rax_name.clone(), base_register: rax_name.clone(), lsb: ByteSize(0), size: ByteSize(8) };
    let eax = RegisterProperties { register: "EAX".to_string(), base_register: rax_name.clone(), lsb: ByteSize(0), size: ByteSize(4) };
    let ah = RegisterProperties { register: "AH".to_string(), base_register: rax_name.clone(), lsb: ByteSize(1), size: ByteSize(1) };
    let tmp = "loaded_value".to_string();
    let map = verif_sat_subreg_table(&rax, &eax, &ah);
    proof {
        lemma_sat_subreg_table_ok(map@, rax, eax, ah, tmp);
        lemma_sat_subreg_env_ok(map@, rax, eax, ah);
        lemma_sat_subreg_vars(map@, rax, eax, ah, tmp, Variable { name: eax.register, size: ByteSize(4), is_temp: false });
        lemma_sat_subreg_vars(map@, rax, eax, ah, tmp, Variable { name: ah.register, size: ByteSize(1), is_temp: false });
        reveal_with_fuel(sr_occurs, 3); reveal_with_fuel(expr_bytes, 3);
    }
    let var_eax = verif_sat_subreg_var(&eax.register, 4);
    // no precondition: is_subregister_assignment, into_subregister, From<&RegisterProperties>
    let _ = is_subregister_assignment(&var_eax, &rax);
    let _ = into_subregister(&eax, &var_eax);
    let _v: IrVariable = (&rax).into();
    // create_subpiece_from_sub_register: key model, base in the table
    let _ = create_subpiece_from_sub_register(rax_name.clone(), ByteSize(4), ByteSize(0), &map);
    // piece_base_register_assignment_expression_together: sr_piece_pre, size of the value == size of the sub-register
    let e4 = Expression::BinOp { op: BinOpType::IntAdd, lhs: Box::new(verif_sat_subreg_ev(&eax.register, 4)), rhs: Box::new(Expression::Const(Bitvector::from_u32(1))) };
    let _ = piece_base_register_assignment_expression_together(&e4, &rax, &eax);          // lsb == 0: high part + value
    let e1 = verif_sat_subreg_ev(&ah.register, 1);
    let _ = piece_base_register_assignment_expression_together(&e1, &rax, &ah);           // lsb > 0, middle: high + value + low
    // no precondition: input_vars, substitute_input_var
    let _ = e4.input_vars();
    let mut e4b = Expression::BinOp { op: BinOpType::IntAdd, lhs: Box::new(verif_sat_subreg_ev(&eax.register, 4)), rhs: Box::new(Expression::Const(Bitvector::from_u32(1))) };
    e4b.substitute_input_var(&var_eax, &e1);
    // replace_input_subregister: key model, sr_table_ok, sr_expr_fits
    let _ = replace_input_subregister(e4, &map);
    // replace_subregister_in_jump: on the CBRANCH of the witness block
    let mut blk_j = verif_sat_subreg_block(&rax, &eax, &ah, &map, &tmp);
    let mut j0 = blk_j.term.jmps.remove(0);
    replace_subregister_in_jump(&mut j0, &map);
    // the builder on the witness block
    let blk = verif_sat_subreg_block(&rax, &eax, &ah, &map, &tmp);
    let mut builder = SubregisterSubstitutionBuilder::new(&blk, &map);
    // is_next_def_cast_to_base_register: key model, sr_table_ok, iterator well-formed
    let _ = builder.is_next_def_cast_to_base_register(&var_eax);
    // replace_subregister: ... + the def just taken from the iterator, sr_defs_ok, sr_inv at the start
    let def0 = builder.input_iter.next().unwrap();
    builder.replace_subregister(def0);
    // ... and once more at a later position, with sr_inv as the first call left it
    if let Some(def_next) = builder.input_iter.next() {
        builder.replace_subregister(def_next);
    }
    // replace_output_subregister: ... + sr_def_ok of the def (the last def of a second copy of the block: EAX = EAX ^ EAX)
    let mut blk_d = verif_sat_subreg_block(&rax, &eax, &ah, &map, &tmp);
    let def4 = blk_d.term.defs.pop().unwrap();
    let mut builder2 = SubregisterSubstitutionBuilder::new(&blk, &map);
    builder2.replace_output_subregister(def4);
    // compute_replacement_defs_for_block: key model, sr_table_ok, sr_defs_ok
    let _ = SubregisterSubstitutionBuilder::compute_replacement_defs_for_block(&blk, &map);
    // replace_subregister_in_block: key model, sr_table_ok, sr_block_ok
    let mut blk_m = verif_sat_subreg_block(&rax, &eax, &ah, &map, &tmp);
    replace_subregister_in_block(&mut blk_m, &map);
}
