// ---------------------------------------------------------------------------
// lemmas/instantiate_domain_map_data_sat.rs -- SATISFIABILITY WITNESSES of the preconditions of unit `instantiate_domain_map_data`
// (V = Data = DataDomain<IntervalDomain> as an instance of unit domain_map).  Nothing here is trusted; no axiom is added (the unit's own
// two BTreeMap axioms are used only through the unit's lemma_inst_data_closed_forms, as the unit's client does).
//   (c)  existing: lemma_inst_data_clone, lemma_inst_data_eq (under inst_id_eq_ok), lemma_inst_dm_data_merge_hyp, lemma_inst_dm_data_top PROVE
//        dm_clone_ok, the V half of dm_eq_ok, dm_merge_hyp, dm_top_is_max, dm_top_default at V = Data.  New:
//        lemma_sat_instantiate_domain_map_data_key_u64 PROVES the hypotheses on the OUTER key type at K = u64.
//   (d)  dd_id_ok() = vstd::laws_cmp::obeys_cmp::<AbstractIdentifier>() and inst_id_eq_ok() (obeys_eq_spec / eq_spec of the opaque,
//        external_derive'd AbstractIdentifier: no PartialEqSpecImpl exists, both are uninterpreted) cannot be proved: the chain
//        client takes exactly these two as its ONLY `requires`.
//   (a') verif_sat_instantiate_domain_map_data_abs: NO `requires`: two concrete Data values without targets (absolute parts [3,5] and [4,4]
//        of 1 byte, built with IntervalDomain::new from u8 constants) satisfy inst_data_merge_pre -- the value-level conjunct is
//        satisfiable independently of (d).
//        verif_sat_instantiate_domain_map_data_chain (relative to (d)): takes two AbstractIdentifier values as PARAMETERS (opaque type, no
//        constructor; nothing is required of them), builds Data values WITH a common target and an absolute part, calls the
//        extracted DataDomain::<IntervalDomain>::merge_with, the trait impls' merge / merge_with / is_top / top, then builds non-empty
//        BTreeMap<u64, Data> and calls the three strategies' merge_map_with of unit domain_map AT V = Data (MergeTop: dm_mergetop_pre incl.
//        the merges with top()) and the unit's client verif_inst_register_merge at K = u64.
// ---------------------------------------------------------------------------

/// (c) the hypotheses on the outer key type K of the unit's client hold at K = u64
pub proof fn lemma_sat_instantiate_domain_map_data_key_u64()
    ensures
        inst_dm::dm_key_ok::<u64>(), <u64 as PartialEqSpec>::obeys_eq_spec(), forall |x: u64, y: u64| #[trigger] PartialEqSpec::eq_spec(&x, &y) <==> x == y,
        inst_dm::dm_clone_ok::<DataDomain<IntervalDomain>>(), inst_dm::dm_merge_hyp::<DataDomain<IntervalDomain>>(),
        inst_dm::dm_top_is_max::<DataDomain<IntervalDomain>>(), inst_dm::dm_top_default::<DataDomain<IntervalDomain>>(),
{
    lemma_inst_data_clone();
    lemma_inst_dm_data_merge_hyp();
    lemma_inst_dm_data_top();
}

/// the one-byte interval value [lo, hi] without widening hints, delay 0 (helper; its `requires` is checked at the calls below)
pub fn verif_sat_instantiate_domain_map_data_iv(lo: u8, hi: u8) -> (r: IntervalDomain)
    requires lo <= hi < 128,
    ensures
        r.inv(), r.w() == 8, r.widening_delay == 0, r.widening_lower_bound is None, r.widening_upper_bound is None,
        r.interval.start == bv(8, lo as nat),
        forall |v: Bitvector| v.wf() && v.w@ == 8 ==> (#[trigger] r.gamma(v) <==> lo <= v.s() <= hi),
{
    proof { lemma_p2_consts(); }
    let mut r = IntervalDomain::new(Bitvector::from_u8(lo), Bitvector::from_u8(hi));
    r.widening_delay = 0;
    r.widening_lower_bound = None;
    r.widening_upper_bound = None;
    r
}

/// (a') NO `requires`: inst_data_merge_pre on two concrete, different Data values (absolute parts only)
pub fn verif_sat_instantiate_domain_map_data_abs()
{
    let x = DataDomain::<IntervalDomain> { size: ByteSize(1), relative_values: BTreeMap::new(), absolute_value: Some(verif_sat_instantiate_domain_map_data_iv(3, 5)), contains_top_values: false };
    let y = DataDomain::<IntervalDomain> { size: ByteSize(1), relative_values: BTreeMap::new(), absolute_value: Some(verif_sat_instantiate_domain_map_data_iv(4, 4)), contains_top_values: true };
    proof {
        lemma_inst_iv_merge_pre_small(x.absolute_value->Some_0, y.absolute_value->Some_0);
        assert(inst_data_merge_pre(x, y));
        assert(x != y);
        // and it is not trivially true: a 1-byte and a 2-byte absolute part do not satisfy it
    }
}

/// x = {size 1, targets {id: [lo, lo]}, absolute [lo, hi]},  needs dd_id_ok() for BTreeMap::insert on the opaque key type
pub fn verif_sat_instantiate_domain_map_data_val(id: &AbstractIdentifier, lo: u8, hi: u8, top: bool) -> (r: DataDomain<IntervalDomain>)
    requires dd_id_ok(), lo <= hi < 128,
    ensures
        r.size == ByteSize(1), r.contains_top_values == top,
        r.relative_values@.dom() =~= set![*id],
        r.relative_values@[*id].inv() && r.relative_values@[*id].w() == 8 && r.relative_values@[*id].widening_delay == 0,
        r.absolute_value is Some && r.absolute_value->Some_0.inv() && r.absolute_value->Some_0.w() == 8 && r.absolute_value->Some_0.widening_delay == 0,
        r.absolute_value->Some_0.interval.start == bv(8, lo as nat),
{
    let mut m: BTreeMap<AbstractIdentifier, IntervalDomain> = BTreeMap::new();
    m.insert(id.clone(), verif_sat_instantiate_domain_map_data_iv(lo, lo));
    DataDomain::<IntervalDomain> { size: ByteSize(1), relative_values: m, absolute_value: Some(verif_sat_instantiate_domain_map_data_iv(lo, hi)), contains_top_values: top }
}

/// any two values built by .._val satisfy DataDomain::merge's precondition at T = IntervalDomain
pub proof fn lemma_sat_instantiate_domain_map_data_pre(a: DataDomain<IntervalDomain>, b: DataDomain<IntervalDomain>, ia: AbstractIdentifier, ib: AbstractIdentifier)
    requires
        a.relative_values@.dom() =~= set![ia], b.relative_values@.dom() =~= set![ib],
        a.relative_values@[ia].inv() && a.relative_values@[ia].w() == 8 && a.relative_values@[ia].widening_delay == 0,
        b.relative_values@[ib].inv() && b.relative_values@[ib].w() == 8 && b.relative_values@[ib].widening_delay == 0,
        a.absolute_value is Some && a.absolute_value->Some_0.inv() && a.absolute_value->Some_0.w() == 8 && a.absolute_value->Some_0.widening_delay == 0,
        b.absolute_value is Some && b.absolute_value->Some_0.inv() && b.absolute_value->Some_0.w() == 8 && b.absolute_value->Some_0.widening_delay == 0,
    ensures inst_data_merge_pre(a, b)
{
    lemma_inst_iv_merge_pre_small(a.absolute_value->Some_0, b.absolute_value->Some_0);
    assert forall |id: AbstractIdentifier| a.relative_values@.contains_key(id) && b.relative_values@.contains_key(id)
        implies inst_iv_merge_pre(a.relative_values@[id], b.relative_values@[id]) by {
        assert(id == ia && id == ib);
        lemma_inst_iv_merge_pre_small(a.relative_values@[id], b.relative_values@[id]);
    }
}

/// left = {1: val(id, 3..5), 2: val(id2, 1..1, Top flag)}   right = {1: val(id, 4..4), 3: val(id2, 9..9)}: the common key 1 holds two
/// different values with the COMMON target id
pub fn verif_sat_instantiate_domain_map_data_maps(id: &AbstractIdentifier, id2: &AbstractIdentifier) -> (r: (BTreeMap<u64, DataDomain<IntervalDomain>>, BTreeMap<u64, DataDomain<IntervalDomain>>))
    requires dd_id_ok(),
    ensures
        r.0@.dom() =~= set![1u64, 2u64], r.1@.dom() =~= set![1u64, 3u64],
        inst_data_merge_pre(r.0@[1u64], r.1@[1u64]),
        r.0@[1u64] != r.1@[1u64],
        r.0@[1u64].relative_values@.contains_key(*id) && r.1@[1u64].relative_values@.contains_key(*id),
{
    let x = verif_sat_instantiate_domain_map_data_val(id, 3, 5, false);
    let y = verif_sat_instantiate_domain_map_data_val(id, 4, 4, false);
    proof {
        lemma_sat_instantiate_domain_map_data_pre(x, y, *id, *id);
        assert(x.relative_values@.contains_key(*id) && y.relative_values@.contains_key(*id));
        lemma_p2_consts();
        assert(bv(8, 3) != bv(8, 4));
    }
    let mut l: BTreeMap<u64, DataDomain<IntervalDomain>> = BTreeMap::new();
    l.insert(1u64, x);
    l.insert(2u64, verif_sat_instantiate_domain_map_data_val(id2, 1, 1, true));
    let mut r: BTreeMap<u64, DataDomain<IntervalDomain>> = BTreeMap::new();
    r.insert(1u64, y);
    r.insert(3u64, verif_sat_instantiate_domain_map_data_val(id2, 9, 9, false));
    (l, r)
}

/// (a') relative to (d): ONLY `requires` = the two uninterpreted hypotheses on the opaque key type AbstractIdentifier
pub fn verif_sat_instantiate_domain_map_data_chain(id: AbstractIdentifier, id2: AbstractIdentifier)
    requires dd_id_ok(), inst_id_eq_ok(),
{
    proof {
        lemma_sat_instantiate_domain_map_data_key_u64();
        // lemma_inst_data_eq: requires inst_id_eq_ok()
        lemma_inst_data_eq();
    }
    // ---- the extracted trait default AbstractDomain::merge_with at Self = Data: dd_id_ok(), inst_id_eq_ok(), inst_data_merge_pre
    let mut x = verif_sat_instantiate_domain_map_data_val(&id, 3, 5, false);
    let y = verif_sat_instantiate_domain_map_data_val(&id, 4, 4, true);
    let y2 = verif_sat_instantiate_domain_map_data_val(&id2, 4, 4, false);
    proof { lemma_sat_instantiate_domain_map_data_pre(x, y, id, id); }
    // (called through the instance `impl inst_dm::AbstractDomain for Data`, whose merge_with body IS the one-line call of the extracted
    // function and whose `requires` merge_pre_spec is, by definition, exactly this conjunction: a unit that IMPORTS this one does not
    // re-emit the extracted function as an inherent fn of DataDomain, so the inherent path would not compile there)
    proof { assert(dd_id_ok() && inst_id_eq_ok() && inst_data_merge_pre(x, y)); }
    let _ = <DataDomain<IntervalDomain> as inst_dm::AbstractDomain>::merge_with(&mut x, &y);
    proof { assert(x.size == ByteSize(1) && x.contains_top_values); }
    // ---- the instance: impl inst_dm::AbstractDomain / inst_dm::HasTop for Data (merge / merge_with under merge_pre_spec)
    let x = verif_sat_instantiate_domain_map_data_val(&id, 3, 5, false);
    proof { lemma_sat_instantiate_domain_map_data_pre(x, y2, id, id2); }
    let m = <DataDomain<IntervalDomain> as inst_dm::AbstractDomain>::merge(&x, &y2);
    let mut x1 = verif_sat_instantiate_domain_map_data_val(&id, 3, 5, false);
    proof { lemma_sat_instantiate_domain_map_data_pre(x1, y, id, id); }
    let _ = <DataDomain<IntervalDomain> as inst_dm::AbstractDomain>::merge_with(&mut x1, &y);
    let t = <DataDomain<IntervalDomain> as inst_dm::HasTop>::top(&x);
    let tt = <DataDomain<IntervalDomain> as inst_dm::AbstractDomain>::is_top(&t);
    let tx = <DataDomain<IntervalDomain> as inst_dm::AbstractDomain>::is_top(&x);
    proof {
        lemma_inst_data_closed_forms(x, x);
        assert(x.relative_values@.contains_key(id));
        assert(tt && !tx);
    }
    // ---- the strategies of unit domain_map at V = Data: dm_key_ok::<u64>(), dm_clone_ok::<Data>(), S::merge_map_pre_spec
    proof {
        // merging with top() needs nothing of IntervalDomain: top() has no targets and no absolute part (as in verif_inst_register_merge)
        assert forall |v: DataDomain<IntervalDomain>| inst_data_merge_pre(v, #[trigger] inst_data_top(v)) && inst_data_merge_pre(inst_data_top(v), v) by {
            lemma_inst_data_closed_forms(v, v);
        }
    }
    let (mut l, r) = verif_sat_instantiate_domain_map_data_maps(&id, &id2);
    proof { assert(l@.contains_key(1u64) && l@.contains_key(2u64) && r@.contains_key(1u64) && r@.contains_key(3u64)); }
    <inst_dm::UnionMergeStrategy as inst_dm::MapMergeStrategy<u64, DataDomain<IntervalDomain>>>::merge_map_with(&mut l, &r);
    proof { assert(l@.contains_key(1u64) && l@.contains_key(2u64) && l@.contains_key(3u64)); }
    let (mut l, r) = verif_sat_instantiate_domain_map_data_maps(&id, &id2);
    proof { assert(l@.contains_key(1u64) && l@.contains_key(2u64) && r@.contains_key(1u64) && r@.contains_key(3u64)); }
    <inst_dm::IntersectMergeStrategy as inst_dm::MapMergeStrategy<u64, DataDomain<IntervalDomain>>>::merge_map_with(&mut l, &r);
    proof { assert(!l@.contains_key(2u64) && !l@.contains_key(3u64)); }
    let (mut l, r) = verif_sat_instantiate_domain_map_data_maps(&id, &id2);
    proof {
        assert(l@.contains_key(1u64) && l@.contains_key(2u64) && r@.contains_key(1u64) && r@.contains_key(3u64));
        assert(inst_dm::dm_mergetop_pre(l@, r@));
    }
    <MergeTopStrategy as inst_dm::MapMergeStrategy<u64, DataDomain<IntervalDomain>>>::merge_map_with(&mut l, &r);
    // ---- the unit's client at K = u64
    let (l, r) = verif_sat_instantiate_domain_map_data_maps(&id, &id2);
    proof { assert(l@.contains_key(1u64) && l@.contains_key(2u64) && r@.contains_key(1u64) && r@.contains_key(3u64)); }
    let a: DomainMap<u64, DataDomain<IntervalDomain>, MergeTopStrategy> = DomainMap::from(l);
    let b: DomainMap<u64, DataDomain<IntervalDomain>, MergeTopStrategy> = DomainMap::from(r);
    let z = verif_inst_register_merge::<u64>(&a, &b);
}
