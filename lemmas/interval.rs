// ---------------------------------------------------------------------------
// lemmas/interval.rs -- proved facts about gcd / divisibility / interval members.
// ---------------------------------------------------------------------------

pub open spec fn divides(d: int, x: int) -> bool { if d == 0 { x == 0 } else { x % d == 0 } }

pub proof fn lemma_divides_witness(d: int, x: int)
    requires d > 0
    ensures divides(d, x) <==> x == d * (x / d),
{
    vstd::arithmetic::div_mod::lemma_fundamental_div_mod(x, d);
}
pub proof fn lemma_divides_mul(d: int, k: int)
    requires d > 0
    ensures divides(d, d * k), divides(d, k * d),
{
    assert(d * k == k * d) by (nonlinear_arith);
    vstd::arithmetic::div_mod::lemma_fundamental_div_mod_converse(d * k, d, k, 0);
}
pub proof fn lemma_divides_add(d: int, x: int, y: int)
    requires d > 0, divides(d, x), divides(d, y)
    ensures divides(d, x + y), divides(d, x - y), divides(d, -x),
{
    lemma_divides_witness(d, x); lemma_divides_witness(d, y);
    let (qx, qy) = (x / d, y / d);
    assert(x + y == d * (qx + qy)) by (nonlinear_arith) requires x == d * qx, y == d * qy;
    assert(x - y == d * (qx - qy)) by (nonlinear_arith) requires x == d * qx, y == d * qy;
    assert(-x == d * (-qx)) by (nonlinear_arith) requires x == d * qx;
    lemma_divides_mul(d, qx + qy); lemma_divides_mul(d, qx - qy); lemma_divides_mul(d, -qx);
}
pub proof fn lemma_divides_trans(g: int, s: int, x: int)
    requires g > 0, s > 0, divides(g, s), divides(s, x)
    ensures divides(g, x),
{
    lemma_divides_witness(g, s); lemma_divides_witness(s, x);
    let (a, b) = (s / g, x / s);
    assert(x == g * (a * b)) by (nonlinear_arith) requires s == g * a, x == s * b;
    lemma_divides_mul(g, a * b);
}

/// spec_gcd divides both arguments, is positive unless both are 0
pub proof fn lemma_gcd(a: nat, b: nat)
    ensures spec_gcd(a, b) == 0 <==> (a == 0 && b == 0),
            divides(spec_gcd(a, b) as int, a as int), divides(spec_gcd(a, b) as int, b as int),
    decreases b
{
    if b != 0 {
        lemma_gcd(b, a % b);
        let g = spec_gcd(a, b) as int;
        // g | b and g | a % b  ->  g | a
        vstd::arithmetic::div_mod::lemma_fundamental_div_mod(a as int, b as int);
        lemma_divides_witness(g, b as int);
        let q = (a as int) / (b as int);
        assert(divides(g, (b as int) * q)) by {
            let k = (b as int) / g;
            assert((b as int) * q == g * (k * q)) by (nonlinear_arith) requires b as int == g * k;
            lemma_divides_mul(g, k * q);
        }
        lemma_divides_add(g, (b as int) * q, (a % b) as int);
    } else if a != 0 {
        lemma_divides_mul(a as int, 1);
    }
}

pub proof fn lemma_on_stride_is_divides(stride: u64, d: int)
    ensures on_stride(stride, d) == divides(stride as int, d),
{}

/// signed_min_value / signed_max_value and the full interval
pub proof fn lemma_minmax(w: nat)
    requires 1 <= w
    ensures sval(w, p2((w - 1) as nat)) == smin(w), sval(w, (p2((w - 1) as nat) - 1) as nat) == smax(w),
            smin(w) <= smax(w), smin(w) < 0 <= smax(w), p2(w) == 2 * p2((w - 1) as nat),
{
    lemma_p2(w); lemma_p2((w - 1) as nat);
}

pub proof fn lemma_full_contains(i: Interval)
    requires i.start.wf(), i.end.wf(), i.start.w@ == i.end.w@, i.is_full()
    ensures i.inv(), forall|v: Bitvector| v.wf() && v.w@ == i.w() ==> #[trigger] i.gamma(v),
{
    let w = i.w();
    lemma_minmax(w);
    assert forall|v: Bitvector| v.wf() && v.w@ == i.w() implies #[trigger] i.gamma(v) by {
        lemma_sval(w, v.u@);
    }
}

/// no signed overflow: the wrapped sum / difference reads as the exact one
pub proof fn lemma_add_exact(x: Bitvector, y: Bitvector)
    requires x.wf(), y.wf(), x.w@ == y.w@
    ensures bv_add(x, y).wf(), bv_sub(x, y).wf(),
            smin(x.w@) <= x.s() + y.s() <= smax(x.w@) ==> bv_add(x, y).s() == x.s() + y.s(),
            smin(x.w@) <= x.s() - y.s() <= smax(x.w@) ==> bv_sub(x, y).s() == x.s() - y.s(),
{
    lemma_binop_facts(x, y);
}

pub proof fn lemma_gcd_on_stride(sa: u64, sb: u64, da: int, db: int)
    requires on_stride(sa, da), on_stride(sb, db)
    ensures on_stride(spec_gcd(sa as nat, sb as nat) as u64, da + db),
            on_stride(spec_gcd(sa as nat, sb as nat) as u64, da - db),
            spec_gcd(sa as nat, sb as nat) <= u64::MAX,
            (spec_gcd(sa as nat, sb as nat) == 0) == (sa == 0 && sb == 0),
{
    let g = spec_gcd(sa as nat, sb as nat) as int;
    lemma_gcd(sa as nat, sb as nat);
    lemma_gcd_bound(sa as nat, sb as nat);
    if g != 0 {
        if sa != 0 { lemma_divides_trans(g, sa as int, da); } else { lemma_divides_mul(g, 0); }
        if sb != 0 { lemma_divides_trans(g, sb as int, db); } else { lemma_divides_mul(g, 0); }
        lemma_divides_add(g, da, db);
    }
}
pub proof fn lemma_gcd_bound(a: nat, b: nat)
    ensures spec_gcd(a, b) <= (if a >= b { a } else { b }),
    decreases b
{
    if b != 0 {
        lemma_gcd_bound(b, a % b);
        vstd::arithmetic::div_mod::lemma_mod_bound(a as int, b as int);
    }
}

/// Interval::add, the non-overflowing case
pub proof fn lemma_interval_add(a: Interval, b: Interval)
    requires a.inv(), b.inv(), a.w() == b.w(),
    ensures ({
        let r = Interval { start: bv_add(a.start, b.start), end: bv_add(a.end, b.end), stride: spec_gcd(a.stride as nat, b.stride as nat) as u64 };
        (r.start.s() == a.start.s() + b.start.s() && r.end.s() == a.end.s() + b.end.s()) ==>
            r.inv() && forall|x: Bitvector, y: Bitvector| a.gamma(x) && b.gamma(y) ==> #[trigger] r.gamma(bv_add(x, y))
    }),
{
    let w = a.w();
    let r = Interval { start: bv_add(a.start, b.start), end: bv_add(a.end, b.end), stride: spec_gcd(a.stride as nat, b.stride as nat) as u64 };
    lemma_add_exact(a.start, b.start); lemma_add_exact(a.end, b.end);
    if r.start.s() == a.start.s() + b.start.s() && r.end.s() == a.end.s() + b.end.s() {
        lemma_gcd_on_stride(a.stride, b.stride, a.end.s() - a.start.s(), b.end.s() - b.start.s());
        lemma_sval(w, r.start.u@); lemma_sval(w, r.end.u@);
        assert(r.inv());
        assert forall|x: Bitvector, y: Bitvector| a.gamma(x) && b.gamma(y) implies #[trigger] r.gamma(bv_add(x, y)) by {
            lemma_add_exact(x, y);
            lemma_gcd_on_stride(a.stride, b.stride, x.s() - a.start.s(), y.s() - b.start.s());
        }
    }
}
