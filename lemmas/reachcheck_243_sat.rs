// ---------------------------------------------------------------------------
// lemmas/reachcheck_243_sat.rs -- SATISFIABILITY WITNESSES of unit `reachcheck_243` (nothing here is trusted).
//   Preconditions of functions of /repo contracted in this unit: ONE, the hypothesis rc_tid_ord_hyp() = obeys_cmp::<Tid>() of
//   find_symbol (now extracted and PROVED here) and of check_cwe (which calls it); blk_calls_tid,
//   sub_calls_chdir_and_priviledge_dropping_func and @nobody generate_cwe_warning have `ensures` only.  Preconditions on SHIM
//   items: verif_rc_any (the closure's precondition holds for every element), Index<NodeIndex> for DiGraph (index_req: the
//   node exists), RcEdges::next (wf(); unit reachcheck), verif_rc_never (`requires false` BY DESIGN: a panic site as proof
//   obligation; never called in this unit).
//   (d)  rc_tid_ord_hyp() is vstd's obeys_cmp::<Tid>(): opened by lemma_sat_callgraph_build_key_hyp_open of unit
//        callgraph_build (eq half PROVED, rest = "the uninterpreted cmp_spec of Tid is a strict total order whose Equal is
//        =="); lemma_sat_reachcheck_243_ord_hyp_open restates that it is the first conjunct of cgb_key_hyp().  No trusted item of
//        shim/reachcheck*.rs mentions it.
//   (a') relative to (d): verif_sat_reachcheck_243_chain: exec client whose only precondition is (d), over ARBITRARY results /
//        parameters / block / function / tids (all opaque or unconstructible in exec code without std shims: parameters); calls
//        every contracted function and the shim items with a `requires`; `graph[node]` under the exec test "the graph has a
//        node" (conditional on that).  (a) witnesses exist too: the verified sub_calls_.. calls verif_rc_any, the verified
//        check_cwe indexes the graph and calls find_symbol.
//   NON-DEGENERACY of the (now DEFINED) lookup rc_find_symbol and of the contract of find_symbol, WITHOUT any hypothesis:
//     lemma_sat_reachcheck_243_find_symbol_witness -- on the table with the single symbol `e` under key `k`,
//     rc_find_symbol(m, e.name) == Some(e.tid), rc_find_symbol(m, other name) and rc_find_symbol(empty table, _) are None, and
//     `Some((&e.tid, n))` / `None` satisfy rc_find_symbol_post and rc_first_found_post there.
// ---------------------------------------------------------------------------

/// (d) rc_tid_ord_hyp() is the ordering half of the hypothesis of unit callgraph_build (opened there)
pub proof fn lemma_sat_reachcheck_243_ord_hyp_open()
    ensures cgb_key_hyp() <==> rc_tid_ord_hyp() && vstd::std_specs::hash::obeys_key_model::<Tid>(),
{
}

/// (a') every contracted function of the unit and every shim item with a `requires` is called once; only (d) is required
#[verifier::exec_allows_no_decreases_clause]
pub fn verif_sat_reachcheck_243_chain(analysis_results: &AnalysisResults, cwe_params: &serde_json::Value,
                                      blk: &Term<Blk>, sub: &Term<Sub>, tid: &Tid, tids: &Vec<Tid>)
    requires rc_tid_ord_hyp(),
{
    let _a = blk_calls_tid(blk, tid);
    let _b = sub_calls_chdir_and_priviledge_dropping_func(sub, tid, tids.as_slice());
    let _s = find_symbol(&analysis_results.project.program, "chdir");
    assert(_s is Some <==> rc_imported(analysis_results.project.program.term.extern_symbols@, "chdir"@));
    // verif_rc_any: call_requires(f, (&s[i],)) for every element
    let f = |t: &Tid| -> (b: bool) ensures b { true };
    let _c = verif_rc_any(tids.as_slice(), f);
    // Index<NodeIndex> for DiGraph: index_req = the node exists
    let graph = analysis_results.control_flow_graph;
    let ni = verif_rc_node_indices(graph);
    if ni.len() > 0 {
        let _w = graph[ni[0]];
    }
    // check_cwe: only (d)
    let r = check_cwe(analysis_results, cwe_params);
    assert(r.0@.len() == 0);
}

/// NON-DEGENERACY of rc_find_symbol / rc_find_symbol_post / rc_first_found_post (no hypothesis): a table with one symbol
pub proof fn lemma_sat_reachcheck_243_find_symbol_witness<'a>(k: Tid, e: ExternSymbol, other: Seq<char>, n: &'a str, t: &'a Tid)
    requires other != e.name@, n@ == e.name@, *t == e.tid,
    ensures ({
        let m = Map::<Tid, ExternSymbol>::empty().insert(k, e);
        &&& rc_find_symbol(m, e.name@) == Some(e.tid)
        &&& rc_find_symbol(m, other) is None
        &&& rc_find_symbol(Map::<Tid, ExternSymbol>::empty(), other) is None
        &&& rc_find_symbol_post(m, e.name@, Some((t, n)))
        &&& rc_first_found_post(m, e.name@, Some((t, n)))
        &&& rc_find_symbol_post(m, other, None::<(&'a Tid, &'a str)>)
        &&& rc_first_found_post(m, other, None::<(&'a Tid, &'a str)>)
        &&& !rc_find_symbol_post(m, e.name@, None::<(&'a Tid, &'a str)>)
    }),
{
    reveal(rc_find_symbol);
    let m = Map::<Tid, ExternSymbol>::empty().insert(k, e);
    assert(m.contains_key(k) && m[k] == e);
    assert(rc_first_named(m, e.name@, k));
    let c = choose |c: Tid| rc_first_named(m, e.name@, c);
    assert(c == k);
    assert forall |k2: Tid| !rc_first_named(m, other, k2) by {}
    assert forall |k2: Tid| !rc_first_named(Map::<Tid, ExternSymbol>::empty(), other, k2) by {}
    assert(rc_imported(m, e.name@));
    assert(!rc_imported(m, other)) by {
        assert forall |k2: Tid| !(m.contains_key(k2) && (#[trigger] m[k2]).name@ == other) by {}
    }
}
