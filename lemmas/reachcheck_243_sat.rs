// ---------------------------------------------------------------------------
// lemmas/reachcheck_243_sat.rs -- SATISFIABILITY WITNESSES of unit `reachcheck_243` (nothing here is trusted).
//   No function of /repo contracted in this unit has a precondition (blk_calls_tid, sub_calls_chdir_and_priviledge_dropping_func,
//   check_cwe, @nobody find_symbol / generate_cwe_warning: `ensures` only).  Preconditions exist only on SHIM items:
//     verif_rc_any (the closure's precondition holds for every element), Index<NodeIndex> for DiGraph (index_req: the node
//     exists), RcEdges::next (wf(); unit reachcheck), verif_rc_never (`requires false` BY DESIGN: a panic site as proof
//     obligation; never called in this unit).
//   (a') verif_sat_reachcheck_243_chain: exec client WITHOUT preconditions over ARBITRARY results / parameters / block / function /
//        tids (all opaque or unconstructible in exec code without std shims: parameters); calls every contracted function and the
//        shim items with a `requires`; `graph[node]` under the exec test "the graph has a node" (conditional on that).
//        (a) witnesses exist too: the verified sub_calls_.. calls verif_rc_any, the verified check_cwe indexes the graph.
//   MODEL of the @nobody contract of find_symbol (constrains the uninterpreted rc_find_symbol):
//     lemma_sat_reachcheck_243_find_symbol_model -- "the tid field of some symbol of that name, None iff none" satisfies
//     rc_find_symbol_post for all (m, name).
// ---------------------------------------------------------------------------

/// (a') every contracted function of the unit and every shim item with a `requires` is called once; no precondition
#[verifier::exec_allows_no_decreases_clause]
pub fn verif_sat_reachcheck_243_chain(analysis_results: &AnalysisResults, cwe_params: &serde_json::Value,
                                      blk: &Term<Blk>, sub: &Term<Sub>, tid: &Tid, tids: &Vec<Tid>)
{
    let _a = blk_calls_tid(blk, tid);
    let _b = sub_calls_chdir_and_priviledge_dropping_func(sub, tid, tids.as_slice());
    let _s = find_symbol(&analysis_results.project.program, "chdir");
    // verif_rc_any: call_requires(f, (&s[i],)) for every element
    let f = |t: &Tid| -> (b: bool) ensures b { true };
    let _c = verif_rc_any(tids.as_slice(), f);
    // Index<NodeIndex> for DiGraph: index_req = the node exists
    let graph = analysis_results.control_flow_graph;
    let ni = verif_rc_node_indices(graph);
    if ni.len() > 0 {
        let _w = graph[ni[0]];
    }
    // check_cwe: no precondition
    let r = check_cwe(analysis_results, cwe_params);
    assert(r.0@.len() == 0);
}

/// a model of the uninterpreted rc_find_symbol: the `tid` field of SOME symbol of that name
pub open spec fn rc243_sat_find_model(m: Map<Tid, ExternSymbol>, name: Seq<char>) -> Option<Tid> {
    if rc_imported(m, name) { Some(m[choose |k: Tid| m.contains_key(k) && (#[trigger] m[k]).name@ == name].tid) } else { None }
}

/// rc_find_symbol_post (shim/reachcheck_checks.rs) with `rc_find_symbol(m, name)` replaced by `fs` and `*r->Some_0.0` by
/// r->Some_0 (same conjunct order)
pub open spec fn rc243_sat_find_post(m: Map<Tid, ExternSymbol>, name: Seq<char>, fs: Option<Tid>, r: Option<Tid>) -> bool {
    &&& r is None <==> !rc_imported(m, name)
    &&& r is None <==> fs is None
    &&& r is Some ==> fs == Some(r->Some_0)
            && exists |k: Tid| m.contains_key(k) && (#[trigger] m[k]).name@ == name && m[k].tid == r->Some_0
}

/// MODEL of the @nobody contract of find_symbol: with the model for rc_find_symbol a result exists for every table and name
pub proof fn lemma_sat_reachcheck_243_find_symbol_model(m: Map<Tid, ExternSymbol>, name: Seq<char>)
    ensures exists |r: Option<Tid>| #[trigger] rc243_sat_find_post(m, name, rc243_sat_find_model(m, name), r),
{
    assert(rc243_sat_find_post(m, name, rc243_sat_find_model(m, name), rc243_sat_find_model(m, name)));
}
