// ---------------------------------------------------------------------------
// lemmas/interval_domain_ops.rs -- proof material of unit interval_domain_ops (C02 at the
// IntervalDomain level).  No assumptions.
// ---------------------------------------------------------------------------

/// provenance of a widening hint, stated over the mathematical value `c` of the candidate bound
/// (lower_hint_from / upper_hint_from of spec/interval_domain.rs with b.s() == c)
pub open spec fn ido_lower_hint(i: Interval, c: int, h: Bitvector) -> bool {
    &&& h.wf() && h.w@ == i.w() && c <= h.s() < i.start.s()
    &&& ((i.stride == 0 || i.w() > 64) ==> h.s() == c)
    &&& ((i.stride > 0 && i.w() <= 64) ==> on_stride(i.stride, h.s() - i.start.s()) && h.s() - c < i.stride)
}
pub open spec fn ido_upper_hint(i: Interval, c: int, h: Bitvector) -> bool {
    &&& h.wf() && h.w@ == i.w() && i.end.s() < h.s() <= c
    &&& ((i.stride == 0 || i.w() > 64) ==> h.s() == c)
    &&& ((i.stride > 0 && i.w() <= 64) ==> on_stride(i.stride, h.s() - i.start.s()) && c - h.s() < i.stride)
}
pub open spec fn ido_max(a: u64, b: u64) -> u64 { if a <= b { b } else { a } }
