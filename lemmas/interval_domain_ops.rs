// ---------------------------------------------------------------------------
// lemmas/interval_domain_ops.rs -- proof material of unit interval_domain_ops (C02 at the
// IntervalDomain level).  No assumptions.
// ---------------------------------------------------------------------------

/// provenance of a widening hint, stated over the mathematical value `c` of the candidate bound
/// (lower_hint_from / upper_hint_from of spec/interval_domain.rs with b.s() == c)
pub open spec fn ido_lower_hint(i: Interval, c: int, h: Bitvector) -> bool {
    &&& h.wf() && h.w@ == i.w() && c <= h.s() < i.start.s()
    &&& ((i.stride == 0 || i.w() > 64) ==> h.s() == c)
    &&& ((i.stride > 0 && i.w() <= 64) ==> on_stride(i.stride, h.s() - i.start.s()) && h.s() - c < i.stride)
}
pub open spec fn ido_upper_hint(i: Interval, c: int, h: Bitvector) -> bool {
    &&& h.wf() && h.w@ == i.w() && i.end.s() < h.s() <= c
    &&& ((i.stride == 0 || i.w() > 64) ==> h.s() == c)
    &&& ((i.stride > 0 && i.w() <= 64) ==> on_stride(i.stride, h.s() - i.start.s()) && c - h.s() < i.stride)
}
pub open spec fn ido_max(a: u64, b: u64) -> u64 { if a <= b { b } else { a } }

/// candidates for the widening hints of a product: the non-overflowing products of one hint of each operand
pub open spec fn ido_mul_cand1(a: Option<Bitvector>, b: Option<Bitvector>, h: Bitvector) -> bool {
    a is Some && b is Some && ia_mul_fits(a->Some_0, b->Some_0) && h == bv_mul(a->Some_0, b->Some_0)
}
pub open spec fn ido_mul_cand(a: IntervalDomain, b: IntervalDomain, h: Bitvector) -> bool {
    &&& h.wf() && h.w@ == a.w()
    &&& (ido_mul_cand1(a.widening_lower_bound, b.widening_lower_bound, h) || ido_mul_cand1(a.widening_lower_bound, b.widening_upper_bound, h)
        || ido_mul_cand1(a.widening_upper_bound, b.widening_lower_bound, h) || ido_mul_cand1(a.widening_upper_bound, b.widening_upper_bound, h))
}

/// equal width and equal signed value: the same bitvector
pub proof fn lemma_ido_eq_iff_s(a: Bitvector, b: Bitvector)
    requires a.wf(), b.wf(), a.w@ == b.w@
    ensures (a == b) == (a.s() == b.s()), (a.u@ == b.u@) == (a.s() == b.s()),
{
    lemma_sval(a.w@, a.u@); lemma_sval(b.w@, b.u@);
}

/// the only member of a singleton interval is its bound
pub proof fn lemma_ido_singleton(i: Interval)
    requires i.inv(), i.start == i.end
    ensures i.gamma(i.start), forall|v: Bitvector| #[trigger] i.gamma(v) ==> v == i.start,
{
    assert forall|v: Bitvector| #[trigger] i.gamma(v) implies v == i.start by { lemma_ido_eq_iff_s(v, i.start); }
}

/// INT_LEFT by a constant amount below the width is the wrapped product with 2^amount; results are well-formed
pub proof fn lemma_ido_shl(x: Bitvector, y: Bitvector)
    requires x.wf(), y.wf(),
    ensures (pcode_bin(BinOpType::IntLeft, x, y)->Some_0).wf(), (pcode_bin(BinOpType::IntLeft, x, y)->Some_0).w@ == x.w@,
        y.u@ < x.w@ ==> p2(y.u@) < p2(x.w@) && trunc(x.w@, (1 * p2(y.u@)) as int) == p2(y.u@)
            && pcode_bin(BinOpType::IntLeft, x, y)->Some_0 == bv_mul(x, bv(x.w@, p2(y.u@))),
{
    let w = x.w@;
    lemma_p2(w);
    if y.u@ < w {
        lemma_trunc_range(w, (x.u@ * p2(y.u@)) as int);
        vstd::arithmetic::power2::lemma_pow2_strictly_increases(y.u@, w);
        lemma_trunc_id(w, p2(y.u@) as int);
    }
}

/// the value sign extension produces: bits of the signed reading in the wider type
pub open spec fn ido_sext(x: Bitvector, t: nat) -> Bitvector { bv(t, trunc(t, x.s())) }
pub open spec fn ido_sext_opt(h: Option<Bitvector>, t: nat) -> Option<Bitvector> {
    match h { Some(b) => Some(ido_sext(b, t)), None => None }
}

/// sign extension keeps the signed value
pub proof fn lemma_ido_sext(x: Bitvector, t: nat)
    requires x.wf(), x.w@ <= t <= MAXW(),
    ensures ido_sext(x, t).wf(), ido_sext(x, t).w@ == t, ido_sext(x, t).s() == x.s(),
        smin(t) <= smin(x.w@), smax(x.w@) <= smax(t),
{
    lemma_sval(x.w@, x.u@);
    lemma_p2_mono((x.w@ - 1) as nat, (t - 1) as nat);
    lemma_trunc_sval(t, x.s());
}

/// the sign-extended interval: well-formed, same signed bounds, contains the extension of every member
pub proof fn lemma_ido_sext_interval(i: Interval, t: nat)
    requires i.inv(), i.w() <= t <= MAXW(),
    ensures ({
        let r = Interval { start: ido_sext(i.start, t), end: ido_sext(i.end, t), stride: i.stride };
        &&& r.inv() && r.w() == t
        &&& forall|x: Bitvector| i.gamma(x) ==> #[trigger] r.gamma(bv(t, trunc(t, x.s())))
    }),
{
    let r = Interval { start: ido_sext(i.start, t), end: ido_sext(i.end, t), stride: i.stride };
    lemma_ido_sext(i.start, t); lemma_ido_sext(i.end, t);
    assert forall|x: Bitvector| i.gamma(x) implies #[trigger] r.gamma(bv(t, trunc(t, x.s()))) by { lemma_ido_sext(x, t); }
}

/// the hint zero_extend keeps: only when hint, start and end have the same sign (then zero extension is monotone on them)
pub open spec fn ido_zext_hint(h: Option<Bitvector>, near: Bitvector, i: Interval, t: nat) -> Option<Bitvector> {
    if h is Some && h->Some_0.sign() == near.sign() && i.start.sign() == i.end.sign() { Some(bv(t, h->Some_0.u@)) } else { None }
}

/// signed value fits into t bits
pub open spec fn ido_fits(v: Bitvector, t: nat) -> bool { smin(t) <= v.s() <= smax(t) }

/// fits_into_size: the bound test is the member test
pub proof fn lemma_ido_fits(i: Interval, t: nat)
    requires i.inv(), 1 <= t <= MAXW(),
    ensures
        i.gamma(i.start), i.gamma(i.end),
        t >= i.w() ==> forall|v: Bitvector| #[trigger] i.gamma(v) ==> ido_fits(v, t),
        (ido_fits(i.start, t) && ido_fits(i.end, t)) ==> forall|v: Bitvector| #[trigger] i.gamma(v) ==> ido_fits(v, t),
        // the bounds the code compares with: signed_min/max_value of t bits, sign-extended to the interval's width
        t < i.w() ==> ido_sext(bv(t, p2((t - 1) as nat)), i.w()).wf() && ido_sext(bv(t, p2((t - 1) as nat)), i.w()).s() == smin(t)
            && ido_sext(bv(t, (p2((t - 1) as nat) - 1) as nat), i.w()).wf() && ido_sext(bv(t, (p2((t - 1) as nat) - 1) as nat), i.w()).s() == smax(t),
{
    let w = i.w();
    lemma_minmax(t);
    if t >= w {
        lemma_p2_mono((w - 1) as nat, (t - 1) as nat);
        assert forall|v: Bitvector| #[trigger] i.gamma(v) implies ido_fits(v, t) by { lemma_sval(w, v.u@); }
    } else {
        lemma_p2(t); lemma_p2((t - 1) as nat);
        lemma_ido_sext(bv(t, p2((t - 1) as nat)), w);
        lemma_ido_sext(bv(t, (p2((t - 1) as nat) - 1) as nat), w);
    }
    if i.stride != 0 {
        assert(0int % (i.stride as int) == 0) by { vstd::arithmetic::div_mod::lemma_small_mod(0, i.stride as nat); }
    }
}

pub proof fn lemma_ido_neg_wf(x: Bitvector)
    requires x.wf()
    ensures bv_neg(x).wf(), bv_neg(x).w@ == x.w@,
{
    lemma_trunc_range(x.w@, -(x.u@ as int));
}
pub open spec fn ido_neg_opt(h: Option<Bitvector>) -> Option<Bitvector> {
    match h { Some(b) => Some(bv_neg(b)), None => None }
}

/// a hint that is kept only when it lies strictly below / above the new bound
pub open spec fn ido_keep_below(h: Option<Bitvector>, start: Bitvector) -> Option<Bitvector> {
    if h is Some && h->Some_0.s() < start.s() { h } else { None }
}
pub open spec fn ido_keep_above(h: Option<Bitvector>, end: Bitvector) -> Option<Bitvector> {
    if h is Some && h->Some_0.s() > end.s() { h } else { None }
}
pub open spec fn ido_subpiece_opt(h: Option<Bitvector>, low: nat, t: nat) -> Option<Bitvector> {
    match h { Some(b) => Some(pcode_subpiece(b, low, t)), None => None }
}

/// subpiece_lower keeps a hint only when its (wrapped, unsigned) distance from the bound is below 2^t - 1
pub open spec fn ido_near(minuend: Bitvector, subtrahend: Bitvector, t: nat) -> bool {
    bv_sub(minuend, subtrahend).u@ < p2(t) - 1
}

/// SUBPIECE(low, t) is SUBPIECE(0, t) of SUBPIECE(low, w - low); SUBPIECE(0, w) is the identity
pub proof fn lemma_ido_subpiece_compose(x: Bitvector, low: nat, t: nat)
    requires x.wf(), 1 <= t, low + t <= x.w@
    ensures pcode_subpiece(pcode_subpiece(x, low, (x.w@ - low) as nat), 0, t) == pcode_subpiece(x, low, t),
            pcode_subpiece(x, 0, x.w@) == x,
{
    let w = x.w@;
    let u = x.u@;
    let a = p2(low);
    let b = p2((w - low) as nat);
    let q = u / a;
    lemma_p2(low); lemma_p2_mono(low, w); lemma_p2_consts();
    vstd::arithmetic::div_mod::lemma_fundamental_div_mod(u as int, a as int);
    vstd::arithmetic::div_mod::lemma_mod_bound(u as int, a as int);
    assert(q < b) by (nonlinear_arith)
        requires u == a * q + u % a, 0 <= u % a, u < a * b, a > 0, q == u / a;
    vstd::arithmetic::div_mod::lemma_small_mod(q, b);
    assert(q / 1 == q);
    assert(u / 1 == u);
    vstd::arithmetic::div_mod::lemma_small_mod(u, p2(w));
}

// ---------------- cast: POPCOUNT / LZCOUNT --------------------------------------------------------

/// a small count, stored in t bits, reads as itself (signed and unsigned) and survives truncation / resize
pub proof fn lemma_ido_small(t: nat, n: nat)
    requires 1 <= t <= MAXW(), n < p2((t - 1) as nat),
    ensures n < p2(t), bv(t, n).wf(), bv(t, n).s() == n, trunc(t, n as int) == n, n % p2(t) == n,
{
    lemma_p2(t);
    lemma_sval(t, n);
    lemma_trunc_id(t, n as int);
}

pub proof fn lemma_ido_bitlen_mono(a: nat, b: nat)
    requires a <= b
    ensures bitlen(a) <= bitlen(b),
    decreases b
{
    if a != 0 { lemma_ido_bitlen_mono(a / 2, b / 2); }
}

/// values with the top bit set have full bit length, all others less
pub proof fn lemma_ido_bitlen_top(w: nat, u: nat)
    requires 1 <= w, u < p2(w),
    ensures (u >= p2((w - 1) as nat)) == (bitlen(u) == w), bitlen(u) <= w,
    decreases w
{
    lemma_p2(w); lemma_p2_consts();
    lemma_count_bounds(w, u);
    if u < p2((w - 1) as nat) {
        lemma_count_bounds((w - 1) as nat, u);
    } else if w == 1 {
        assert(u == 1);
        assert(bitlen(1) == 1 + bitlen(0)) by { reveal_with_fuel(bitlen, 2); }
    } else {
        lemma_p2((w - 1) as nat);
        lemma_ido_bitlen_top((w - 1) as nat, u / 2);
    }
}

/// number of leading zero bits (the oracle's LZCOUNT before it is stored in the output width)
pub open spec fn ido_lz(x: Bitvector) -> int { x.w@ - bitlen(x.u@) }

/// LZCOUNT over a signed interval: 0..w always; between the counts of the bounds when those are ordered
pub proof fn lemma_ido_lzcount(i: Interval, x: Bitvector)
    requires i.inv(), i.gamma(x),
    ensures 0 <= ido_lz(x) <= i.w(), 0 <= ido_lz(i.start) <= i.w(), 0 <= ido_lz(i.end) <= i.w(),
        ido_lz(i.start) >= ido_lz(i.end) ==> ido_lz(i.end) <= ido_lz(x) <= ido_lz(i.start),
{
    let w = i.w();
    lemma_ido_bitlen_top(w, x.u@); lemma_ido_bitlen_top(w, i.start.u@); lemma_ido_bitlen_top(w, i.end.u@);
    lemma_sval(w, x.u@); lemma_sval(w, i.start.u@); lemma_sval(w, i.end.u@);
    if i.start.s() >= 0 {
        lemma_ido_bitlen_mono(i.start.u@, x.u@); lemma_ido_bitlen_mono(x.u@, i.end.u@);
    }
}

/// PIECE of a constant upper part with a hint of the lower part
pub open spec fn ido_piece_hint(hi: Interval, h: Option<Bitvector>, o: Option<Bitvector>) -> bool {
    o is Some ==> hi.start == hi.end && h is Some && o->Some_0 == pcode_bin(BinOpType::Piece, hi.start, h->Some_0)->Some_0
}

// ---------------- bin_op: results of the oracle are well-formed values of the output width ----------------

/// operand sizes P-Code requires at the level of abstract values (Piece: total width; BOOL_*: 1-byte booleans;
/// shifts: any amount size; everything else: equal widths)
pub open spec fn ido_wellsized(op: BinOpType, wa: nat, wb: nat) -> bool {
    if op is Piece { wa + wb <= MAXW() }
    else if is_shift_binop(op) { true }
    else { wa == wb && ((op is BoolAnd || op is BoolOr || op is BoolXOr) ==> wa == 8) }
}

pub proof fn lemma_ido_pcode_bin_wf(op: BinOpType, x: Bitvector, y: Bitvector)
    requires x.wf(), y.wf(), ido_wellsized(op, x.w@, y.w@), pcode_bin(op, x, y) is Some,
    ensures (pcode_bin(op, x, y)->Some_0).wf(), (pcode_bin(op, x, y)->Some_0).w@ == out_bits(op, x.w@, y.w@),
{
    let w = x.w@;
    let (ua, ub) = (x.u@, y.u@);
    lemma_p2_consts(); lemma_p2(w);
    match op {
        BinOpType::Piece => { lemma_piece(x, y); }
        BinOpType::IntAdd => { lemma_trunc_range(w, (ua + ub) as int); }
        BinOpType::IntSub => { lemma_trunc_range(w, ua - ub); }
        BinOpType::IntMult => { lemma_trunc_range(w, (ua * ub) as int); }
        BinOpType::IntXOr | BinOpType::BoolXOr | BinOpType::IntAnd | BinOpType::BoolAnd | BinOpType::IntOr | BinOpType::BoolOr => {
            lemma_bits_bound(w, ua, ub);
        }
        BinOpType::IntLeft => { if ub < w { lemma_trunc_range(w, (ua * p2(ub)) as int); } }
        BinOpType::IntRight => {
            if ub < w {
                lemma_p2(ub);
                lemma_div_pos(ua as int, p2(ub) as int);
            }
        }
        BinOpType::IntSRight => { if ub < w { lemma_trunc_range(w, x.s() / (p2(ub) as int)); } }
        BinOpType::IntDiv => {
            lemma_div_pos(ua as int, ub as int);
        }
        BinOpType::IntRem => { vstd::arithmetic::div_mod::lemma_mod_bound(ua as int, ub as int); }
        BinOpType::IntSDiv => { lemma_trunc_range(w, tdiv(x.s(), y.s())); }
        BinOpType::IntSRem => { lemma_trunc_range(w, trem(x.s(), y.s())); }
        _ => {}
    }
}

/// the exact content of the candidate list `possible_bounds` of IntervalDomain::signed_mul: the non-overflowing
/// products lower*lower, lower*upper, upper*lower, upper*upper of the hints, in this order
pub open spec fn ido_mul_ok(a: Option<Bitvector>, b: Option<Bitvector>) -> bool {
    a is Some && b is Some && ia_mul_fits(a->Some_0, b->Some_0)
}
pub open spec fn ido_b2i(c: bool) -> int { if c { 1 } else { 0 } }
/// ... after the first n of the four blocks
pub open spec fn ido_mul_list_n(a: IntervalDomain, b: IntervalDomain, pb: Seq<Bitvector>, n: int) -> bool {
    let c1 = n >= 1 && ido_mul_ok(a.widening_lower_bound, b.widening_lower_bound);
    let c2 = n >= 2 && ido_mul_ok(a.widening_lower_bound, b.widening_upper_bound);
    let c3 = n >= 3 && ido_mul_ok(a.widening_upper_bound, b.widening_lower_bound);
    let c4 = n >= 4 && ido_mul_ok(a.widening_upper_bound, b.widening_upper_bound);
    let i2 = ido_b2i(c1);
    let i3 = i2 + ido_b2i(c2);
    let i4 = i3 + ido_b2i(c3);
    &&& pb.len() == i4 + ido_b2i(c4)
    &&& (c1 ==> pb[0] == bv_mul(a.widening_lower_bound->Some_0, b.widening_lower_bound->Some_0))
    &&& (c2 ==> pb[i2] == bv_mul(a.widening_lower_bound->Some_0, b.widening_upper_bound->Some_0))
    &&& (c3 ==> pb[i3] == bv_mul(a.widening_upper_bound->Some_0, b.widening_lower_bound->Some_0))
    &&& (c4 ==> pb[i4] == bv_mul(a.widening_upper_bound->Some_0, b.widening_upper_bound->Some_0))
}
pub open spec fn ido_mul_list(a: IntervalDomain, b: IntervalDomain, pb: Seq<Bitvector>) -> bool { ido_mul_list_n(a, b, pb, 4) }

/// from "the chosen hint dominates every list element beyond the bound" to "... every candidate beyond the bound"
pub proof fn lemma_ido_mul_closest_lower(a: IntervalDomain, b: IntervalDomain, pb: Seq<Bitvector>, bound: int, lb: Option<Bitvector>)
    requires ido_mul_list(a, b, pb),
        forall|j: int| 0 <= j < pb.len() && (#[trigger] pb[j]).s() < bound ==> lb is Some && lb->Some_0.s() >= pb[j].s(),
    ensures forall|h: Bitvector| ido_mul_cand(a, b, h) && h.s() < bound ==> lb is Some && lb->Some_0.s() >= h.s(),
{
    assert forall|h: Bitvector| ido_mul_cand(a, b, h) && h.s() < bound implies lb is Some && lb->Some_0.s() >= h.s() by {
        let c1 = ido_mul_ok(a.widening_lower_bound, b.widening_lower_bound);
        let c2 = ido_mul_ok(a.widening_lower_bound, b.widening_upper_bound);
        let c3 = ido_mul_ok(a.widening_upper_bound, b.widening_lower_bound);
        let i2 = ido_b2i(c1);
        let i3 = i2 + ido_b2i(c2);
        let i4 = i3 + ido_b2i(c3);
        if ido_mul_cand1(a.widening_lower_bound, b.widening_lower_bound, h) { assert(pb[0] == h); }
        else if ido_mul_cand1(a.widening_lower_bound, b.widening_upper_bound, h) { assert(pb[i2] == h); }
        else if ido_mul_cand1(a.widening_upper_bound, b.widening_lower_bound, h) { assert(pb[i3] == h); }
        else { assert(pb[i4] == h); }
    }
}
pub proof fn lemma_ido_mul_closest_upper(a: IntervalDomain, b: IntervalDomain, pb: Seq<Bitvector>, bound: int, ub: Option<Bitvector>)
    requires ido_mul_list(a, b, pb),
        forall|j: int| 0 <= j < pb.len() && (#[trigger] pb[j]).s() > bound ==> ub is Some && ub->Some_0.s() <= pb[j].s(),
    ensures forall|h: Bitvector| ido_mul_cand(a, b, h) && h.s() > bound ==> ub is Some && ub->Some_0.s() <= h.s(),
{
    assert forall|h: Bitvector| ido_mul_cand(a, b, h) && h.s() > bound implies ub is Some && ub->Some_0.s() <= h.s() by {
        let c1 = ido_mul_ok(a.widening_lower_bound, b.widening_lower_bound);
        let c2 = ido_mul_ok(a.widening_lower_bound, b.widening_upper_bound);
        let c3 = ido_mul_ok(a.widening_upper_bound, b.widening_lower_bound);
        let i2 = ido_b2i(c1);
        let i3 = i2 + ido_b2i(c2);
        let i4 = i3 + ido_b2i(c3);
        if ido_mul_cand1(a.widening_lower_bound, b.widening_lower_bound, h) { assert(pb[0] == h); }
        else if ido_mul_cand1(a.widening_lower_bound, b.widening_upper_bound, h) { assert(pb[i2] == h); }
        else if ido_mul_cand1(a.widening_upper_bound, b.widening_lower_bound, h) { assert(pb[i3] == h); }
        else { assert(pb[i4] == h); }
    }
}

/// the operations IntervalDomain::bin_op evaluates only on constants (exactly) and answers `Top` otherwise
pub open spec fn ido_generic_binop(op: BinOpType) -> bool {
    !(op is Piece || op is IntAdd || op is IntSub || op is IntMult || op is IntLeft)
}
pub open spec fn ido_const(v: Bitvector) -> Interval { Interval { start: v, end: v, stride: 0 } }
