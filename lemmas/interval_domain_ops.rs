// ---------------------------------------------------------------------------
// lemmas/interval_domain_ops.rs -- proof material of unit interval_domain_ops (C02 at the
// IntervalDomain level).  No assumptions.
// ---------------------------------------------------------------------------

/// provenance of a widening hint, stated over the mathematical value `c` of the candidate bound
/// (lower_hint_from / upper_hint_from of spec/interval_domain.rs with b.s() == c)
pub open spec fn ido_lower_hint(i: Interval, c: int, h: Bitvector) -> bool {
    &&& h.wf() && h.w@ == i.w() && c <= h.s() < i.start.s()
    &&& ((i.stride == 0 || i.w() > 64) ==> h.s() == c)
    &&& ((i.stride > 0 && i.w() <= 64) ==> on_stride(i.stride, h.s() - i.start.s()) && h.s() - c < i.stride)
}
pub open spec fn ido_upper_hint(i: Interval, c: int, h: Bitvector) -> bool {
    &&& h.wf() && h.w@ == i.w() && i.end.s() < h.s() <= c
    &&& ((i.stride == 0 || i.w() > 64) ==> h.s() == c)
    &&& ((i.stride > 0 && i.w() <= 64) ==> on_stride(i.stride, h.s() - i.start.s()) && c - h.s() < i.stride)
}
pub open spec fn ido_max(a: u64, b: u64) -> u64 { if a <= b { b } else { a } }

/// candidates for the widening hints of a product: the non-overflowing products of one hint of each operand
pub open spec fn ido_mul_cand1(a: Option<Bitvector>, b: Option<Bitvector>, h: Bitvector) -> bool {
    a is Some && b is Some && ia_mul_fits(a->Some_0, b->Some_0) && h == bv_mul(a->Some_0, b->Some_0)
}
pub open spec fn ido_mul_cand(a: IntervalDomain, b: IntervalDomain, h: Bitvector) -> bool {
    &&& h.wf() && h.w@ == a.w()
    &&& (ido_mul_cand1(a.widening_lower_bound, b.widening_lower_bound, h) || ido_mul_cand1(a.widening_lower_bound, b.widening_upper_bound, h)
        || ido_mul_cand1(a.widening_upper_bound, b.widening_lower_bound, h) || ido_mul_cand1(a.widening_upper_bound, b.widening_upper_bound, h))
}

/// equal width and equal signed value: the same bitvector
pub proof fn lemma_ido_eq_iff_s(a: Bitvector, b: Bitvector)
    requires a.wf(), b.wf(), a.w@ == b.w@
    ensures (a == b) == (a.s() == b.s()), (a.u@ == b.u@) == (a.s() == b.s()),
{
    lemma_sval(a.w@, a.u@); lemma_sval(b.w@, b.u@);
}

/// the only member of a singleton interval is its bound
pub proof fn lemma_ido_singleton(i: Interval)
    requires i.inv(), i.start == i.end
    ensures i.gamma(i.start), forall|v: Bitvector| #[trigger] i.gamma(v) ==> v == i.start,
{
    assert forall|v: Bitvector| #[trigger] i.gamma(v) implies v == i.start by { lemma_ido_eq_iff_s(v, i.start); }
}

/// INT_LEFT by a constant amount below the width is the wrapped product with 2^amount; results are well-formed
pub proof fn lemma_ido_shl(x: Bitvector, y: Bitvector)
    requires x.wf(), y.wf(),
    ensures (pcode_bin(BinOpType::IntLeft, x, y)->Some_0).wf(), (pcode_bin(BinOpType::IntLeft, x, y)->Some_0).w@ == x.w@,
        y.u@ < x.w@ ==> p2(y.u@) < p2(x.w@) && trunc(x.w@, (1 * p2(y.u@)) as int) == p2(y.u@)
            && pcode_bin(BinOpType::IntLeft, x, y)->Some_0 == bv_mul(x, bv(x.w@, p2(y.u@))),
{
    let w = x.w@;
    lemma_p2(w);
    if y.u@ < w {
        lemma_trunc_range(w, (x.u@ * p2(y.u@)) as int);
        vstd::arithmetic::power2::lemma_pow2_strictly_increases(y.u@, w);
        lemma_trunc_id(w, p2(y.u@) as int);
    }
}

/// the value sign extension produces: bits of the signed reading in the wider type
pub open spec fn ido_sext(x: Bitvector, t: nat) -> Bitvector { bv(t, trunc(t, x.s())) }
pub open spec fn ido_sext_opt(h: Option<Bitvector>, t: nat) -> Option<Bitvector> {
    match h { Some(b) => Some(ido_sext(b, t)), None => None }
}

/// sign extension keeps the signed value
pub proof fn lemma_ido_sext(x: Bitvector, t: nat)
    requires x.wf(), x.w@ <= t <= MAXW(),
    ensures ido_sext(x, t).wf(), ido_sext(x, t).w@ == t, ido_sext(x, t).s() == x.s(),
        smin(t) <= smin(x.w@), smax(x.w@) <= smax(t),
{
    lemma_sval(x.w@, x.u@);
    lemma_p2_mono((x.w@ - 1) as nat, (t - 1) as nat);
    lemma_trunc_sval(t, x.s());
}

/// the sign-extended interval: well-formed, same signed bounds, contains the extension of every member
pub proof fn lemma_ido_sext_interval(i: Interval, t: nat)
    requires i.inv(), i.w() <= t <= MAXW(),
    ensures ({
        let r = Interval { start: ido_sext(i.start, t), end: ido_sext(i.end, t), stride: i.stride };
        &&& r.inv() && r.w() == t
        &&& forall|x: Bitvector| i.gamma(x) ==> #[trigger] r.gamma(bv(t, trunc(t, x.s())))
    }),
{
    let r = Interval { start: ido_sext(i.start, t), end: ido_sext(i.end, t), stride: i.stride };
    lemma_ido_sext(i.start, t); lemma_ido_sext(i.end, t);
    assert forall|x: Bitvector| i.gamma(x) implies #[trigger] r.gamma(bv(t, trunc(t, x.s()))) by { lemma_ido_sext(x, t); }
}

/// the hint zero_extend keeps: only when hint, start and end have the same sign (then zero extension is monotone on them)
pub open spec fn ido_zext_hint(h: Option<Bitvector>, near: Bitvector, i: Interval, t: nat) -> Option<Bitvector> {
    if h is Some && h->Some_0.sign() == near.sign() && i.start.sign() == i.end.sign() { Some(bv(t, h->Some_0.u@)) } else { None }
}

/// signed value fits into t bits
pub open spec fn ido_fits(v: Bitvector, t: nat) -> bool { smin(t) <= v.s() <= smax(t) }

/// fits_into_size: the bound test is the member test
pub proof fn lemma_ido_fits(i: Interval, t: nat)
    requires i.inv(), 1 <= t <= MAXW(),
    ensures
        i.gamma(i.start), i.gamma(i.end),
        t >= i.w() ==> forall|v: Bitvector| #[trigger] i.gamma(v) ==> ido_fits(v, t),
        (ido_fits(i.start, t) && ido_fits(i.end, t)) ==> forall|v: Bitvector| #[trigger] i.gamma(v) ==> ido_fits(v, t),
        // the bounds the code compares with: signed_min/max_value of t bits, sign-extended to the interval's width
        t < i.w() ==> ido_sext(bv(t, p2((t - 1) as nat)), i.w()).wf() && ido_sext(bv(t, p2((t - 1) as nat)), i.w()).s() == smin(t)
            && ido_sext(bv(t, (p2((t - 1) as nat) - 1) as nat), i.w()).wf() && ido_sext(bv(t, (p2((t - 1) as nat) - 1) as nat), i.w()).s() == smax(t),
{
    let w = i.w();
    lemma_minmax(t);
    if t >= w {
        lemma_p2_mono((w - 1) as nat, (t - 1) as nat);
        assert forall|v: Bitvector| #[trigger] i.gamma(v) implies ido_fits(v, t) by { lemma_sval(w, v.u@); }
    } else {
        lemma_p2(t); lemma_p2((t - 1) as nat);
        lemma_ido_sext(bv(t, p2((t - 1) as nat)), w);
        lemma_ido_sext(bv(t, (p2((t - 1) as nat) - 1) as nat), w);
    }
    if i.stride != 0 {
        assert(0int % (i.stride as int) == 0) by { vstd::arithmetic::div_mod::lemma_small_mod(0, i.stride as nat); }
    }
}
