// ---------------------------------------------------------------------------
// lemmas/callgraph_build_sat.rs -- SATISFIABILITY WITNESSES of the preconditions of unit `callgraph_build` (and of the
// shim preconditions it proves).  Nothing here is trusted.
//   (d)  cgb_key_hyp() = obeys_cmp::<Tid>() && obeys_key_model::<Tid>().  lemma_sat_callgraph_build_key_hyp_open OPENS it:
//        the eq half (obeys_eq::<Tid>(): `==` on Tid is symmetric / transitive, obeys_eq_spec) is PROVED; what remains is
//        "the UNINTERPRETED partial_cmp_spec / cmp_spec of Tid form a strict total order whose `Equal` is `==`" plus the two
//        uninterpreted flags obeys_partial_cmp_spec / obeys_cmp_spec, and vstd's uninterpreted obeys_key_model::<Tid>().
//        No axiom / external_body / assume_specification of shim|spec|lemmas/{callgraph, callgraph_build, callsites}.rs
//        mentions cmp_spec, partial_cmp_spec, obeys_cmp* or obeys_key_model.
//   (a') relative to (d): verif_sat_callgraph_build_two_subs (only `requires cgb_key_hyp()`) BUILDS in exec code a program
//        with TWO functions "a" and "b", "a" holding one direct call to "b", proves cgb_pre / cgb_wf for it,
//        shows it is not degenerate (the position (a, 0, 0) is a cgb_is_call; the built graph has >= 1 edge; the query result
//        from "a" to "b" contains the tid of that call) and calls get_program_callgraph and the @raw client cgb_query_program.
//   (a') unconditional: verif_sat_callgraph_build_graph builds a 2-node 1-edge graph through the shim constructors
//        DiGraph::{new, add_node, add_edge} (add_edge's `requires` "nodes exist" is checked), invokes axiom_cg_digraph_bounds
//        on every intermediate graph, and calls both query functions of unit `callgraph` (they have no precondition).
// ---------------------------------------------------------------------------

/// (d) opened: the provable half of obeys_cmp::<Tid>() is proved, the rest is spelled out (text of vstd::laws_cmp, with
/// eq_spec of Tid unfolded to `==`).
pub proof fn lemma_sat_callgraph_build_key_hyp_open()
    ensures
        vstd::laws_eq::obeys_eq::<Tid>(),
        <Tid as vstd::std_specs::cmp::PartialEqSpec>::obeys_eq_spec(),
        forall |x: Tid, y: Tid| #[trigger] vstd::std_specs::cmp::PartialEqSpec::eq_spec(&x, &y) <==> x == y,
        cgb_key_hyp() <==> {
            &&& <Tid as vstd::std_specs::cmp::PartialOrdSpec>::obeys_partial_cmp_spec()
            &&& <Tid as vstd::std_specs::cmp::OrdSpec>::obeys_cmp_spec()
            &&& forall |x: Tid, y: Tid| (x == y) <==> #[trigger] x.partial_cmp_spec(&y) == Some(core::cmp::Ordering::Equal)
            &&& forall |x: Tid, y: Tid| #[trigger] x.partial_cmp_spec(&y) == Some(x.cmp_spec(&y))
            &&& forall |x: Tid, y: Tid| #[trigger] x.partial_cmp_spec(&y) == Some(core::cmp::Ordering::Less)
                    <==> y.partial_cmp_spec(&x) == Some(core::cmp::Ordering::Greater)
            &&& forall |x: Tid, y: Tid, z: Tid| x.partial_cmp_spec(&y) == Some(core::cmp::Ordering::Less)
                    && #[trigger] y.partial_cmp_spec(&z) == Some(core::cmp::Ordering::Less)
                    ==> #[trigger] x.partial_cmp_spec(&z) == Some(core::cmp::Ordering::Less)
            &&& forall |x: Tid, y: Tid, z: Tid| x.partial_cmp_spec(&y) == Some(core::cmp::Ordering::Greater)
                    && #[trigger] y.partial_cmp_spec(&z) == Some(core::cmp::Ordering::Greater)
                    ==> #[trigger] x.partial_cmp_spec(&z) == Some(core::cmp::Ordering::Greater)
            &&& vstd::std_specs::hash::obeys_key_model::<Tid>()
        },
{
    reveal(vstd::laws_cmp::obeys_cmp);
    reveal(vstd::laws_cmp::obeys_cmp_ord);
    reveal(vstd::laws_cmp::obeys_cmp_partial_ord);
    reveal(vstd::laws_cmp::obeys_partial_cmp_spec_properties);
    reveal(vstd::laws_eq::obeys_eq_spec_properties);
}

/// a Tid whose two strings have the given characters
fn verif_sat_callgraph_build_tid(id: &str) -> (r: Tid)
    ensures r.id@ == id@, r.address@ == id@,
{
    Tid { id: id.to_owned(), address: id.to_owned() }
}

/// a function term with the given tid and ONE block holding the given jumps
fn verif_sat_callgraph_build_sub(tid: Tid, jmps: Vec<Term<Jmp>>) -> (r: Term<Sub>)
    ensures r.tid == tid, r.term.blocks@.len() == 1, r.term.blocks@[0].term.jmps@ == jmps@,
{
    let mut blocks: Vec<Term<Blk>> = Vec::new();
    blocks.push(Term { tid: tid.clone(), term: Blk { defs: Vec::new(), jmps: jmps, indirect_jmp_targets: Vec::new() } });
    Term { tid: tid, term: Sub { name: "f".to_owned(), blocks: blocks, calling_convention: None } }
}

/// (a') relative to (d): a program with two functions, "a" calls "b"
pub fn verif_sat_callgraph_build_two_subs()
    requires cgb_key_hyp(),
{
    let ta = verif_sat_callgraph_build_tid("a");
    let tb = verif_sat_callgraph_build_tid("b");
    proof {
        reveal_strlit("a"); reveal_strlit("b");
        assert(ta.id@[0] == 'a' && tb.id@[0] == 'b');
        assert(ta != tb);
    }
    let mut jmps_a: Vec<Term<Jmp>> = Vec::new();
    jmps_a.push(Term { tid: verif_sat_callgraph_build_tid("c"), term: Jmp::Call { target: tb.clone(), return_: None } });
    let sub_a = verif_sat_callgraph_build_sub(ta.clone(), jmps_a);
    let sub_b = verif_sat_callgraph_build_sub(tb.clone(), Vec::new());
    let mut subs: BTreeMap<Tid, Term<Sub>> = BTreeMap::new();
    subs.insert(ta.clone(), sub_a);
    subs.insert(tb.clone(), sub_b);
    let program = Term {
        tid: verif_sat_callgraph_build_tid("p"),
        term: Program { subs: subs, extern_symbols: BTreeMap::new(), entry_points: BTreeSet::new(), address_base_offset: 0 },
    };
    let ghost o = CgbOcc { key: ta, blk: 0, jmp: 0 };
    proof {
        // two functions, each stored under its own tid; the position (a, block 0, jump 0) is a direct call between them
        assert(cgb_subs(program).contains_key(ta) && cgb_subs(program).contains_key(tb));
        assert(cgb_wf(cgb_subs(program)));
        assert(cgb_is_call(cgb_subs(program), o));
        assert(cgb_callee(cgb_subs(program), o) == tb && cgb_caller(cgb_subs(program), o) == ta);
    }
    // get_program_callgraph: cgb_key_hyp(), cgb_pre(cgb_subs(*program))
    let g = get_program_callgraph(&program);
    proof {
        // the postcondition speaks about this program: its call has an edge
        let occ = choose |occ: Seq<CgbOcc>| cgb_edges_ok(g, cgb_subs(program), occ);
        assert(g.edge_seq().len() >= 1);
    }
    // @raw client cgb_query_program: same preconditions
    let r = cgb_query_program(&program, &ta, &tb);
    proof {
        // the composed postcondition is not degenerate either: the one-call chain [o] leads from "a" to "b"
        let c = seq![o];
        assert(c[0] == o);
        assert(cgb_chain(cgb_subs(program), c, ta, tb));
        assert(cgb_on_chain(cgb_subs(program), ta, tb, o));
        assert(r@.contains(cgb_jump(cgb_subs(program), o).tid));
    }
}

/// (a') unconditional: a two-node one-edge graph through the shim constructors; both queries of unit `callgraph`
#[verifier::exec_allows_no_decreases_clause]
pub fn verif_sat_callgraph_build_graph()
{
    let ta = verif_sat_callgraph_build_tid("a");
    let tb = verif_sat_callgraph_build_tid("b");
    let jump: Term<Jmp> = Term { tid: verif_sat_callgraph_build_tid("c"), term: Jmp::Call { target: tb.clone(), return_: None } };
    let mut g: DiGraph<Tid, &Term<Jmp>> = DiGraph::new();
    proof { axiom_cg_digraph_bounds(g); }
    let n0 = g.add_node(ta.clone());
    proof { axiom_cg_digraph_bounds(g); }
    let n1 = g.add_node(tb.clone());
    proof { axiom_cg_digraph_bounds(g); }
    // add_edge: a.i < node_count, b.i < node_count
    let e0 = g.add_edge(n0, n1, &jump);
    proof {
        axiom_cg_digraph_bounds(g);
        assert(g.node_count_spec() == 2 && g.edge_seq().len() == 1 && g.edge_seq()[0] == (n0, n1));
    }
    // the two contracted functions of unit `callgraph` (no precondition)
    let _s = find_call_sequences_from_node_to_target(&g, n0, n1);
    let _t = find_call_sequences_to_target(&g, &ta, &tb);
}
