// ---------------------------------------------------------------------------
// lemmas/exprsubst.rs -- proved facts of unit `exprsubst` (no assumptions).
//   part 1: the P-Code oracle yields well-formed values of the expected width; es_eval of a well-sized expression has the
//           expression's size (lemma_es_eval_wf)
//   part 2: bit-level identities over the recursive bits_and / bits_or / bits_xor
//   part 3: es_same is reflexive, transitive and a congruence
//   part 4: one lemma per family of rewrites: "this replacement has the same size and value" (es_same), each proved from
//           es_eval.  The exec functions call them at entry; a rewrite that is in no lemma has no fact to stand on.
// ---------------------------------------------------------------------------

// ---- part 1 ---------------------------------------------------------------

pub proof fn lemma_es_b2bv(b: bool)
    ensures b2bv(b).wf(), es_is_boolval(b2bv(b)), b2bv(b).w@ == 8,
{
    lemma_p2_consts();
}

pub proof fn lemma_es_bin_wf_shift(op: BinOpType, a: Bitvector, b: Bitvector)
    requires es_bin_ok(op, a, b), is_shift_binop(op),
    ensures pcode_bin(op, a, b)->Some_0.wf(), pcode_bin(op, a, b)->Some_0.w@ == a.w@, pcode_bin(op, a, b) is Some,
{
    let w = a.w@;
    lemma_p2(w);
    lemma_p2(b.u@);
    if op is IntLeft {
        lemma_trunc_range(w, (a.u@ * p2(b.u@)) as int);
    } else if op is IntRight {
        vstd::arithmetic::div_mod::lemma_div_nonincreasing(a.u@ as int, p2(b.u@) as int);
        vstd::arithmetic::div_mod::lemma_div_pos_is_pos(a.u@ as int, p2(b.u@) as int);
    } else {
        lemma_trunc_range(w, a.s() / (p2(b.u@) as int));
    }
}

pub proof fn lemma_es_bin_wf_div(op: BinOpType, a: Bitvector, b: Bitvector)
    requires es_bin_ok(op, a, b), is_div_binop(op), b.u@ != 0,
    ensures pcode_bin(op, a, b)->Some_0.wf(), pcode_bin(op, a, b)->Some_0.w@ == a.w@,
{
    let w = a.w@;
    lemma_p2(w);
    lemma_sval(w, b.u@);
    if op is IntDiv {
        vstd::arithmetic::div_mod::lemma_div_nonincreasing(a.u@ as int, b.u@ as int);
        vstd::arithmetic::div_mod::lemma_div_pos_is_pos(a.u@ as int, b.u@ as int);
    } else if op is IntRem {
        vstd::arithmetic::div_mod::lemma_mod_bound(a.u@ as int, b.u@ as int);
    } else if op is IntSDiv {
        lemma_trunc_range(w, tdiv(a.s(), b.s()));
    } else {
        lemma_trunc_range(w, trem(a.s(), b.s()));
    }
}

pub proof fn lemma_es_bin_wf_arith(op: BinOpType, a: Bitvector, b: Bitvector)
    requires es_bin_ok(op, a, b), op is IntAdd || op is IntSub || op is IntMult,
    ensures pcode_bin(op, a, b)->Some_0.wf(), pcode_bin(op, a, b)->Some_0.w@ == a.w@,
{
    let w = a.w@;
    lemma_trunc_range(w, (a.u@ + b.u@) as int);
    lemma_trunc_range(w, a.u@ - b.u@);
    lemma_trunc_range(w, (a.u@ * b.u@) as int);
}

pub proof fn lemma_es_bin_wf_bits(op: BinOpType, a: Bitvector, b: Bitvector)
    requires es_bin_ok(op, a, b), op is IntAnd || op is IntOr || op is IntXOr || es_is_boolop(op),
    ensures pcode_bin(op, a, b)->Some_0.wf(), pcode_bin(op, a, b)->Some_0.w@ == a.w@,
{
    lemma_bits_bound(a.w@, a.u@, b.u@);
}

pub proof fn lemma_es_bin_wf(op: BinOpType, a: Bitvector, b: Bitvector)
    requires es_bin_ok(op, a, b), pcode_bin(op, a, b) is Some,
    ensures pcode_bin(op, a, b)->Some_0.wf(), pcode_bin(op, a, b)->Some_0.w@ == out_bits(op, a.w@, b.w@),
{
    if op is Piece {
        lemma_piece(a, b);
    } else if is_shift_binop(op) {
        lemma_es_bin_wf_shift(op, a, b);
    } else if is_div_binop(op) {
        lemma_es_bin_wf_div(op, a, b);
    } else if op is IntAdd || op is IntSub || op is IntMult {
        lemma_es_bin_wf_arith(op, a, b);
    } else if op is IntAnd || op is IntOr || op is IntXOr || es_is_boolop(op) {
        lemma_es_bin_wf_bits(op, a, b);
    } else {
        lemma_es_b2bv(true); lemma_es_b2bv(false);
    }
}

pub proof fn lemma_es_un_wf(op: UnOpType, a: Bitvector)
    requires wellsized_un(op, a), pcode_un(op, a) is Some,
    ensures pcode_un(op, a)->Some_0.wf(), pcode_un(op, a)->Some_0.w@ == (if op is BoolNegate { 8 } else { a.w@ }),
{
    lemma_p2_consts();
    lemma_p2(a.w@);
    lemma_trunc_range(a.w@, -(a.u@ as int));
}

pub proof fn lemma_es_cast_wf(op: CastOpType, a: Bitvector, t: nat)
    requires wellsized_cast(op, a, t), pcode_cast(op, a, t) is Some,
    ensures pcode_cast(op, a, t)->Some_0.wf(), pcode_cast(op, a, t)->Some_0.w@ == t,
{
    lemma_p2(t);
    lemma_trunc_range(t, a.s());
    lemma_trunc_range(t, popcount(a.u@) as int);
    lemma_trunc_range(t, a.w@ - bitlen(a.u@));
    if op is IntZExt { lemma_p2_mono(a.w@, t); }
}

pub proof fn lemma_es_sub_wf(a: Bitvector, low: ByteSize, size: ByteSize)
    requires es_sub(a, low, size) is Some,
    ensures es_sub(a, low, size)->Some_0.wf(), es_sub(a, low, size)->Some_0.w@ == size.0 * 8,
{
    let t = (size.0 * 8) as nat;
    lemma_p2(t);
    vstd::arithmetic::div_mod::lemma_mod_bound((a.u@ / p2((low.0 * 8) as nat)) as int, p2(t) as int);
}

/// a well-sized expression has a size between 1 and MAXBYTES and satisfies the precondition of `Expression::bytesize`
pub proof fn lemma_es_wf_bytes(e: Expression)
    requires es_wf(e),
    ensures 1 <= expr_bytes(e) <= MAXBYTES(), expr_ok(e),
    decreases e,
{
    match e {
        Expression::Var(v) => {},
        Expression::Const(b) => {},
        Expression::BinOp { op, lhs, rhs } => { lemma_es_wf_bytes(*lhs); lemma_es_wf_bytes(*rhs); },
        Expression::UnOp { op, arg } => { lemma_es_wf_bytes(*arg); },
        Expression::Cast { op, size, arg } => { lemma_es_wf_bytes(*arg); },
        Expression::Unknown { description, size } => {},
        Expression::Subpiece { low_byte, size, arg } => { lemma_es_wf_bytes(*arg); },
    }
}

/// the value of a well-sized expression is a well-formed bitvector of the expression's size
pub proof fn lemma_es_eval_wf(e: Expression, env: EsEnv)
    requires es_wf(e), es_eval(e, env) is Some,
    ensures es_eval(e, env)->Some_0.wf(), es_eval(e, env)->Some_0.w@ == expr_bytes(e) * 8,
    decreases e,
{
    lemma_es_wf_bytes(e);
    match e {
        Expression::Var(v) => {},
        Expression::Const(b) => {},
        Expression::BinOp { op, lhs, rhs } => {
            lemma_es_eval_wf(*lhs, env); lemma_es_eval_wf(*rhs, env);
            lemma_es_bin_wf(op, es_eval(*lhs, env)->Some_0, es_eval(*rhs, env)->Some_0);
        },
        Expression::UnOp { op, arg } => {
            lemma_es_eval_wf(*arg, env);
            lemma_es_un_wf(op, es_eval(*arg, env)->Some_0);
        },
        Expression::Cast { op, size, arg } => {
            lemma_es_eval_wf(*arg, env);
            lemma_es_cast_wf(op, es_eval(*arg, env)->Some_0, (size.0 * 8) as nat);
        },
        Expression::Unknown { description, size } => {},
        Expression::Subpiece { low_byte, size, arg } => {
            lemma_es_eval_wf(*arg, env);
            lemma_es_sub_wf(es_eval(*arg, env)->Some_0, low_byte, size);
        },
    }
}

// ---- part 2: bit identities ------------------------------------------------

pub proof fn lemma_es_bits_idem(a: nat)
    ensures bits_and(a, a) == a, bits_or(a, a) == a, bits_xor(a, a) == 0,
    decreases a,
{
    if a != 0 { lemma_es_bits_idem(a / 2); }
}

pub proof fn lemma_es_bits_zero(a: nat)
    ensures bits_or(a, 0) == a, bits_or(0, a) == a, bits_xor(a, 0) == a, bits_xor(0, a) == a,
            bits_and(a, 0) == 0, bits_and(0, a) == 0,
    decreases a,
{
    if a != 0 { lemma_es_bits_zero(a / 2); }
}

/// AND with the all-ones mask of w bits is the identity below 2^w
pub proof fn lemma_es_bits_ones(w: nat, u: nat)
    requires u < p2(w),
    ensures bits_and((p2(w) - 1) as nat, u) == u, bits_and(u, (p2(w) - 1) as nat) == u,
    decreases w,
{
    lemma_p2(w);
    if w == 0 {
        lemma_p2_consts();
        assert(u == 0);
    } else {
        let h = p2((w - 1) as nat);
        let m = (p2(w) - 1) as nat;
        lemma_p2((w - 1) as nat);
        assert(m == 2 * (h - 1) + 1);
        assert(m / 2 == (h - 1) as nat);
        assert(m % 2 == 1);
        lemma_es_bits_ones((w - 1) as nat, u / 2);
        if u == 0 { lemma_es_bits_zero(m); }
    }
}

/// the boolean operations on 0 / 1
pub proof fn lemma_es_bits_bool(u: nat)
    requires u <= 1,
    ensures bits_and(1, u) == u, bits_and(u, 1) == u, bits_or(1, u) == 1, bits_or(u, 1) == 1,
            bits_xor(1, u) == 1 - u, bits_xor(u, 1) == 1 - u,
{
    reveal_with_fuel(bits_and, 3); reveal_with_fuel(bits_or, 3); reveal_with_fuel(bits_xor, 3);
}

pub proof fn lemma_es_bits_bool2(u: nat, v: nat)
    requires u <= 1, v <= 1,
    ensures bits_and(u, v) == (if u == 1 && v == 1 { 1nat } else { 0nat }),
            bits_or(u, v) == (if u == 1 || v == 1 { 1nat } else { 0nat }),
            bits_xor(u, v) == (if u != v { 1nat } else { 0nat }),
{
    reveal_with_fuel(bits_and, 3); reveal_with_fuel(bits_or, 3); reveal_with_fuel(bits_xor, 3);
}

// ---- part 3: es_same is a preorder and a congruence ---------------------------

pub proof fn lemma_es_same_refl(e: Expression)
    requires es_wf(e),
    ensures es_same(e, e),
{
}

pub proof fn lemma_es_same_trans(a: Expression, b: Expression, c: Expression)
    requires es_same(a, b), es_same(b, c),
    ensures es_same(a, c),
{
    assert forall |env: EsEnv| #[trigger] es_val_kept(a, c, env) by {
        assert(es_val_kept(a, b, env));
        assert(es_val_kept(b, c, env));
    }
}

pub broadcast proof fn lemma_es_same_trans_b(a: Expression, b: Expression, c: Expression)
    requires #[trigger] es_same(a, b), #[trigger] es_same(b, c),
    ensures es_same(a, c),
{
    lemma_es_same_trans(a, b, c);
}

pub open spec fn es_mk_bin(op: BinOpType, l: Expression, r: Expression) -> Expression {
    Expression::BinOp { op, lhs: Box::new(l), rhs: Box::new(r) }
}
pub open spec fn es_mk_un(op: UnOpType, a: Expression) -> Expression {
    Expression::UnOp { op, arg: Box::new(a) }
}
pub open spec fn es_mk_cast(op: CastOpType, size: ByteSize, a: Expression) -> Expression {
    Expression::Cast { op, size, arg: Box::new(a) }
}
pub open spec fn es_mk_sub(low: ByteSize, size: ByteSize, a: Expression) -> Expression {
    Expression::Subpiece { low_byte: low, size, arg: Box::new(a) }
}

pub proof fn lemma_es_cong_bin(op: BinOpType, l: Expression, r: Expression, l2: Expression, r2: Expression)
    requires es_wf(es_mk_bin(op, l, r)), es_same(l, l2), es_same(r, r2),
    ensures es_same(es_mk_bin(op, l, r), es_mk_bin(op, l2, r2)),
{
    let (o, n) = (es_mk_bin(op, l, r), es_mk_bin(op, l2, r2));
    assert forall |env: EsEnv| #[trigger] es_val_kept(o, n, env) by {
        assert(es_val_kept(l, l2, env));
        assert(es_val_kept(r, r2, env));
    }
}
pub proof fn lemma_es_cong_un(op: UnOpType, a: Expression, a2: Expression)
    requires es_wf(es_mk_un(op, a)), es_same(a, a2),
    ensures es_same(es_mk_un(op, a), es_mk_un(op, a2)),
{
    let (o, n) = (es_mk_un(op, a), es_mk_un(op, a2));
    assert forall |env: EsEnv| #[trigger] es_val_kept(o, n, env) by { assert(es_val_kept(a, a2, env)); }
}
pub proof fn lemma_es_cong_cast(op: CastOpType, size: ByteSize, a: Expression, a2: Expression)
    requires es_wf(es_mk_cast(op, size, a)), es_same(a, a2),
    ensures es_same(es_mk_cast(op, size, a), es_mk_cast(op, size, a2)),
{
    let (o, n) = (es_mk_cast(op, size, a), es_mk_cast(op, size, a2));
    assert forall |env: EsEnv| #[trigger] es_val_kept(o, n, env) by { assert(es_val_kept(a, a2, env)); }
}
pub proof fn lemma_es_cong_sub(low: ByteSize, size: ByteSize, a: Expression, a2: Expression)
    requires es_wf(es_mk_sub(low, size, a)), es_same(a, a2),
    ensures es_same(es_mk_sub(low, size, a), es_mk_sub(low, size, a2)),
{
    let (o, n) = (es_mk_sub(low, size, a), es_mk_sub(low, size, a2));
    assert forall |env: EsEnv| #[trigger] es_val_kept(o, n, env) by { assert(es_val_kept(a, a2, env)); }
}

// ---- part 4: the rewrites that keep size and value ------------------------------

/// (A) both operands are the same expression x
pub proof fn lemma_es_rules_eq_operands(op: BinOpType, x: Expression)
    requires es_wf(es_mk_bin(op, x, x)),
    ensures
        (op is BoolAnd || op is BoolOr || op is IntAnd || op is IntOr) ==> es_same(es_mk_bin(op, x, x), x),
        (op is BoolXOr || op is IntXOr) ==> es_same(es_mk_bin(op, x, x), es_c(expr_bytes(x) * 8, 0)),
        (op is IntEqual || op is IntLessEqual || op is IntSLessEqual) ==> es_same(es_mk_bin(op, x, x), es_c(8, 1)),
        (op is IntNotEqual || op is IntLess || op is IntSLess) ==> es_same(es_mk_bin(op, x, x), es_c(8, 0)),
{
    let old = es_mk_bin(op, x, x);
    let zero = es_c(expr_bytes(x) * 8, 0);
    reveal_with_fuel(es_wf, 2); reveal_with_fuel(es_eval, 2); reveal_with_fuel(expr_bytes, 2);
    lemma_es_wf_bytes(x);
    lemma_p2_consts();
    lemma_p2(expr_bytes(x) * 8);
    if op is BoolAnd || op is BoolOr || op is IntAnd || op is IntOr {
        assert forall |env: EsEnv| #[trigger] es_val_kept(old, x, env) by {
            if es_eval(old, env) is Some { lemma_es_bits_idem(es_eval(x, env)->Some_0.u@); }
        }
    }
    if op is BoolXOr || op is IntXOr {
        assert forall |env: EsEnv| #[trigger] es_val_kept(old, zero, env) by {
            if es_eval(old, env) is Some { lemma_es_eval_wf(x, env); lemma_es_bits_idem(es_eval(x, env)->Some_0.u@); }
        }
    }
    if op is IntEqual || op is IntLessEqual || op is IntSLessEqual {
        assert forall |env: EsEnv| #[trigger] es_val_kept(old, es_c(8, 1), env) by {}
    }
    if op is IntNotEqual || op is IntLess || op is IntSLess {
        assert forall |env: EsEnv| #[trigger] es_val_kept(old, es_c(8, 0), env) by {}
    }
}

/// (B) AND / OR / XOR with a constant c on one side, x on the other -- on values
pub proof fn lemma_esv_const_bits(op: BinOpType, c: Bitvector, a: Bitvector)
    requires a.wf(), c.wf(), a.w@ == c.w@,
    ensures
        (c.u@ == 0 && (op is IntOr || op is IntXOr || op is BoolOr || op is BoolXOr)) ==> pcode_bin(op, c, a) == Some(a) && pcode_bin(op, a, c) == Some(a),
        (bits_not(c.w@, c.u@) == 0 && (op is IntAnd || op is BoolAnd)) ==> pcode_bin(op, c, a) == Some(a) && pcode_bin(op, a, c) == Some(a),
        (es_is_boolval(a) && c.u@ == 0) ==> pcode_bin(BinOpType::BoolAnd, c, a) == Some(c) && pcode_bin(BinOpType::BoolAnd, a, c) == Some(c),
        (es_is_boolval(a) && c.u@ == 1) ==> pcode_bin(BinOpType::BoolAnd, c, a) == Some(a) && pcode_bin(BinOpType::BoolAnd, a, c) == Some(a),
        (es_is_boolval(a) && c.u@ == 1) ==> pcode_bin(BinOpType::BoolOr, c, a) == Some(c) && pcode_bin(BinOpType::BoolOr, a, c) == Some(c),
        (es_is_boolval(a) && c.u@ == 1) ==> pcode_bin(BinOpType::BoolXOr, c, a) == Some(b2bv(a.u@ == 0)) && pcode_bin(BinOpType::BoolXOr, a, c) == Some(b2bv(a.u@ == 0)),
{
    lemma_es_bits_zero(a.u@);
    lemma_es_bits_ones(a.w@, a.u@);
    if es_is_boolval(a) { lemma_es_bits_bool(a.u@); }
}

pub open spec fn es_bin_c(op: BinOpType, c: Bitvector, x: Expression, const_left: bool) -> Expression {
    if const_left { es_mk_bin(op, Expression::Const(c), x) } else { es_mk_bin(op, x, Expression::Const(c)) }
}
/// value of `c op x` / `x op c` in terms of the value of x
pub proof fn lemma_es_eval_bin_c(op: BinOpType, c: Bitvector, x: Expression, const_left: bool, env: EsEnv)
    ensures es_eval(es_bin_c(op, c, x, const_left), env) == (match es_eval(x, env) {
                Some(a) => if const_left { es_bin(op, c, a) } else { es_bin(op, a, c) },
                None => None }),
            (es_wf(es_bin_c(op, c, x, const_left)) && !(op is Piece) && !is_shift_binop(op)) ==> es_wf(x) && es_wf(Expression::Const(c))
                && expr_bytes(x) * 8 == c.w@ && (es_is_boolop(op) ==> c.w@ == 8)
                && expr_bytes(es_bin_c(op, c, x, const_left)) == (if is_bool_result_binop(op) { 1 } else { expr_bytes(x) }),
{
    reveal_with_fuel(es_wf, 2); reveal_with_fuel(es_eval, 2); reveal_with_fuel(expr_bytes, 2);
    if es_wf(es_bin_c(op, c, x, const_left)) { lemma_es_wf_bytes(x); lemma_es_wf_bytes(Expression::Const(c)); }
}

pub proof fn lemma_es_rules_const_bits(op: BinOpType, c: Bitvector, x: Expression, const_left: bool)
    requires es_wf(es_bin_c(op, c, x, const_left)),
    ensures
        (c.u@ == 0 && (op is IntOr || op is IntXOr || op is BoolOr || op is BoolXOr)) ==> es_same(es_bin_c(op, c, x, const_left), x),
        (bits_not(c.w@, c.u@) == 0 && (op is IntAnd || op is BoolAnd)) ==> es_same(es_bin_c(op, c, x, const_left), x),
        (op is BoolAnd && c.u@ == 0) ==> es_same(es_bin_c(op, c, x, const_left), Expression::Const(c)),
        (op is BoolAnd && c.u@ == 1) ==> es_same(es_bin_c(op, c, x, const_left), x),
        (op is BoolOr && c.u@ == 1) ==> es_same(es_bin_c(op, c, x, const_left), Expression::Const(c)),
        (op is BoolXOr && c.u@ == 1) ==> es_same(es_bin_c(op, c, x, const_left), es_mk_un(UnOpType::BoolNegate, x)),
{
    let old = es_bin_c(op, c, x, const_left);
    let cc = Expression::Const(c);
    let neg = es_mk_un(UnOpType::BoolNegate, x);
    lemma_es_eval_bin_c(op, c, x, const_left, |v: Variable| c);
    if (c.u@ == 0 && (op is IntOr || op is IntXOr || op is BoolOr || op is BoolXOr))
        || (bits_not(c.w@, c.u@) == 0 && (op is IntAnd || op is BoolAnd))
        || (op is BoolAnd && c.u@ == 1) {
        assert forall |env: EsEnv| #[trigger] es_val_kept(old, x, env) by {
            lemma_es_eval_bin_c(op, c, x, const_left, env);
            if es_eval(old, env) is Some {
                lemma_es_eval_wf(x, env);
                lemma_esv_const_bits(op, c, es_eval(x, env)->Some_0);
            }
        }
    }
    if op is BoolAnd && c.u@ == 0 || op is BoolOr && c.u@ == 1 {
        assert forall |env: EsEnv| #[trigger] es_val_kept(old, cc, env) by {
            lemma_es_eval_bin_c(op, c, x, const_left, env);
            if es_eval(old, env) is Some {
                lemma_es_eval_wf(x, env);
                lemma_esv_const_bits(op, c, es_eval(x, env)->Some_0);
            }
        }
    }
    if op is BoolXOr && c.u@ == 1 {
        assert forall |env: EsEnv| #[trigger] es_val_kept(old, neg, env) by {
            lemma_es_eval_bin_c(op, c, x, const_left, env);
            if es_eval(old, env) is Some {
                lemma_es_eval_wf(x, env);
                lemma_esv_const_bits(op, c, es_eval(x, env)->Some_0);
            }
        }
    }
}

/// (C) a constant compared (== / !=) with a difference a - b
pub open spec fn es_cmp_sub(op: BinOpType, c: Bitvector, a: Expression, b: Expression, const_left: bool) -> Expression {
    es_bin_c(op, c, es_mk_bin(BinOpType::IntSub, a, b), const_left)
}
pub proof fn lemma_es_rules_cmp_sub(op: BinOpType, c: Bitvector, a: Expression, b: Expression, const_left: bool)
    requires es_wf(es_cmp_sub(op, c, a, b, const_left)), op is IntEqual || op is IntNotEqual, c.u@ == 0,
    ensures es_same(es_cmp_sub(op, c, a, b, const_left), es_mk_bin(op, a, b)),
{
    let old = es_cmp_sub(op, c, a, b, const_left);
    let new = es_mk_bin(op, a, b);
    reveal_with_fuel(es_wf, 3); reveal_with_fuel(es_eval, 3); reveal_with_fuel(expr_bytes, 3);
    assert forall |env: EsEnv| #[trigger] es_val_kept(old, new, env) by {
        if es_eval(old, env) is Some {
            let va = es_eval(a, env)->Some_0;
            let vb = es_eval(b, env)->Some_0;
            lemma_es_eval_wf(a, env); lemma_es_eval_wf(b, env);
            lemma_trunc_sub_case(va.w@, va.u@, vb.u@);
        }
    }
}

/// (D) `(l < r) || (l == r)` is `l <= r`;  `(l <= r) && (l != r)` is `l < r`  (signed and unsigned; either order; == / != commute) -- on values
pub proof fn lemma_esv_cmp_pair(a: Bitvector, b: Bitvector)
    requires a.wf(), b.wf(), a.w@ == b.w@,
    ensures
        es_bin(BinOpType::BoolOr, b2bv(a.s() < b.s()), b2bv(a.u@ == b.u@)) == Some(b2bv(a.s() <= b.s())),
        es_bin(BinOpType::BoolOr, b2bv(a.u@ == b.u@), b2bv(a.s() < b.s())) == Some(b2bv(a.s() <= b.s())),
        es_bin(BinOpType::BoolOr, b2bv(a.u@ < b.u@), b2bv(a.u@ == b.u@)) == Some(b2bv(a.u@ <= b.u@)),
        es_bin(BinOpType::BoolOr, b2bv(a.u@ == b.u@), b2bv(a.u@ < b.u@)) == Some(b2bv(a.u@ <= b.u@)),
        es_bin(BinOpType::BoolAnd, b2bv(a.s() <= b.s()), b2bv(a.u@ != b.u@)) == Some(b2bv(a.s() < b.s())),
        es_bin(BinOpType::BoolAnd, b2bv(a.u@ != b.u@), b2bv(a.s() <= b.s())) == Some(b2bv(a.s() < b.s())),
        es_bin(BinOpType::BoolAnd, b2bv(a.u@ <= b.u@), b2bv(a.u@ != b.u@)) == Some(b2bv(a.u@ < b.u@)),
        es_bin(BinOpType::BoolAnd, b2bv(a.u@ != b.u@), b2bv(a.u@ <= b.u@)) == Some(b2bv(a.u@ < b.u@)),
{
    lemma_sval(a.w@, a.u@); lemma_sval(b.w@, b.u@);
    lemma_es_b2bv(true); lemma_es_b2bv(false);
    lemma_es_bits_bool2(0, 0); lemma_es_bits_bool2(0, 1); lemma_es_bits_bool2(1, 0); lemma_es_bits_bool2(1, 1);
}

/// the six comparisons on values
pub proof fn lemma_esv_cmp(a: Bitvector, b: Bitvector)
    requires a.wf(), b.wf(), a.w@ == b.w@,
    ensures
        es_bin(BinOpType::IntEqual, a, b) == Some(b2bv(a.u@ == b.u@)), es_bin(BinOpType::IntNotEqual, a, b) == Some(b2bv(a.u@ != b.u@)),
        es_bin(BinOpType::IntLess, a, b) == Some(b2bv(a.u@ < b.u@)), es_bin(BinOpType::IntLessEqual, a, b) == Some(b2bv(a.u@ <= b.u@)),
        es_bin(BinOpType::IntSLess, a, b) == Some(b2bv(a.s() < b.s())), es_bin(BinOpType::IntSLessEqual, a, b) == Some(b2bv(a.s() <= b.s())),
{
}

pub open spec fn es_two(conn: BinOpType, x: Expression, y: Expression, x_left: bool) -> Expression {
    if x_left { es_mk_bin(conn, x, y) } else { es_mk_bin(conn, y, x) }
}
/// value / size / well-sizedness of a binary node in terms of its children (one unfolding, stated once)
pub proof fn lemma_es_unfold_bin(op: BinOpType, l: Expression, r: Expression, env: EsEnv)
    ensures es_eval(es_mk_bin(op, l, r), env) == (match (es_eval(l, env), es_eval(r, env)) {
                (Some(a), Some(b)) => es_bin(op, a, b),
                _ => None }),
            es_wf(es_mk_bin(op, l, r)) == (es_wf(l) && es_wf(r)
                && (if op is Piece { expr_bytes(l) + expr_bytes(r) <= MAXBYTES() }
                    else if is_shift_binop(op) { true }
                    else if es_is_boolop(op) { expr_bytes(l) == 1 && expr_bytes(r) == 1 }
                    else { expr_bytes(l) == expr_bytes(r) })),
            expr_bytes(es_mk_bin(op, l, r)) == (if op is Piece { expr_bytes(l) + expr_bytes(r) } else if is_bool_result_binop(op) { 1 } else { expr_bytes(l) }),
{
}

pub proof fn lemma_es_rules_cmp_pair(lop: BinOpType, l: Expression, r: Expression, el: Expression, er: Expression, less_left: bool)
    requires (l == el && r == er) || (l == er && r == el),
    ensures
        ({ let old = es_two(BinOpType::BoolOr, es_mk_bin(lop, l, r), es_mk_bin(BinOpType::IntEqual, el, er), less_left);
           es_wf(old) ==> (lop is IntSLess ==> es_same(old, es_mk_bin(BinOpType::IntSLessEqual, l, r)))
                       && (lop is IntLess ==> es_same(old, es_mk_bin(BinOpType::IntLessEqual, l, r))) }),
        ({ let old = es_two(BinOpType::BoolAnd, es_mk_bin(lop, l, r), es_mk_bin(BinOpType::IntNotEqual, el, er), less_left);
           es_wf(old) ==> (lop is IntSLessEqual ==> es_same(old, es_mk_bin(BinOpType::IntSLess, l, r)))
                       && (lop is IntLessEqual ==> es_same(old, es_mk_bin(BinOpType::IntLess, l, r))) }),
{
    hide(pcode_bin);
    let c_less = es_mk_bin(lop, l, r);
    let c_eq = es_mk_bin(BinOpType::IntEqual, el, er);
    let c_ne = es_mk_bin(BinOpType::IntNotEqual, el, er);
    let old_or = es_two(BinOpType::BoolOr, c_less, c_eq, less_left);
    let old_and = es_two(BinOpType::BoolAnd, c_less, c_ne, less_left);
    let nop = if lop is IntSLess { BinOpType::IntSLessEqual } else if lop is IntLess { BinOpType::IntLessEqual }
        else if lop is IntSLessEqual { BinOpType::IntSLess } else { BinOpType::IntLess };
    let new = es_mk_bin(nop, l, r);
    let e0 = |v: Variable| bv(8, 0);
    lemma_es_unfold_bin(lop, l, r, e0); lemma_es_unfold_bin(nop, l, r, e0);
    lemma_es_unfold_bin(BinOpType::IntEqual, el, er, e0); lemma_es_unfold_bin(BinOpType::IntNotEqual, el, er, e0);
    lemma_es_unfold_bin(BinOpType::BoolOr, c_less, c_eq, e0); lemma_es_unfold_bin(BinOpType::BoolOr, c_eq, c_less, e0);
    lemma_es_unfold_bin(BinOpType::BoolAnd, c_less, c_ne, e0); lemma_es_unfold_bin(BinOpType::BoolAnd, c_ne, c_less, e0);
    if es_wf(old_or) && (lop is IntSLess || lop is IntLess) {
        assert forall |env: EsEnv| #[trigger] es_val_kept(old_or, new, env) by {
            lemma_es_unfold_bin(lop, l, r, env); lemma_es_unfold_bin(nop, l, r, env);
            lemma_es_unfold_bin(BinOpType::IntEqual, el, er, env);
            lemma_es_unfold_bin(BinOpType::BoolOr, c_less, c_eq, env); lemma_es_unfold_bin(BinOpType::BoolOr, c_eq, c_less, env);
            if es_eval(old_or, env) is Some {
                lemma_es_eval_wf(l, env); lemma_es_eval_wf(r, env);
                lemma_esv_cmp(es_eval(l, env)->Some_0, es_eval(r, env)->Some_0);
                lemma_esv_cmp(es_eval(r, env)->Some_0, es_eval(l, env)->Some_0);
                lemma_esv_cmp_pair(es_eval(l, env)->Some_0, es_eval(r, env)->Some_0);
            }
        }
    }
    if es_wf(old_and) && (lop is IntSLessEqual || lop is IntLessEqual) {
        assert forall |env: EsEnv| #[trigger] es_val_kept(old_and, new, env) by {
            lemma_es_unfold_bin(lop, l, r, env); lemma_es_unfold_bin(nop, l, r, env);
            lemma_es_unfold_bin(BinOpType::IntNotEqual, el, er, env);
            lemma_es_unfold_bin(BinOpType::BoolAnd, c_less, c_ne, env); lemma_es_unfold_bin(BinOpType::BoolAnd, c_ne, c_less, env);
            if es_eval(old_and, env) is Some {
                lemma_es_eval_wf(l, env); lemma_es_eval_wf(r, env);
                lemma_esv_cmp(es_eval(l, env)->Some_0, es_eval(r, env)->Some_0);
                lemma_esv_cmp(es_eval(r, env)->Some_0, es_eval(l, env)->Some_0);
                lemma_esv_cmp_pair(es_eval(l, env)->Some_0, es_eval(r, env)->Some_0);
            }
        }
    }
}

// ---- part 5: entry lemmas of the exec functions (everything the body may rely on, for the given old expression) ----

pub proof fn lemma_es_entry_eq_operands(e: Expression)
    requires es_wf(e),
    ensures es_same(e, e), expr_ok(e), expr_bytes(e) <= MAXBYTES(),
        match e {
            Expression::BinOp { op, lhs, rhs } => expr_ok(*lhs) && 1 <= expr_bytes(*lhs) <= MAXBYTES() && (*lhs == *rhs ==> {
                &&& (op is BoolAnd || op is BoolOr || op is IntAnd || op is IntOr) ==> es_same(e, *lhs)
                &&& (op is BoolXOr || op is IntXOr) ==> es_same(e, es_c(expr_bytes(*lhs) * 8, 0))
                &&& (op is IntEqual || op is IntLessEqual || op is IntSLessEqual) ==> es_same(e, es_c(8, 1))
                &&& (op is IntNotEqual || op is IntLess || op is IntSLess) ==> es_same(e, es_c(8, 0))
            }),
            _ => true,
        },
{
    lemma_es_wf_bytes(e);
    match e {
        Expression::BinOp { op, lhs, rhs } => {
            lemma_es_wf_bytes(*lhs);
            if *lhs == *rhs { lemma_es_rules_eq_operands(op, *lhs); }
        },
        _ => {},
    }
}

pub open spec fn es_const_bits_facts(e: Expression, op: BinOpType, c: Bitvector, x: Expression) -> bool {
    &&& c.wf()
    &&& (c.u@ == 0 && (op is IntOr || op is IntXOr || op is BoolOr || op is BoolXOr)) ==> es_same(e, x)
    &&& (bits_not(c.w@, c.u@) == 0 && (op is IntAnd || op is BoolAnd)) ==> es_same(e, x)
    &&& (op is BoolAnd && c.u@ == 0) ==> es_same(e, Expression::Const(c))
    &&& (op is BoolAnd && c.u@ == 1) ==> es_same(e, x)
    &&& (op is BoolOr && c.u@ == 1) ==> es_same(e, Expression::Const(c))
    &&& (op is BoolXOr && c.u@ == 1) ==> es_same(e, es_mk_un(UnOpType::BoolNegate, x))
}

pub proof fn lemma_es_entry_const_bits(e: Expression)
    requires es_wf(e),
    ensures es_same(e, e),
        match e {
            Expression::BinOp { op, lhs, rhs } => {
                &&& (*lhs is Const ==> es_const_bits_facts(e, op, (*lhs)->Const_0, *rhs))
                &&& (*rhs is Const ==> es_const_bits_facts(e, op, (*rhs)->Const_0, *lhs))
            },
            _ => true,
        },
{
    reveal_with_fuel(es_wf, 2);
    match e {
        Expression::BinOp { op, lhs, rhs } => {
            if let Expression::Const(c) = *lhs { assert(e == es_bin_c(op, c, *rhs, true)); lemma_es_rules_const_bits(op, c, *rhs, true); }
            if let Expression::Const(c) = *rhs { assert(e == es_bin_c(op, c, *lhs, false)); lemma_es_rules_const_bits(op, c, *lhs, false); }
        },
        _ => {},
    }
}

/// facts for one orientation: `cmp1` is the ordering comparison, `cmp2` the (in)equality
pub open spec fn es_pair_facts(e: Expression, conn: BinOpType, lop: BinOpType, l: Expression, r: Expression, eop: BinOpType, el: Expression, er: Expression) -> bool {
    ((l == el && r == er) || (l == er && r == el)) ==> {
        &&& (conn is BoolOr && eop is IntEqual && lop is IntSLess) ==> es_same(e, es_mk_bin(BinOpType::IntSLessEqual, l, r))
        &&& (conn is BoolOr && eop is IntEqual && lop is IntLess) ==> es_same(e, es_mk_bin(BinOpType::IntLessEqual, l, r))
        &&& (conn is BoolAnd && eop is IntNotEqual && lop is IntSLessEqual) ==> es_same(e, es_mk_bin(BinOpType::IntSLess, l, r))
        &&& (conn is BoolAnd && eop is IntNotEqual && lop is IntLessEqual) ==> es_same(e, es_mk_bin(BinOpType::IntLess, l, r))
    }
}
pub open spec fn es_cmp_facts(e: Expression) -> bool {
    match e {
        Expression::BinOp { op, lhs, rhs } => {
            &&& match (*lhs, *rhs) {
                    (Expression::Const(c), Expression::BinOp { op: sop, lhs: a, rhs: b }) =>
                        c.wf() && ((sop is IntSub && c.u@ == 0 && (op is IntEqual || op is IntNotEqual)) ==> es_same(e, es_mk_bin(op, *a, *b))),
                    (Expression::BinOp { op: sop, lhs: a, rhs: b }, Expression::Const(c)) =>
                        c.wf() && ((sop is IntSub && c.u@ == 0 && (op is IntEqual || op is IntNotEqual)) ==> es_same(e, es_mk_bin(op, *a, *b))),
                    (Expression::BinOp { op: o1, lhs: l1, rhs: r1 }, Expression::BinOp { op: o2, lhs: l2, rhs: r2 }) =>
                        es_pair_facts(e, op, o1, *l1, *r1, o2, *l2, *r2) && es_pair_facts(e, op, o2, *l2, *r2, o1, *l1, *r1),
                    _ => true,
                }
        },
        _ => true,
    }
}

pub proof fn lemma_es_entry_cmp(e: Expression)
    requires es_wf(e),
    ensures es_same(e, e), es_cmp_facts(e),
{
    reveal_with_fuel(es_wf, 2);
    match e {
        Expression::BinOp { op, lhs, rhs } => {
            match (*lhs, *rhs) {
                (Expression::Const(c), Expression::BinOp { op: sop, lhs: a, rhs: b }) => {
                    if sop is IntSub && c.u@ == 0 && (op is IntEqual || op is IntNotEqual) {
                        assert(e == es_cmp_sub(op, c, *a, *b, true));
                        lemma_es_rules_cmp_sub(op, c, *a, *b, true);
                    }
                },
                (Expression::BinOp { op: sop, lhs: a, rhs: b }, Expression::Const(c)) => {
                    if sop is IntSub && c.u@ == 0 && (op is IntEqual || op is IntNotEqual) {
                        assert(e == es_cmp_sub(op, c, *a, *b, false));
                        lemma_es_rules_cmp_sub(op, c, *a, *b, false);
                    }
                },
                (Expression::BinOp { op: o1, lhs: l1, rhs: r1 }, Expression::BinOp { op: o2, lhs: l2, rhs: r2 }) => {
                    if (*l1 == *l2 && *r1 == *r2) || (*l1 == *r2 && *r1 == *l2) {
                        lemma_es_rules_cmp_pair(o1, *l1, *r1, *l2, *r2, true);
                        lemma_es_rules_cmp_pair(o2, *l2, *r2, *l1, *r1, false);
                    }
                },
                _ => {},
            }
        },
        _ => {},
    }
}

// ---- (E) `((a - b) <s 0) != sborrow(a, b)` is `a <s b`;  with `==` it is `b <=s a` ---------------------------------

pub proof fn lemma_esv_sborrow(a: Bitvector, b: Bitvector)
    requires a.wf(), b.wf(), a.w@ == b.w@,
    ensures ({
        let d = bv_sub(a, b);
        let lt = d.s() < 0;
        let ov = a.s() - b.s() > smax(a.w@) || a.s() - b.s() < smin(a.w@);
        &&& (lt != ov) == (a.s() < b.s())
        &&& (lt == ov) == (b.s() <= a.s())
        &&& d.wf()
    }),
{
    lemma_binop_facts(a, b);
}

pub open spec fn es_lt0(a: Expression, b: Expression, z: Bitvector) -> Expression {
    es_mk_bin(BinOpType::IntSLess, es_mk_bin(BinOpType::IntSub, a, b), Expression::Const(z))
}
pub proof fn lemma_es_rules_sborrow(op: BinOpType, a: Expression, b: Expression, z: Bitvector, lt_left: bool)
    requires es_wf(es_two(op, es_lt0(a, b, z), es_mk_bin(BinOpType::IntSBorrow, a, b), lt_left)), z.u@ == 0,
    ensures
        op is IntNotEqual ==> es_same(es_two(op, es_lt0(a, b, z), es_mk_bin(BinOpType::IntSBorrow, a, b), lt_left), es_mk_bin(BinOpType::IntSLess, a, b)),
        op is IntEqual ==> es_same(es_two(op, es_lt0(a, b, z), es_mk_bin(BinOpType::IntSBorrow, a, b), lt_left), es_mk_bin(BinOpType::IntSLessEqual, b, a)),
{
    let d = es_mk_bin(BinOpType::IntSub, a, b);
    let zc = Expression::Const(z);
    let lt = es_lt0(a, b, z);
    let sb = es_mk_bin(BinOpType::IntSBorrow, a, b);
    let old = es_two(op, lt, sb, lt_left);
    let n1 = es_mk_bin(BinOpType::IntSLess, a, b);
    let n2 = es_mk_bin(BinOpType::IntSLessEqual, b, a);
    let e0 = |v: Variable| bv(8, 0);
    lemma_es_unfold_bin(BinOpType::IntSub, a, b, e0); lemma_es_unfold_bin(BinOpType::IntSLess, d, zc, e0);
    lemma_es_unfold_bin(BinOpType::IntSBorrow, a, b, e0); lemma_es_unfold_bin(op, lt, sb, e0); lemma_es_unfold_bin(op, sb, lt, e0);
    lemma_es_unfold_bin(BinOpType::IntSLess, a, b, e0); lemma_es_unfold_bin(BinOpType::IntSLessEqual, b, a, e0);
    if op is IntNotEqual || op is IntEqual {
        let new = if op is IntNotEqual { n1 } else { n2 };
        assert forall |env: EsEnv| #[trigger] es_val_kept(old, new, env) by {
            lemma_es_unfold_bin(BinOpType::IntSub, a, b, env); lemma_es_unfold_bin(BinOpType::IntSLess, d, zc, env);
            lemma_es_unfold_bin(BinOpType::IntSBorrow, a, b, env); lemma_es_unfold_bin(op, lt, sb, env); lemma_es_unfold_bin(op, sb, lt, env);
            lemma_es_unfold_bin(BinOpType::IntSLess, a, b, env); lemma_es_unfold_bin(BinOpType::IntSLessEqual, b, a, env);
            if es_eval(old, env) is Some {
                let (va, vb) = (es_eval(a, env)->Some_0, es_eval(b, env)->Some_0);
                lemma_es_eval_wf(a, env); lemma_es_eval_wf(b, env);
                lemma_esv_sborrow(va, vb);
                lemma_es_b2bv(true); lemma_es_b2bv(false);
                lemma_sval(z.w@, 0);
            }
        }
    }
}

pub open spec fn es_unpack_lt0(e: Expression) -> Option<(Expression, Expression)> {
    match e {
        Expression::BinOp { op, lhs, rhs } => match (*lhs, *rhs) {
            (Expression::BinOp { op: sop, lhs: a, rhs: b }, Expression::Const(c)) =>
                if op is IntSLess && sop is IntSub && c.u@ == 0 { Some((*a, *b)) } else { None },
            _ => None,
        },
        _ => None,
    }
}
pub open spec fn es_unpack_sb(e: Expression) -> Option<(Expression, Expression)> {
    match e {
        Expression::BinOp { op, lhs, rhs } => if op is IntSBorrow { Some((*lhs, *rhs)) } else { None },
        _ => None,
    }
}
pub open spec fn es_sb_facts(e: Expression, op: BinOpType, x: Option<(Expression, Expression)>, y: Option<(Expression, Expression)>) -> bool {
    (x is Some && y is Some && x->Some_0 == y->Some_0) ==> {
        let (a, b) = x->Some_0;
        &&& op is IntNotEqual ==> es_same(e, es_mk_bin(BinOpType::IntSLess, a, b))
        &&& op is IntEqual ==> es_same(e, es_mk_bin(BinOpType::IntSLessEqual, b, a))
    }
}
pub proof fn lemma_es_entry_sborrow(e: Expression)
    requires es_wf(e),
    ensures es_same(e, e),
        match e {
            Expression::BinOp { op, lhs, rhs } => {
                &&& es_wf(*lhs) && es_wf(*rhs)
                &&& es_sb_facts(e, op, es_unpack_lt0(*lhs), es_unpack_sb(*rhs))
                &&& es_sb_facts(e, op, es_unpack_lt0(*rhs), es_unpack_sb(*lhs))
            },
            _ => true,
        },
{
    match e {
        Expression::BinOp { op, lhs, rhs } => {
            if es_unpack_lt0(*lhs) is Some && es_unpack_sb(*rhs) is Some && es_unpack_lt0(*lhs)->Some_0 == es_unpack_sb(*rhs)->Some_0 {
                let (a, b) = es_unpack_lt0(*lhs)->Some_0;
                let z = match *lhs { Expression::BinOp { op: o, lhs: l, rhs: r } => (*r)->Const_0, _ => bv(8, 0) };
                assert(e == es_two(op, es_lt0(a, b, z), es_mk_bin(BinOpType::IntSBorrow, a, b), true));
                lemma_es_rules_sborrow(op, a, b, z, true);
            }
            if es_unpack_lt0(*rhs) is Some && es_unpack_sb(*lhs) is Some && es_unpack_lt0(*rhs)->Some_0 == es_unpack_sb(*lhs)->Some_0 {
                let (a, b) = es_unpack_lt0(*rhs)->Some_0;
                let z = match *rhs { Expression::BinOp { op: o, lhs: l, rhs: r } => (*r)->Const_0, _ => bv(8, 0) };
                assert(e == es_two(op, es_lt0(a, b, z), es_mk_bin(BinOpType::IntSBorrow, a, b), false));
                lemma_es_rules_sborrow(op, a, b, z, false);
            }
        },
        _ => {},
    }
}

// ---- (F) arithmetic with constants ---------------------------------------------------------------------------------------

pub proof fn lemma_esv_assoc(a: Bitvector, c1: Bitvector, c2: Bitvector)
    requires a.wf(), c1.wf(), c2.wf(), a.w@ == c1.w@, a.w@ == c2.w@,
    ensures
        bv_sub(bv_sub(a, c1), c2) == bv_sub(a, bv_add(c1, c2)),
        bv_add(bv_add(a, c1), c2) == bv_add(a, bv_add(c1, c2)),
        bv_add(bv_add(c1, a), c2) == bv_add(a, bv_add(c1, c2)),
        bv_add(c1, c2).wf(), bv_sub(a, c1).wf(), bv_add(a, c1).wf(), bv_add(c1, a).wf(),
{
    let w = a.w@;
    let (ua, u1, u2) = (a.u@ as int, c1.u@ as int, c2.u@ as int);
    lemma_trunc_id(w, ua); lemma_trunc_id(w, u1); lemma_trunc_id(w, u2);
    lemma_trunc_range(w, u1 + u2); lemma_trunc_range(w, ua - u1); lemma_trunc_range(w, ua + u1); lemma_trunc_range(w, u1 + ua);
    // (a - c1) - c2
    lemma_trunc_sub(w, ua - u1, u2);
    lemma_trunc_sub(w, ua, u1 + u2);
    assert((ua - u1) - u2 == ua - (u1 + u2));
    // (a + c1) + c2
    lemma_trunc_add(w, ua + u1, u2);
    lemma_trunc_add(w, ua, u1 + u2);
    assert((ua + u1) + u2 == ua + (u1 + u2));
    // (c1 + a) + c2
    lemma_trunc_add(w, u1 + ua, u2);
    assert((u1 + ua) + u2 == ua + (u1 + u2));
}

pub proof fn lemma_esv_addsub(a: Bitvector, b: Bitvector)
    requires a.wf(), b.wf(), a.w@ == b.w@,
    ensures es_bin(BinOpType::IntAdd, a, b) == Some(bv_add(a, b)), es_bin(BinOpType::IntSub, a, b) == Some(bv_sub(a, b)),
{
}

pub open spec fn es_cv(op: BinOpType, c1: Bitvector, c2: Bitvector) -> Expression {
    Expression::Const(pcode_bin(op, c1, c2)->Some_0)
}

pub proof fn lemma_es_rules_fold(op: BinOpType, c1: Bitvector, c2: Bitvector)
    requires es_wf(es_mk_bin(op, Expression::Const(c1), Expression::Const(c2))), op is IntAdd || op is IntSub,
    ensures es_same(es_mk_bin(op, Expression::Const(c1), Expression::Const(c2)), es_cv(op, c1, c2)),
        c1.wf() && c2.wf() && c1.w@ == c2.w@,
{
    let old = es_mk_bin(op, Expression::Const(c1), Expression::Const(c2));
    let new = es_cv(op, c1, c2);
    reveal_with_fuel(es_wf, 2); reveal_with_fuel(es_eval, 2); reveal_with_fuel(expr_bytes, 2);
    lemma_es_bin_wf_arith(op, c1, c2);
    assert forall |env: EsEnv| #[trigger] es_val_kept(old, new, env) by {}
}

/// kind 0: (x - c1) - c2 = x - (c1 + c2);  kind 1: (x + c1) + c2 = x + (c1 + c2);  kind 2: (c1 + x) + c2 = x + (c1 + c2)
pub open spec fn es_assoc_old(kind: int, x: Expression, c1: Bitvector, c2: Bitvector) -> Expression {
    if kind == 0 { es_mk_bin(BinOpType::IntSub, es_mk_bin(BinOpType::IntSub, x, Expression::Const(c1)), Expression::Const(c2)) }
    else if kind == 1 { es_mk_bin(BinOpType::IntAdd, es_mk_bin(BinOpType::IntAdd, x, Expression::Const(c1)), Expression::Const(c2)) }
    else { es_mk_bin(BinOpType::IntAdd, es_mk_bin(BinOpType::IntAdd, Expression::Const(c1), x), Expression::Const(c2)) }
}
pub open spec fn es_assoc_new(kind: int, x: Expression, c1: Bitvector, c2: Bitvector) -> Expression {
    es_mk_bin(if kind == 0 { BinOpType::IntSub } else { BinOpType::IntAdd }, x, es_cv(BinOpType::IntAdd, c1, c2))
}
pub proof fn lemma_es_assoc_widths(kind: int, x: Expression, c1: Bitvector, c2: Bitvector)
    requires es_wf(es_assoc_old(kind, x, c1, c2)), 0 <= kind <= 2,
    ensures c1.wf() && c2.wf() && c1.w@ == c2.w@ && es_wf(x) && expr_bytes(x) * 8 == c1.w@,
{
    reveal_with_fuel(es_wf, 3); reveal_with_fuel(expr_bytes, 3);
    lemma_es_wf_bytes(x);
}

pub proof fn lemma_es_rules_assoc(kind: int, x: Expression, c1: Bitvector, c2: Bitvector)
    requires es_wf(es_assoc_old(kind, x, c1, c2)), 0 <= kind <= 2,
    ensures es_same(es_assoc_old(kind, x, c1, c2), es_assoc_new(kind, x, c1, c2)),
        c1.wf() && c2.wf() && c1.w@ == c2.w@,
{
    hide(pcode_bin);
    let old = es_assoc_old(kind, x, c1, c2);
    let new = es_assoc_new(kind, x, c1, c2);
    lemma_es_assoc_widths(kind, x, c1, c2);
    lemma_esv_addsub(c1, c2);
    let (k1, k2) = (Expression::Const(c1), Expression::Const(c2));
    let kv = es_cv(BinOpType::IntAdd, c1, c2);
    let oop = if kind == 0 { BinOpType::IntSub } else { BinOpType::IntAdd };
    let inner = if kind == 2 { es_mk_bin(oop, k1, x) } else { es_mk_bin(oop, x, k1) };
    let e0 = |v: Variable| bv(8, 0);
    lemma_es_unfold_bin(oop, x, k1, e0); lemma_es_unfold_bin(oop, k1, x, e0); lemma_es_unfold_bin(oop, inner, k2, e0); lemma_es_unfold_bin(oop, x, kv, e0);
    lemma_es_wf_bytes(x);
    lemma_es_bin_wf_arith(BinOpType::IntAdd, c1, c2);
    assert forall |env: EsEnv| #[trigger] es_val_kept(old, new, env) by {
        lemma_es_unfold_bin(oop, x, k1, env); lemma_es_unfold_bin(oop, k1, x, env); lemma_es_unfold_bin(oop, inner, k2, env); lemma_es_unfold_bin(oop, x, kv, env);
        if es_eval(old, env) is Some {
            let a = es_eval(x, env)->Some_0;
            lemma_es_eval_wf(x, env);
            lemma_esv_assoc(a, c1, c2);
            lemma_esv_addsub(a, c1); lemma_esv_addsub(c1, a); lemma_esv_addsub(a, bv_add(c1, c2));
            lemma_esv_addsub(bv_sub(a, c1), c2); lemma_esv_addsub(bv_add(a, c1), c2); lemma_esv_addsub(bv_add(c1, a), c2);
        }
    }
}

pub open spec fn es_arith_facts(e: Expression) -> bool {
    match e {
        Expression::BinOp { op, lhs, rhs } => match (*lhs, *rhs) {
            (Expression::Const(c1), Expression::Const(c2)) => (op is IntAdd || op is IntSub) ==>
                c1.wf() && c2.wf() && c1.w@ == c2.w@ && es_same(e, es_cv(op, c1, c2)),
            (Expression::BinOp { op: iop, lhs: l, rhs: m }, Expression::Const(c2)) => {
                &&& match *m {
                        Expression::Const(c1) => {
                            &&& (op is IntSub && iop is IntSub) ==> c1.wf() && c2.wf() && c1.w@ == c2.w@ && es_same(e, es_assoc_new(0, *l, c1, c2))
                            &&& (op is IntAdd && iop is IntAdd) ==> c1.wf() && c2.wf() && c1.w@ == c2.w@ && es_same(e, es_assoc_new(1, *l, c1, c2))
                        },
                        _ => true,
                    }
                &&& match *l {
                        Expression::Const(c1) => (op is IntAdd && iop is IntAdd) ==> c1.wf() && c2.wf() && c1.w@ == c2.w@ && es_same(e, es_assoc_new(2, *m, c1, c2)),
                        _ => true,
                    }
            },
            _ => true,
        },
        _ => true,
    }
}
pub proof fn lemma_es_entry_arith(e: Expression)
    requires es_wf(e),
    ensures es_same(e, e), es_arith_facts(e),
{
    match e {
        Expression::BinOp { op, lhs, rhs } => match (*lhs, *rhs) {
            (Expression::Const(c1), Expression::Const(c2)) => {
                if op is IntAdd || op is IntSub { lemma_es_rules_fold(op, c1, c2); }
            },
            (Expression::BinOp { op: iop, lhs: l, rhs: m }, Expression::Const(c2)) => {
                match *m {
                    Expression::Const(c1) => {
                        if op is IntSub && iop is IntSub { assert(e == es_assoc_old(0, *l, c1, c2)); lemma_es_rules_assoc(0, *l, c1, c2); }
                        if op is IntAdd && iop is IntAdd { assert(e == es_assoc_old(1, *l, c1, c2)); lemma_es_rules_assoc(1, *l, c1, c2); }
                    },
                    _ => {},
                }
                match *l {
                    Expression::Const(c1) => {
                        if op is IntAdd && iop is IntAdd { assert(e == es_assoc_old(2, *m, c1, c2)); lemma_es_rules_assoc(2, *m, c1, c2); }
                    },
                    _ => {},
                }
            },
            _ => {},
        },
        _ => {},
    }
}

// ---- unfolding of the unary nodes (one step, stated once) ---------------------------------------------------------------

pub proof fn lemma_es_unfold_un(op: UnOpType, a: Expression, env: EsEnv)
    ensures es_eval(es_mk_un(op, a), env) == (match es_eval(a, env) { Some(v) => es_un(op, v), None => None }),
            es_wf(es_mk_un(op, a)) == (es_wf(a) && (op is BoolNegate ==> expr_bytes(a) == 1)),
            expr_bytes(es_mk_un(op, a)) == (if op is FloatNaN { 1 } else { expr_bytes(a) }),
{
}
pub proof fn lemma_es_unfold_cast(op: CastOpType, size: ByteSize, a: Expression, env: EsEnv)
    ensures es_eval(es_mk_cast(op, size, a), env) == (match es_eval(a, env) { Some(v) => es_cast(op, v, size), None => None }),
            es_wf(es_mk_cast(op, size, a)) == (es_wf(a) && 1 <= size.0 <= MAXBYTES() && ((op is IntZExt || op is IntSExt) ==> size.0 >= expr_bytes(a))),
            expr_bytes(es_mk_cast(op, size, a)) == size.0,
{
}
pub proof fn lemma_es_unfold_sub(low: ByteSize, size: ByteSize, a: Expression, env: EsEnv)
    ensures es_eval(es_mk_sub(low, size, a), env) == (match es_eval(a, env) { Some(v) => es_sub(v, low, size), None => None }),
            es_wf(es_mk_sub(low, size, a)) == (es_wf(a) && 1 <= size.0 && low.0 + size.0 <= expr_bytes(a)),
            expr_bytes(es_mk_sub(low, size, a)) == size.0,
{
}

// ---- (G) subpiece: values ----------------------------------------------------------------------------------------------------

/// the whole value
pub proof fn lemma_esv_sub_all(a: Bitvector)
    requires a.wf(),
    ensures pcode_subpiece(a, 0, a.w@) == a,
{
    lemma_p2_consts();
    lemma_trunc_id(a.w@, a.u@ as int);
}

/// the low w bits of an extension of a w-bit value are that value
pub proof fn lemma_esv_sub_ext(op: CastOpType, a: Bitvector, t: nat)
    requires a.wf(), t >= a.w@, t <= MAXW(), op is IntZExt || op is IntSExt,
    ensures pcode_cast(op, a, t) is Some, pcode_subpiece(pcode_cast(op, a, t)->Some_0, 0, a.w@) == a,
{
    let w = a.w@;
    lemma_p2_consts();
    lemma_p2(w); lemma_p2(t);
    if op is IntZExt {
        lemma_trunc_id(w, a.u@ as int);
    } else {
        let s = a.s();
        let x = trunc(t, s) as int;
        lemma_trunc_range(t, s);
        let q = s / (p2(t) as int);
        lemma_p2_mono(w, t);
        let k = p2((t - w) as nat) as int;
        assert(q * p2(t) == (q * k) * p2(w)) by (nonlinear_arith) requires p2(t) == p2(w) * k;
        lemma_sval(w, a.u@);
        let pw = p2(w) as int;
        let qk = q * k;
        assert(x == s - qk * pw);
        assert((-qk) * pw == -(qk * pw)) by (nonlinear_arith);
        assert((-qk - 1) * pw == -(qk * pw) - pw) by (nonlinear_arith);
        if a.u@ < p2((w - 1) as nat) {
            lemma_trunc_unique(w, x, -qk, a.u@ as int);
        } else {
            lemma_trunc_unique(w, x, -qk - 1, a.u@ as int);
        }
    }
}

/// the two halves of a concatenation
pub proof fn lemma_esv_sub_piece(a: Bitvector, b: Bitvector)
    requires a.wf(), b.wf(), a.w@ + b.w@ <= MAXW(),
    ensures ({
        let p = pcode_bin(BinOpType::Piece, a, b)->Some_0;
        &&& pcode_subpiece(p, b.w@, a.w@) == a
        &&& pcode_subpiece(p, 0, b.w@) == b
    }),
{
    let x = (a.u@ * p2(b.w@) + b.u@) as int;
    lemma_p2_consts();
    lemma_p2(a.w@); lemma_p2(b.w@);
    assert(a.u@ * p2(b.w@) == p2(b.w@) * a.u@) by (nonlinear_arith);
    vstd::arithmetic::div_mod::lemma_fundamental_div_mod_converse(x, p2(b.w@) as int, a.u@ as int, b.u@ as int);
    lemma_trunc_id(a.w@, a.u@ as int);
    lemma_trunc_id(b.w@, b.u@ as int);
    assert(x / 1 == x);
}

/// a subpiece of a subpiece: (l1, t1) first, then (l2, t2) with l2 + t2 <= t1
pub proof fn lemma_esv_sub_sub(a: Bitvector, l1: nat, t1: nat, l2: nat, t2: nat)
    requires l2 + t2 <= t1,
    ensures pcode_subpiece(pcode_subpiece(a, l1, t1), l2, t2) == pcode_subpiece(a, l1 + l2, t2),
{
    let u = a.u@ as int;
    let (p1, q2, pt2) = (p2(l1) as int, p2(l2) as int, p2(t2) as int);
    lemma_p2(l1); lemma_p2(l2); lemma_p2(t1); lemma_p2(t2);
    let y = u / p1;
    vstd::arithmetic::div_mod::lemma_div_pos_is_pos(u, p1);
    // t1 = l2 + (t1 - l2), t1 - l2 = t2 + rest
    let k = p2((t1 - l2) as nat) as int;
    let j = p2((t1 - l2 - t2) as nat) as int;
    lemma_p2((t1 - l2) as nat); lemma_p2((t1 - l2 - t2) as nat);
    lemma_p2_mono(l2, t1);
    lemma_p2_mono(t2, (t1 - l2) as nat);
    assert(p2(t1) == q2 * k);
    assert(k == pt2 * j);
    // (y % (q2 * k)) / q2 == (y / q2) % k
    vstd::arithmetic::div_mod::lemma_mod_breakdown(y, q2, k);
    let m = y % (q2 * k);
    let z = y / q2;
    vstd::arithmetic::div_mod::lemma_div_pos_is_pos(y, q2);
    vstd::arithmetic::div_mod::lemma_mod_bound(z, k);
    vstd::arithmetic::div_mod::lemma_mod_bound(y, q2);
    vstd::arithmetic::div_mod::lemma_fundamental_div_mod_converse(m, q2, z % k, y % q2);
    assert(m / q2 == z % k);
    // ((z % (pt2 * j)) % pt2 == z % pt2
    vstd::arithmetic::div_mod::lemma_mod_mod(z, pt2, j);
    // z == u / (p1 * q2) == u / p2(l1 + l2)
    vstd::arithmetic::div_mod::lemma_div_denominator(u, p1, q2);
    vstd::arithmetic::power2::lemma_pow2_adds(l1, l2);
}

// ---- (H) extensions, (I) unary operations: values ---------------------------------------------------------------------------

pub proof fn lemma_esv_ext_id(op: CastOpType, a: Bitvector)
    requires a.wf(), op is IntZExt || op is IntSExt,
    ensures pcode_cast(op, a, a.w@) == Some(a),
{
    lemma_sval(a.w@, a.u@);
}

pub proof fn lemma_esv_ext_ext(op: CastOpType, a: Bitvector, t1: nat, t2: nat)
    requires a.wf(), a.w@ <= t1 <= t2, t2 <= MAXW(), op is IntZExt || op is IntSExt,
    ensures ({
        let m = pcode_cast(op, a, t1)->Some_0;
        m.wf() && m.w@ == t1 && pcode_cast(op, m, t2) == pcode_cast(op, a, t2)
    }),
{
    let w = a.w@;
    lemma_es_cast_wf(op, a, t1);
    if op is IntSExt {
        // the signed value of a w-bit vector lies in the signed range of t1 bits
        lemma_sval(w, a.u@);
        lemma_p2_mono((w - 1) as nat, (t1 - 1) as nat);
        lemma_trunc_sval(t1, a.s());
    }
}

pub proof fn lemma_esv_un_twice(op: UnOpType, a: Bitvector)
    requires wellsized_un(op, a), op is IntNegate || op is Int2Comp || op is BoolNegate,
    ensures ({
        let b = pcode_un(op, a)->Some_0;
        wellsized_un(op, b) && pcode_un(op, b) == Some(a)
    }),
{
    lemma_es_un_wf(op, a);
    lemma_p2(a.w@);
    lemma_trunc_neg_case(a.w@, a.u@);
    lemma_trunc_neg_case(a.w@, trunc(a.w@, -(a.u@ as int)));
}

pub open spec fn es_is_cmp(op: BinOpType) -> bool {
    op is IntEqual || op is IntNotEqual || op is IntLess || op is IntSLess || op is IntLessEqual || op is IntSLessEqual
}
/// the comparison c' with  not (l c r)  <==>  r c' l
pub open spec fn es_negcmp(op: BinOpType) -> BinOpType {
    match op {
        BinOpType::IntEqual => BinOpType::IntNotEqual,
        BinOpType::IntNotEqual => BinOpType::IntEqual,
        BinOpType::IntLess => BinOpType::IntLessEqual,
        BinOpType::IntSLess => BinOpType::IntSLessEqual,
        BinOpType::IntLessEqual => BinOpType::IntLess,
        BinOpType::IntSLessEqual => BinOpType::IntSLess,
        _ => op,
    }
}
pub proof fn lemma_esv_neg_cmp(op: BinOpType, a: Bitvector, b: Bitvector)
    requires a.wf(), b.wf(), a.w@ == b.w@, es_is_cmp(op),
    ensures es_bin(op, a, b) is Some, es_un(UnOpType::BoolNegate, es_bin(op, a, b)->Some_0) == es_bin(es_negcmp(op), b, a),
{
    lemma_esv_cmp(a, b); lemma_esv_cmp(b, a);
    lemma_es_b2bv(true); lemma_es_b2bv(false);
}

// ---- the rewrites below a Subpiece / Cast / UnOp node whose argument is `a`; `o` is the expression they are compared with ----

pub open spec fn es_sub_targets(o: Expression, low: ByteSize, size: ByteSize, a: Expression) -> bool {
    &&& es_same(o, es_mk_sub(low, size, a))
    &&& (low.0 == 0 && size.0 == expr_bytes(a)) ==> es_same(o, a)
    &&& match a {
            Expression::Cast { op, size: cs, arg: inner } =>
                ((op is IntZExt || op is IntSExt) && low.0 == 0 && size.0 == expr_bytes(*inner)) ==> es_same(o, *inner),
            Expression::BinOp { op, lhs, rhs } => op is Piece ==> {
                &&& (low.0 == expr_bytes(*rhs) && size.0 == expr_bytes(*lhs)) ==> es_same(o, *lhs)
                &&& (low.0 == 0 && size.0 == expr_bytes(*rhs)) ==> es_same(o, *rhs)
            },
            Expression::Subpiece { low_byte: il, size: isz, arg: inner } =>
                low.0 + il.0 <= MAXBYTES() && es_same(o, es_mk_sub(ByteSize((low.0 + il.0) as u64), size, *inner)),
            _ => true,
        }
}
/// what the exec code needs to call `bytesize()` on the argument and its children
pub open spec fn es_kids_ok(a: Expression) -> bool {
    &&& expr_ok(a) && 1 <= expr_bytes(a) <= MAXBYTES()
    &&& match a {
            Expression::Cast { op, size, arg } => expr_ok(*arg) && 1 <= expr_bytes(*arg) <= MAXBYTES(),
            Expression::BinOp { op, lhs, rhs } => expr_ok(*lhs) && 1 <= expr_bytes(*lhs) <= MAXBYTES() && expr_ok(*rhs) && 1 <= expr_bytes(*rhs) <= MAXBYTES(),
            Expression::Subpiece { low_byte, size, arg } => expr_ok(*arg) && 1 <= expr_bytes(*arg) <= MAXBYTES(),
            Expression::UnOp { op, arg } => expr_ok(*arg) && 1 <= expr_bytes(*arg) <= MAXBYTES(),
            _ => true,
        }
}
pub proof fn lemma_es_kids_ok(a: Expression)
    requires es_wf(a),
    ensures es_kids_ok(a),
{
    lemma_es_wf_bytes(a);
    match a {
        Expression::Cast { op, size, arg } => { lemma_es_wf_bytes(*arg); },
        Expression::BinOp { op, lhs, rhs } => { lemma_es_wf_bytes(*lhs); lemma_es_wf_bytes(*rhs); },
        Expression::Subpiece { low_byte, size, arg } => { lemma_es_wf_bytes(*arg); },
        Expression::UnOp { op, arg } => { lemma_es_wf_bytes(*arg); },
        _ => {},
    }
}

pub proof fn lemma_es_rule_sub_all(low: ByteSize, size: ByteSize, a: Expression)
    requires es_wf(es_mk_sub(low, size, a)), low.0 == 0, size.0 == expr_bytes(a),
    ensures es_same(es_mk_sub(low, size, a), a),
{
    hide(pcode_bin); hide(pcode_cast); hide(pcode_un);
    let m = es_mk_sub(low, size, a);
    lemma_es_unfold_sub(low, size, a, |v: Variable| bv(8, 0));
    assert forall |env: EsEnv| #[trigger] es_val_kept(m, a, env) by {
        lemma_es_unfold_sub(low, size, a, env);
        if es_eval(m, env) is Some { lemma_es_eval_wf(a, env); lemma_esv_sub_all(es_eval(a, env)->Some_0); }
    }
}

pub proof fn lemma_es_rule_sub_ext(low: ByteSize, size: ByteSize, op: CastOpType, cs: ByteSize, inner: Expression)
    requires es_wf(es_mk_sub(low, size, es_mk_cast(op, cs, inner))), op is IntZExt || op is IntSExt, low.0 == 0, size.0 == expr_bytes(inner),
    ensures es_same(es_mk_sub(low, size, es_mk_cast(op, cs, inner)), inner),
{
    hide(pcode_bin); hide(pcode_un);
    let a = es_mk_cast(op, cs, inner);
    let m = es_mk_sub(low, size, a);
    let e0 = |v: Variable| bv(8, 0);
    lemma_es_unfold_sub(low, size, a, e0); lemma_es_unfold_cast(op, cs, inner, e0);
    assert forall |env: EsEnv| #[trigger] es_val_kept(m, inner, env) by {
        lemma_es_unfold_sub(low, size, a, env); lemma_es_unfold_cast(op, cs, inner, env);
        if es_eval(m, env) is Some {
            lemma_es_eval_wf(inner, env);
            lemma_esv_sub_ext(op, es_eval(inner, env)->Some_0, (cs.0 * 8) as nat);
        }
    }
}

pub proof fn lemma_es_rule_sub_piece(low: ByteSize, size: ByteSize, l: Expression, r: Expression)
    requires es_wf(es_mk_sub(low, size, es_mk_bin(BinOpType::Piece, l, r))),
    ensures
        (low.0 == expr_bytes(r) && size.0 == expr_bytes(l)) ==> es_same(es_mk_sub(low, size, es_mk_bin(BinOpType::Piece, l, r)), l),
        (low.0 == 0 && size.0 == expr_bytes(r)) ==> es_same(es_mk_sub(low, size, es_mk_bin(BinOpType::Piece, l, r)), r),
{
    hide(pcode_cast); hide(pcode_un);
    let a = es_mk_bin(BinOpType::Piece, l, r);
    let m = es_mk_sub(low, size, a);
    let e0 = |v: Variable| bv(8, 0);
    lemma_es_unfold_sub(low, size, a, e0); lemma_es_unfold_bin(BinOpType::Piece, l, r, e0);
    lemma_es_wf_bytes(l); lemma_es_wf_bytes(r);
    if low.0 == expr_bytes(r) && size.0 == expr_bytes(l) {
        assert forall |env: EsEnv| #[trigger] es_val_kept(m, l, env) by {
            lemma_es_unfold_sub(low, size, a, env); lemma_es_unfold_bin(BinOpType::Piece, l, r, env);
            if es_eval(m, env) is Some {
                lemma_es_eval_wf(l, env); lemma_es_eval_wf(r, env);
                lemma_esv_sub_piece(es_eval(l, env)->Some_0, es_eval(r, env)->Some_0);
            }
        }
    }
    if low.0 == 0 && size.0 == expr_bytes(r) {
        assert forall |env: EsEnv| #[trigger] es_val_kept(m, r, env) by {
            lemma_es_unfold_sub(low, size, a, env); lemma_es_unfold_bin(BinOpType::Piece, l, r, env);
            if es_eval(m, env) is Some {
                lemma_es_eval_wf(l, env); lemma_es_eval_wf(r, env);
                lemma_esv_sub_piece(es_eval(l, env)->Some_0, es_eval(r, env)->Some_0);
            }
        }
    }
}

pub proof fn lemma_es_rule_sub_sub(low: ByteSize, size: ByteSize, il: ByteSize, isz: ByteSize, inner: Expression)
    requires es_wf(es_mk_sub(low, size, es_mk_sub(il, isz, inner))),
    ensures low.0 + il.0 <= MAXBYTES(),
        es_same(es_mk_sub(low, size, es_mk_sub(il, isz, inner)), es_mk_sub(ByteSize((low.0 + il.0) as u64), size, inner)),
{
    hide(pcode_bin); hide(pcode_cast); hide(pcode_un);
    let a = es_mk_sub(il, isz, inner);
    let m = es_mk_sub(low, size, a);
    let nl = ByteSize((low.0 + il.0) as u64);
    let n = es_mk_sub(nl, size, inner);
    let e0 = |v: Variable| bv(8, 0);
    lemma_es_unfold_sub(low, size, a, e0); lemma_es_unfold_sub(il, isz, inner, e0); lemma_es_unfold_sub(nl, size, inner, e0);
    lemma_es_wf_bytes(inner);
    assert forall |env: EsEnv| #[trigger] es_val_kept(m, n, env) by {
        lemma_es_unfold_sub(low, size, a, env); lemma_es_unfold_sub(il, isz, inner, env); lemma_es_unfold_sub(nl, size, inner, env);
        if es_eval(m, env) is Some {
            lemma_es_eval_wf(inner, env);
            lemma_esv_sub_sub(es_eval(inner, env)->Some_0, (il.0 * 8) as nat, (isz.0 * 8) as nat, (low.0 * 8) as nat, (size.0 * 8) as nat);
        }
    }
}

pub proof fn lemma_es_rules_sub(low: ByteSize, size: ByteSize, a: Expression)
    requires es_wf(es_mk_sub(low, size, a)),
    ensures es_sub_targets(es_mk_sub(low, size, a), low, size, a),
{
    hide(es_eval); hide(pcode_bin); hide(pcode_cast); hide(pcode_un);
    lemma_es_same_refl(es_mk_sub(low, size, a));
    if low.0 == 0 && size.0 == expr_bytes(a) { lemma_es_rule_sub_all(low, size, a); }
    match a {
        Expression::Cast { op, size: cs, arg: inner } => {
            if (op is IntZExt || op is IntSExt) && low.0 == 0 && size.0 == expr_bytes(*inner) { lemma_es_rule_sub_ext(low, size, op, cs, *inner); }
        },
        Expression::BinOp { op, lhs, rhs } => {
            if op is Piece { lemma_es_rule_sub_piece(low, size, *lhs, *rhs); }
        },
        Expression::Subpiece { low_byte: il, size: isz, arg: inner } => {
            lemma_es_rule_sub_sub(low, size, il, isz, *inner);
        },
        _ => {},
    }
}

pub proof fn lemma_es_lift_sub(o: Expression, low: ByteSize, size: ByteSize, a: Expression)
    requires es_same(o, es_mk_sub(low, size, a)), es_sub_targets(es_mk_sub(low, size, a), low, size, a),
    ensures es_sub_targets(o, low, size, a),
{
    broadcast use lemma_es_same_trans_b;
}

pub open spec fn es_cast_targets(o: Expression, op: CastOpType, size: ByteSize, a: Expression) -> bool {
    &&& es_same(o, es_mk_cast(op, size, a))
    &&& ((op is IntSExt || op is IntZExt) && size.0 == expr_bytes(a)) ==> es_same(o, a)
    &&& match a {
            Expression::Cast { op: iop, size: isz, arg: inner } =>
                ((op is IntSExt || op is IntZExt) && op == iop) ==> es_same(o, es_mk_cast(op, size, *inner)),
            _ => true,
        }
}

pub proof fn lemma_es_rule_cast_id(op: CastOpType, size: ByteSize, a: Expression)
    requires es_wf(es_mk_cast(op, size, a)), op is IntSExt || op is IntZExt, size.0 == expr_bytes(a),
    ensures es_same(es_mk_cast(op, size, a), a),
{
    hide(pcode_bin); hide(pcode_un);
    let m = es_mk_cast(op, size, a);
    lemma_es_unfold_cast(op, size, a, |v: Variable| bv(8, 0));
    assert forall |env: EsEnv| #[trigger] es_val_kept(m, a, env) by {
        lemma_es_unfold_cast(op, size, a, env);
        if es_eval(m, env) is Some { lemma_es_eval_wf(a, env); lemma_esv_ext_id(op, es_eval(a, env)->Some_0); }
    }
}

pub proof fn lemma_es_rule_cast_cast(op: CastOpType, size: ByteSize, isz: ByteSize, inner: Expression)
    requires es_wf(es_mk_cast(op, size, es_mk_cast(op, isz, inner))), op is IntSExt || op is IntZExt,
    ensures es_same(es_mk_cast(op, size, es_mk_cast(op, isz, inner)), es_mk_cast(op, size, inner)),
{
    hide(pcode_bin); hide(pcode_un);
    let a = es_mk_cast(op, isz, inner);
    let m = es_mk_cast(op, size, a);
    let n = es_mk_cast(op, size, inner);
    let e0 = |v: Variable| bv(8, 0);
    lemma_es_unfold_cast(op, size, a, e0); lemma_es_unfold_cast(op, isz, inner, e0); lemma_es_unfold_cast(op, size, inner, e0);
    assert forall |env: EsEnv| #[trigger] es_val_kept(m, n, env) by {
        lemma_es_unfold_cast(op, size, a, env); lemma_es_unfold_cast(op, isz, inner, env); lemma_es_unfold_cast(op, size, inner, env);
        if es_eval(m, env) is Some {
            lemma_es_eval_wf(inner, env);
            lemma_esv_ext_ext(op, es_eval(inner, env)->Some_0, (isz.0 * 8) as nat, (size.0 * 8) as nat);
        }
    }
}

pub proof fn lemma_es_rules_cast(op: CastOpType, size: ByteSize, a: Expression)
    requires es_wf(es_mk_cast(op, size, a)),
    ensures es_cast_targets(es_mk_cast(op, size, a), op, size, a),
{
    hide(es_eval); hide(pcode_bin); hide(pcode_cast); hide(pcode_un);
    lemma_es_same_refl(es_mk_cast(op, size, a));
    if (op is IntSExt || op is IntZExt) && size.0 == expr_bytes(a) { lemma_es_rule_cast_id(op, size, a); }
    match a {
        Expression::Cast { op: iop, size: isz, arg: inner } => {
            if (op is IntSExt || op is IntZExt) && op == iop { lemma_es_rule_cast_cast(op, size, isz, *inner); }
        },
        _ => {},
    }
}

pub proof fn lemma_es_lift_cast(o: Expression, op: CastOpType, size: ByteSize, a: Expression)
    requires es_same(o, es_mk_cast(op, size, a)), es_cast_targets(es_mk_cast(op, size, a), op, size, a),
    ensures es_cast_targets(o, op, size, a),
{
    broadcast use lemma_es_same_trans_b;
}

pub open spec fn es_un_targets(o: Expression, op: UnOpType, a: Expression) -> bool {
    &&& es_same(o, es_mk_un(op, a))
    &&& match a {
            Expression::UnOp { op: iop, arg: inner } =>
                (op == iop && (op is IntNegate || op is BoolNegate || op is Int2Comp)) ==> es_same(o, *inner),
            Expression::BinOp { op: cop, lhs, rhs } =>
                (op is BoolNegate && es_is_cmp(cop)) ==> es_same(o, es_mk_bin(es_negcmp(cop), *rhs, *lhs)),
            _ => true,
        }
}

pub proof fn lemma_es_rule_un_un(op: UnOpType, inner: Expression)
    requires es_wf(es_mk_un(op, es_mk_un(op, inner))), op is IntNegate || op is BoolNegate || op is Int2Comp,
    ensures es_same(es_mk_un(op, es_mk_un(op, inner)), inner),
{
    hide(pcode_bin); hide(pcode_cast);
    let a = es_mk_un(op, inner);
    let m = es_mk_un(op, a);
    let e0 = |v: Variable| bv(8, 0);
    lemma_es_unfold_un(op, a, e0); lemma_es_unfold_un(op, inner, e0);
    assert forall |env: EsEnv| #[trigger] es_val_kept(m, inner, env) by {
        lemma_es_unfold_un(op, a, env); lemma_es_unfold_un(op, inner, env);
        if es_eval(m, env) is Some {
            lemma_es_eval_wf(inner, env);
            lemma_esv_un_twice(op, es_eval(inner, env)->Some_0);
        }
    }
}

pub proof fn lemma_es_rule_neg_cmp(cop: BinOpType, l: Expression, r: Expression)
    requires es_wf(es_mk_un(UnOpType::BoolNegate, es_mk_bin(cop, l, r))), es_is_cmp(cop),
    ensures es_same(es_mk_un(UnOpType::BoolNegate, es_mk_bin(cop, l, r)), es_mk_bin(es_negcmp(cop), r, l)),
{
    hide(pcode_bin); hide(pcode_cast); hide(pcode_un);
    let a = es_mk_bin(cop, l, r);
    let m = es_mk_un(UnOpType::BoolNegate, a);
    let n = es_mk_bin(es_negcmp(cop), r, l);
    let e0 = |v: Variable| bv(8, 0);
    lemma_es_unfold_un(UnOpType::BoolNegate, a, e0); lemma_es_unfold_bin(cop, l, r, e0); lemma_es_unfold_bin(es_negcmp(cop), r, l, e0);
    assert forall |env: EsEnv| #[trigger] es_val_kept(m, n, env) by {
        lemma_es_unfold_un(UnOpType::BoolNegate, a, env); lemma_es_unfold_bin(cop, l, r, env); lemma_es_unfold_bin(es_negcmp(cop), r, l, env);
        if es_eval(m, env) is Some {
            lemma_es_eval_wf(l, env); lemma_es_eval_wf(r, env);
            lemma_esv_neg_cmp(cop, es_eval(l, env)->Some_0, es_eval(r, env)->Some_0);
        }
    }
}

pub proof fn lemma_es_rules_un(op: UnOpType, a: Expression)
    requires es_wf(es_mk_un(op, a)),
    ensures es_un_targets(es_mk_un(op, a), op, a),
{
    hide(es_eval); hide(pcode_bin); hide(pcode_cast); hide(pcode_un);
    lemma_es_same_refl(es_mk_un(op, a));
    match a {
        Expression::UnOp { op: iop, arg: inner } => {
            if op == iop && (op is IntNegate || op is BoolNegate || op is Int2Comp) { lemma_es_rule_un_un(op, *inner); }
        },
        Expression::BinOp { op: cop, lhs, rhs } => {
            if op is BoolNegate && es_is_cmp(cop) { lemma_es_rule_neg_cmp(cop, *lhs, *rhs); }
        },
        _ => {},
    }
}

pub proof fn lemma_es_lift_un(o: Expression, op: UnOpType, a: Expression)
    requires es_same(o, es_mk_un(op, a)), es_un_targets(es_mk_un(op, a), op, a),
    ensures es_un_targets(o, op, a),
{
    broadcast use lemma_es_same_trans_b;
}

// ---- entry lemma of substitute_trivial_operations: the facts hold for EVERY rewritten argument a1 with es_same(a0, a1) ----

pub open spec fn es_main_facts(e: Expression) -> bool {
    match e {
        Expression::Subpiece { low_byte, size, arg } =>
            forall |a1: Expression| #[trigger] es_same(*arg, a1) ==> es_kids_ok(a1) && es_sub_targets(e, low_byte, size, a1),
        Expression::Cast { op, size, arg } =>
            forall |a1: Expression| #[trigger] es_same(*arg, a1) ==> es_kids_ok(a1) && es_cast_targets(e, op, size, a1),
        Expression::UnOp { op, arg } =>
            forall |a1: Expression| #[trigger] es_same(*arg, a1) ==> es_kids_ok(a1) && es_un_targets(e, op, a1),
        Expression::BinOp { op, lhs, rhs } =>
            forall |l1: Expression, r1: Expression| #[trigger] es_same(*lhs, l1) && #[trigger] es_same(*rhs, r1) ==> es_same(e, es_mk_bin(op, l1, r1)),
        _ => true,
    }
}

pub proof fn lemma_es_entry_main(e: Expression)
    requires es_wf(e),
    ensures es_same(e, e), es_main_facts(e),
        match e {
            Expression::Subpiece { low_byte, size, arg } => es_wf(*arg),
            Expression::Cast { op, size, arg } => es_wf(*arg),
            Expression::UnOp { op, arg } => es_wf(*arg),
            Expression::BinOp { op, lhs, rhs } => es_wf(*lhs) && es_wf(*rhs),
            _ => true,
        },
{
    hide(es_eval); hide(pcode_bin); hide(pcode_cast); hide(pcode_un);
    match e {
        Expression::Subpiece { low_byte, size, arg } => {
            assert forall |a1: Expression| #[trigger] es_same(*arg, a1) implies es_kids_ok(a1) && es_sub_targets(e, low_byte, size, a1) by {
                lemma_es_cong_sub(low_byte, size, *arg, a1);
                lemma_es_kids_ok(a1);
                lemma_es_rules_sub(low_byte, size, a1);
                lemma_es_lift_sub(e, low_byte, size, a1);
            }
        },
        Expression::Cast { op, size, arg } => {
            assert forall |a1: Expression| #[trigger] es_same(*arg, a1) implies es_kids_ok(a1) && es_cast_targets(e, op, size, a1) by {
                lemma_es_cong_cast(op, size, *arg, a1);
                lemma_es_kids_ok(a1);
                lemma_es_rules_cast(op, size, a1);
                lemma_es_lift_cast(e, op, size, a1);
            }
        },
        Expression::UnOp { op, arg } => {
            assert forall |a1: Expression| #[trigger] es_same(*arg, a1) implies es_kids_ok(a1) && es_un_targets(e, op, a1) by {
                lemma_es_cong_un(op, *arg, a1);
                lemma_es_kids_ok(a1);
                lemma_es_rules_un(op, a1);
                lemma_es_lift_un(e, op, a1);
            }
        },
        Expression::BinOp { op, lhs, rhs } => {
            assert forall |l1: Expression, r1: Expression| #[trigger] es_same(*lhs, l1) && #[trigger] es_same(*rhs, r1) implies es_same(e, es_mk_bin(op, l1, r1)) by {
                lemma_es_cong_bin(op, *lhs, *rhs, l1, r1);
            }
        },
        _ => {},
    }
}
