#![allow(unused_imports, unused_variables, unused_mut, dead_code, non_snake_case, unused_parens, unused_assignments, unreachable_code, unused_braces)]
use vstd::prelude::*;
use vstd::std_specs::ops::*;
use vstd::std_specs::cmp::*;
use vstd::std_specs::convert::*;
verus! {
global size_of usize == 8;
// ======== include shim/prelude.rs ========
// ---------------------------------------------------------------------------
// shim/prelude.rs  -- TRUSTED.  Error type, divergence helpers, min/max.
// Every `external_body` here is an assumption and is counted in the evidence.
// ---------------------------------------------------------------------------

/// `anyhow::Error` and `apint::Error` collapsed to one opaque value (rule R4):
/// the payload is dropped, Ok/Err is kept.
#[derive(Debug)]
pub struct Error { pub tag: u8 }

#[verifier::external_body]
pub fn verif_error() -> (r: Error)
{ unimplemented!() }

/// Rule R5: a failing `assert!` / `assert_eq!` diverges; after it the condition holds.
#[verifier::external_body]
pub fn verif_assume_or_diverge(c: bool)
    ensures c
{ unimplemented!() }

/// Rule R5: `panic!()`, `unreachable!()`, `unimplemented!()`.
#[verifier::external_body]
pub fn verif_diverge<T>() -> (r: T)
    ensures false
{ unimplemented!() }

// Rule R6: std::cmp::{min,max} on the primitive types the units use.
pub trait VerifMinMax: Sized {
    spec fn vmm_le(self, other: Self) -> bool;
    fn verif_max_impl(self, other: Self) -> (r: Self)
        ensures r == (if self.vmm_le(other) { other } else { self });
    fn verif_min_impl(self, other: Self) -> (r: Self)
        ensures r == (if self.vmm_le(other) { self } else { other });
}
impl VerifMinMax for u64 {
    open spec fn vmm_le(self, other: u64) -> bool { self <= other }
    fn verif_max_impl(self, other: u64) -> (r: u64) { if self <= other { other } else { self } }
    fn verif_min_impl(self, other: u64) -> (r: u64) { if self <= other { self } else { other } }
}
impl VerifMinMax for i64 {
    open spec fn vmm_le(self, other: i64) -> bool { self <= other }
    fn verif_max_impl(self, other: i64) -> (r: i64) { if self <= other { other } else { self } }
    fn verif_min_impl(self, other: i64) -> (r: i64) { if self <= other { self } else { other } }
}
impl VerifMinMax for usize {
    open spec fn vmm_le(self, other: usize) -> bool { self <= other }
    fn verif_max_impl(self, other: usize) -> (r: usize) { if self <= other { other } else { self } }
    fn verif_min_impl(self, other: usize) -> (r: usize) { if self <= other { self } else { other } }
}
pub fn verif_max<T: VerifMinMax>(a: T, b: T) -> (r: T)
    ensures r == (if a.vmm_le(b) { b } else { a })
{ a.verif_max_impl(b) }
pub fn verif_min<T: VerifMinMax>(a: T, b: T) -> (r: T)
    ensures r == (if a.vmm_le(b) { a } else { b })
{ a.verif_min_impl(b) }

// std functions without a vstd specification in this build (contracts = std documentation)
pub assume_specification<T, E>[ Result::<T, E>::unwrap_or ](res: Result<T, E>, default: T) -> (out: T)
    ensures out == (match res { Ok(t) => t, Err(_) => default }),
;
pub assume_specification<T>[ Option::<T>::or ](a: Option<T>, b: Option<T>) -> (out: Option<T>)
    ensures out == (if a is Some { a } else { b }),
;
// ======== include spec/bvmath.rs ========
// ---------------------------------------------------------------------------
// spec/bvmath.rs -- mathematical vocabulary for fixed-width bitvectors.
// Pure definitions (no axioms).  A bitvector value is a pair (w, u) with
// 1 <= w and 0 <= u < 2^w.
// ---------------------------------------------------------------------------

pub open spec fn p2(n: nat) -> nat { vstd::arithmetic::power2::pow2(n) }

/// Largest bit width the contracts talk about (keeps `usize` width arithmetic overflow free).
pub open spec fn MAXW() -> nat { 0x1000_0000 }

/// x reduced modulo 2^w to the range [0, 2^w).
pub open spec fn trunc(w: nat, x: int) -> nat { (x % (p2(w) as int)) as nat }

/// two's-complement reading of (w,u).
pub open spec fn sval(w: nat, u: nat) -> int {
    if w >= 1 && u >= p2((w - 1) as nat) { u as int - p2(w) as int } else { u as int }
}

pub open spec fn smin(w: nat) -> int { -(p2((w - 1) as nat) as int) }
pub open spec fn smax(w: nat) -> int { p2((w - 1) as nat) as int - 1 }

pub open spec fn popcount(u: nat) -> nat
    decreases u
{
    if u == 0 { 0 } else { (u % 2) + popcount(u / 2) }
}

/// number of bits needed to write u (0 for 0).
pub open spec fn bitlen(u: nat) -> nat
    decreases u
{
    if u == 0 { 0 } else { 1 + bitlen(u / 2) }
}

/// truncating (round-towards-zero) signed quotient and remainder, as P-Code INT_SDIV / INT_SREM.
pub open spec fn tdiv(a: int, b: int) -> int
    recommends b != 0
{
    if a >= 0 && b > 0 { a / b }
    else if a >= 0 && b < 0 { -(a / (-b)) }
    else if a < 0 && b > 0 { -((-a) / b) }
    else { (-a) / (-b) }
}
pub open spec fn trem(a: int, b: int) -> int
    recommends b != 0
{
    a - b * tdiv(a, b)
}

// Bitwise operations, defined bit by bit over the naturals (all widths, no axioms).
pub open spec fn bits_and(a: nat, b: nat) -> nat
    decreases a
{
    if a == 0 { 0 } else { (if a % 2 == 1 && b % 2 == 1 { 1nat } else { 0nat }) + 2 * bits_and(a / 2, b / 2) }
}
pub open spec fn bits_or(a: nat, b: nat) -> nat
    decreases a + b
{
    if a == 0 && b == 0 { 0 } else { (if a % 2 == 1 || b % 2 == 1 { 1nat } else { 0nat }) + 2 * bits_or(a / 2, b / 2) }
}
pub open spec fn bits_xor(a: nat, b: nat) -> nat
    decreases a + b
{
    if a == 0 && b == 0 { 0 } else { (if (a % 2 == 1) != (b % 2 == 1) { 1nat } else { 0nat }) + 2 * bits_xor(a / 2, b / 2) }
}
/// bitwise complement within w bits (pure arithmetic: 2^w - 1 - u).
pub open spec fn bits_not(w: nat, a: nat) -> nat { (p2(w) - 1 - a) as nat }
// ======== include shim/apint.rs ========
// ---------------------------------------------------------------------------
// shim/apint.rs -- TRUSTED contracts for the `apint` 0.2.0 crate (the bodies of
// apint are not verified; these `external_body` declarations state what the
// extracted cwe_checker code may assume about them).  Written from the apint
// source (registry/src/.../apint-0.2.0), including when a call returns `Err`
// and when it panics (a panic is a `requires`).  Cross-checked against the real
// crate by kani/ (loop-free operations) and replay/ (executable twin sweep).
//
// Bitvector = apint::ApInt is modelled as the ghost pair (w, u):  wf <=> 1 <= w <= MAXW, u < 2^w.
// The shim type is `Copy` (rule R3); the real ApInt is not, which only makes
// the shim accept more programs than rustc does -- the extracted code already
// compiles with rustc.
// ---------------------------------------------------------------------------

#[derive(Clone, Copy)]
pub struct BitWidth { pub n: usize }

impl BitWidth {
    pub fn to_usize(self) -> (r: usize)
        ensures r == self.n
    { self.n }
}

impl From<usize> for BitWidth {
    /// apint: `BitWidth::new(width).unwrap()` -- panics for 0.
    fn from(width: usize) -> (r: BitWidth) {
        verif_assume_or_diverge(width != 0);
        BitWidth { n: width }
    }
}
impl FromSpecImpl<usize> for BitWidth {
    open spec fn obeys_from_spec() -> bool { true }
    open spec fn from_spec(width: usize) -> BitWidth { BitWidth { n: width } }
}

impl PartialEq for BitWidth {
    fn eq(&self, other: &BitWidth) -> (r: bool) { self.n == other.n }
}
impl PartialEqSpecImpl for BitWidth {
    open spec fn obeys_eq_spec() -> bool { true }
    open spec fn eq_spec(&self, other: &BitWidth) -> bool { self.n == other.n }
}
impl Eq for BitWidth {}
impl PartialOrd for BitWidth {
    fn partial_cmp(&self, other: &BitWidth) -> (r: Option<core::cmp::Ordering>) {
        if self.n < other.n { Some(core::cmp::Ordering::Less) }
        else if self.n == other.n { Some(core::cmp::Ordering::Equal) }
        else { Some(core::cmp::Ordering::Greater) }
    }
}
impl PartialOrdSpecImpl for BitWidth {
    open spec fn obeys_partial_cmp_spec() -> bool { true }
    open spec fn partial_cmp_spec(&self, other: &BitWidth) -> Option<core::cmp::Ordering> {
        if self.n < other.n { Some(core::cmp::Ordering::Less) }
        else if self.n == other.n { Some(core::cmp::Ordering::Equal) }
        else { Some(core::cmp::Ordering::Greater) }
    }
}

/// Bit width denoted by a value handed to an `W: Into<BitWidth>` parameter.
pub open spec fn tw_of<W: Into<BitWidth>>(t: W) -> nat {
    IntoSpec::<BitWidth>::into_spec(t).n as nat
}
pub open spec fn tw_ok<W: Into<BitWidth>>(t: W) -> bool {
    <W as IntoSpec<BitWidth>>::obeys_into_spec() && 1 <= tw_of(t) <= MAXW()
}

#[derive(Clone, Copy)]
pub enum Bit { Unset, Set }
impl Bit {
    pub fn to_bool(self) -> (r: bool)
        ensures r == (self is Set)
    { match self { Bit::Set => true, Bit::Unset => false } }
}

#[derive(Clone, Copy)]
pub struct Bitvector { pub w: Ghost<nat>, pub u: Ghost<nat> }

pub open spec fn bv(w: nat, u: nat) -> Bitvector { Bitvector { w: Ghost(w), u: Ghost(u) } }

impl Bitvector {
    pub open spec fn wf(&self) -> bool { 1 <= self.w@ <= MAXW() && self.u@ < p2(self.w@) }
    /// two's-complement value
    pub open spec fn s(&self) -> int { sval(self.w@, self.u@) }
    pub open spec fn sign(&self) -> bool { self.u@ >= p2((self.w@ - 1) as nat) }

    // ---- constructors -----------------------------------------------------
    #[verifier::external_body]
    pub fn from_u8(v: u8) -> (r: Bitvector) ensures r == bv(8, v as nat), r.wf() { unimplemented!() }
    #[verifier::external_body]
    pub fn from_u16(v: u16) -> (r: Bitvector) ensures r == bv(16, v as nat), r.wf() { unimplemented!() }
    #[verifier::external_body]
    pub fn from_u32(v: u32) -> (r: Bitvector) ensures r == bv(32, v as nat), r.wf() { unimplemented!() }
    #[verifier::external_body]
    pub fn from_u64(v: u64) -> (r: Bitvector) ensures r == bv(64, v as nat), r.wf() { unimplemented!() }
    #[verifier::external_body]
    pub fn from_u128(v: u128) -> (r: Bitvector) ensures r == bv(128, v as nat), r.wf() { unimplemented!() }
    #[verifier::external_body]
    pub fn from_i8(v: i8) -> (r: Bitvector) ensures r == bv(8, trunc(8, v as int)), r.wf() { unimplemented!() }
    #[verifier::external_body]
    pub fn from_i16(v: i16) -> (r: Bitvector) ensures r == bv(16, trunc(16, v as int)), r.wf() { unimplemented!() }
    #[verifier::external_body]
    pub fn from_i32(v: i32) -> (r: Bitvector) ensures r == bv(32, trunc(32, v as int)), r.wf() { unimplemented!() }
    #[verifier::external_body]
    pub fn from_i64(v: i64) -> (r: Bitvector) ensures r == bv(64, trunc(64, v as int)), r.wf() { unimplemented!() }
    #[verifier::external_body]
    pub fn from_i128(v: i128) -> (r: Bitvector) ensures r == bv(128, trunc(128, v as int)), r.wf() { unimplemented!() }

    #[verifier::external_body]
    pub fn zero(width: BitWidth) -> (r: Bitvector)
        requires 1 <= width.n <= MAXW()
        ensures r == bv(width.n as nat, 0), r.wf()
    { unimplemented!() }
    #[verifier::external_body]
    pub fn one(width: BitWidth) -> (r: Bitvector)
        requires 1 <= width.n <= MAXW()
        ensures r == bv(width.n as nat, 1), r.wf()
    { unimplemented!() }
    #[verifier::external_body]
    pub fn unsigned_max_value(width: BitWidth) -> (r: Bitvector)
        requires 1 <= width.n <= MAXW()
        ensures r == bv(width.n as nat, (p2(width.n as nat) - 1) as nat), r.wf()
    { unimplemented!() }
    #[verifier::external_body]
    pub fn signed_min_value(width: BitWidth) -> (r: Bitvector)
        requires 1 <= width.n <= MAXW()
        ensures r == bv(width.n as nat, p2((width.n - 1) as nat)), r.wf()
    { unimplemented!() }
    #[verifier::external_body]
    pub fn signed_max_value(width: BitWidth) -> (r: Bitvector)
        requires 1 <= width.n <= MAXW()
        ensures r == bv(width.n as nat, (p2((width.n - 1) as nat) - 1) as nat), r.wf()
    { unimplemented!() }

    #[verifier::external_body]
    pub fn width(&self) -> (r: BitWidth)
        requires self.wf()
        ensures r.n as nat == self.w@
    { unimplemented!() }

    // ---- casts --------------------------------------------------------------
    // Err iff the target is narrower (extend) / wider (truncate) than the current width.
    #[verifier::external_body]
    pub fn into_zero_extend<W: Into<BitWidth>>(self, target_width: W) -> (r: Result<Bitvector, Error>)
        requires self.wf(), tw_ok(target_width)
        ensures r is Ok <==> tw_of(target_width) >= self.w@,
                r is Ok ==> r->Ok_0 == bv(tw_of(target_width), self.u@) && r->Ok_0.wf()
    { unimplemented!() }
    #[verifier::external_body]
    pub fn into_sign_extend<W: Into<BitWidth>>(self, target_width: W) -> (r: Result<Bitvector, Error>)
        requires self.wf(), tw_ok(target_width)
        ensures r is Ok <==> tw_of(target_width) >= self.w@,
                r is Ok ==> r->Ok_0 == bv(tw_of(target_width), trunc(tw_of(target_width), self.s())) && r->Ok_0.wf()
    { unimplemented!() }
    #[verifier::external_body]
    pub fn into_truncate<W: Into<BitWidth>>(self, target_width: W) -> (r: Result<Bitvector, Error>)
        requires self.wf(), tw_ok(target_width)
        ensures r is Ok <==> tw_of(target_width) <= self.w@,
                r is Ok ==> r->Ok_0 == bv(tw_of(target_width), self.u@ % p2(tw_of(target_width))) && r->Ok_0.wf()
    { unimplemented!() }
    #[verifier::external_body]
    pub fn into_zero_resize<W: Into<BitWidth>>(self, target_width: W) -> (r: Bitvector)
        requires self.wf(), tw_ok(target_width)
        ensures r == bv(tw_of(target_width), if tw_of(target_width) >= self.w@ { self.u@ } else { self.u@ % p2(tw_of(target_width)) }),
                r.wf()
    { unimplemented!() }
    #[verifier::external_body]
    pub fn into_sign_resize<W: Into<BitWidth>>(self, target_width: W) -> (r: Bitvector)
        requires self.wf(), tw_ok(target_width)
        ensures r == bv(tw_of(target_width), if tw_of(target_width) >= self.w@ { trunc(tw_of(target_width), self.s()) } else { self.u@ % p2(tw_of(target_width)) }),
                r.wf()
    { unimplemented!() }

    // ---- shifts: Err iff shift_amount >= width ------------------------------
    #[verifier::external_body]
    pub fn into_checked_shl(self, shift_amount: usize) -> (r: Result<Bitvector, Error>)
        requires self.wf()
        ensures r is Ok <==> (shift_amount as nat) < self.w@,
                r is Ok ==> r->Ok_0 == bv(self.w@, trunc(self.w@, (self.u@ * p2(shift_amount as nat)) as int)) && r->Ok_0.wf()
    { unimplemented!() }
    #[verifier::external_body]
    pub fn into_checked_lshr(self, shift_amount: usize) -> (r: Result<Bitvector, Error>)
        requires self.wf()
        ensures r is Ok <==> (shift_amount as nat) < self.w@,
                r is Ok ==> r->Ok_0 == bv(self.w@, self.u@ / p2(shift_amount as nat)) && r->Ok_0.wf()
    { unimplemented!() }
    #[verifier::external_body]
    pub fn into_checked_ashr(self, shift_amount: usize) -> (r: Result<Bitvector, Error>)
        requires self.wf()
        ensures r is Ok <==> (shift_amount as nat) < self.w@,
                r is Ok ==> r->Ok_0 == bv(self.w@, trunc(self.w@, self.s() / (p2(shift_amount as nat) as int))) && r->Ok_0.wf()
    { unimplemented!() }

    // ---- modular arithmetic: Err iff widths differ ----------------------------
    #[verifier::external_body]
    pub fn into_checked_add(self, rhs: &Bitvector) -> (r: Result<Bitvector, Error>)
        requires self.wf(), rhs.wf()
        ensures r is Ok <==> self.w@ == rhs.w@,
                r is Ok ==> r->Ok_0 == bv_add(self, *rhs) && r->Ok_0.wf()
    { unimplemented!() }
    #[verifier::external_body]
    pub fn into_checked_sub(self, rhs: &Bitvector) -> (r: Result<Bitvector, Error>)
        requires self.wf(), rhs.wf()
        ensures r is Ok <==> self.w@ == rhs.w@,
                r is Ok ==> r->Ok_0 == bv_sub(self, *rhs) && r->Ok_0.wf()
    { unimplemented!() }
    /// apint: `unimplemented!()` (panic) for widths above 64 bit when the widths match.
    #[verifier::external_body]
    pub fn into_checked_mul(self, rhs: &Bitvector) -> (r: Result<Bitvector, Error>)
        requires self.wf(), rhs.wf(), self.w@ <= 64 || self.w@ != rhs.w@
        ensures r is Ok <==> self.w@ == rhs.w@,
                r is Ok ==> r->Ok_0 == bv_mul(self, *rhs) && r->Ok_0.wf()
    { unimplemented!() }
    #[verifier::external_body]
    pub fn checked_add_assign(&mut self, rhs: &Bitvector) -> (r: Result<(), Error>)
        requires old(self).wf(), rhs.wf()
        ensures r is Ok <==> old(self).w@ == rhs.w@,
                r is Ok ==> *final(self) == bv_add(*old(self), *rhs) && final(self).wf(),
                r is Err ==> *final(self) == *old(self)
    { unimplemented!() }
    #[verifier::external_body]
    pub fn checked_sub_assign(&mut self, rhs: &Bitvector) -> (r: Result<(), Error>)
        requires old(self).wf(), rhs.wf()
        ensures r is Ok <==> old(self).w@ == rhs.w@,
                r is Ok ==> *final(self) == bv_sub(*old(self), *rhs) && final(self).wf(),
                r is Err ==> *final(self) == *old(self)
    { unimplemented!() }

    // ---- division: Err iff rhs == 0 or widths differ; panics (unimplemented!) above 64 bit ----
    #[verifier::external_body]
    pub fn into_checked_udiv(self, rhs: &Bitvector) -> (r: Result<Bitvector, Error>)
        requires self.wf(), rhs.wf(), self.w@ <= 64 || rhs.u@ == 0 || self.w@ != rhs.w@
        ensures r is Ok <==> (self.w@ == rhs.w@ && rhs.u@ != 0),
                r is Ok ==> r->Ok_0 == bv(self.w@, self.u@ / rhs.u@) && r->Ok_0.wf()
    { unimplemented!() }
    #[verifier::external_body]
    pub fn into_checked_urem(self, rhs: &Bitvector) -> (r: Result<Bitvector, Error>)
        requires self.wf(), rhs.wf(), self.w@ <= 64 || rhs.u@ == 0 || self.w@ != rhs.w@
        ensures r is Ok <==> (self.w@ == rhs.w@ && rhs.u@ != 0),
                r is Ok ==> r->Ok_0 == bv(self.w@, self.u@ % rhs.u@) && r->Ok_0.wf()
    { unimplemented!() }
    /// apint computes `i64::wrapping_div` on the sign-extended digits and clears the unused bits:
    /// the quotient is truncated (MIN / -1 = MIN).
    #[verifier::external_body]
    pub fn into_checked_sdiv(self, rhs: &Bitvector) -> (r: Result<Bitvector, Error>)
        requires self.wf(), rhs.wf(), self.w@ <= 64 || rhs.u@ == 0 || self.w@ != rhs.w@
        ensures r is Ok <==> (self.w@ == rhs.w@ && rhs.u@ != 0),
                r is Ok ==> r->Ok_0 == bv(self.w@, trunc(self.w@, tdiv(self.s(), rhs.s()))) && r->Ok_0.wf()
    { unimplemented!() }
    #[verifier::external_body]
    pub fn into_checked_srem(self, rhs: &Bitvector) -> (r: Result<Bitvector, Error>)
        requires self.wf(), rhs.wf(), self.w@ <= 64 || rhs.u@ == 0 || self.w@ != rhs.w@
        ensures r is Ok <==> (self.w@ == rhs.w@ && rhs.u@ != 0),
                r is Ok ==> r->Ok_0 == bv(self.w@, trunc(self.w@, trem(self.s(), rhs.s()))) && r->Ok_0.wf()
    { unimplemented!() }

    #[verifier::external_body]
    pub fn into_bitnot(self) -> (r: Bitvector)
        requires self.wf()
        ensures r == bv(self.w@, bits_not(self.w@, self.u@)), r.wf()
    { unimplemented!() }
    #[verifier::external_body]
    pub fn into_negate(self) -> (r: Bitvector)
        requires self.wf()
        ensures r == bv_neg(self), r.wf()
    { unimplemented!() }

    // ---- comparisons: Err iff widths differ -----------------------------------
    #[verifier::external_body]
    pub fn checked_ult(&self, rhs: &Bitvector) -> (r: Result<bool, Error>)
        requires self.wf(), rhs.wf()
        ensures r is Ok <==> self.w@ == rhs.w@, r is Ok ==> r->Ok_0 == (self.u@ < rhs.u@)
    { unimplemented!() }
    #[verifier::external_body]
    pub fn checked_ule(&self, rhs: &Bitvector) -> (r: Result<bool, Error>)
        requires self.wf(), rhs.wf()
        ensures r is Ok <==> self.w@ == rhs.w@, r is Ok ==> r->Ok_0 == (self.u@ <= rhs.u@)
    { unimplemented!() }
    #[verifier::external_body]
    pub fn checked_ugt(&self, rhs: &Bitvector) -> (r: Result<bool, Error>)
        requires self.wf(), rhs.wf()
        ensures r is Ok <==> self.w@ == rhs.w@, r is Ok ==> r->Ok_0 == (self.u@ > rhs.u@)
    { unimplemented!() }
    #[verifier::external_body]
    pub fn checked_uge(&self, rhs: &Bitvector) -> (r: Result<bool, Error>)
        requires self.wf(), rhs.wf()
        ensures r is Ok <==> self.w@ == rhs.w@, r is Ok ==> r->Ok_0 == (self.u@ >= rhs.u@)
    { unimplemented!() }
    #[verifier::external_body]
    pub fn checked_slt(&self, rhs: &Bitvector) -> (r: Result<bool, Error>)
        requires self.wf(), rhs.wf()
        ensures r is Ok <==> self.w@ == rhs.w@, r is Ok ==> r->Ok_0 == (self.s() < rhs.s())
    { unimplemented!() }
    #[verifier::external_body]
    pub fn checked_sle(&self, rhs: &Bitvector) -> (r: Result<bool, Error>)
        requires self.wf(), rhs.wf()
        ensures r is Ok <==> self.w@ == rhs.w@, r is Ok ==> r->Ok_0 == (self.s() <= rhs.s())
    { unimplemented!() }
    #[verifier::external_body]
    pub fn checked_sgt(&self, rhs: &Bitvector) -> (r: Result<bool, Error>)
        requires self.wf(), rhs.wf()
        ensures r is Ok <==> self.w@ == rhs.w@, r is Ok ==> r->Ok_0 == (self.s() > rhs.s())
    { unimplemented!() }
    #[verifier::external_body]
    pub fn checked_sge(&self, rhs: &Bitvector) -> (r: Result<bool, Error>)
        requires self.wf(), rhs.wf()
        ensures r is Ok <==> self.w@ == rhs.w@, r is Ok ==> r->Ok_0 == (self.s() >= rhs.s())
    { unimplemented!() }

    // ---- predicates and bit counts ----------------------------------------------
    #[verifier::external_body]
    pub fn is_zero(&self) -> (r: bool) requires self.wf() ensures r == (self.u@ == 0) { unimplemented!() }
    #[verifier::external_body]
    pub fn is_one(&self) -> (r: bool) requires self.wf() ensures r == (self.u@ == 1) { unimplemented!() }
    #[verifier::external_body]
    pub fn sign_bit(&self) -> (r: Bit) requires self.wf() ensures (r is Set) == self.sign() { unimplemented!() }
    #[verifier::external_body]
    pub fn count_ones(&self) -> (r: usize) requires self.wf() ensures r as nat == popcount(self.u@) { unimplemented!() }
    #[verifier::external_body]
    pub fn leading_zeros(&self) -> (r: usize) requires self.wf() ensures r as int == self.w@ - bitlen(self.u@) { unimplemented!() }
    #[verifier::external_body]
    pub fn trailing_zeros(&self) -> (r: usize) requires self.wf() ensures r as nat == (if self.u@ == 0 { self.w@ } else { tz(self.u@) }) { unimplemented!() }

    // ---- lossless conversion to primitives: Err iff the *unsigned* value does not fit ------
    #[verifier::external_body]
    pub fn try_to_u8(&self) -> (r: Result<u8, Error>)
        requires self.wf()
        ensures r is Ok <==> self.u@ < p2(8), r is Ok ==> r->Ok_0 as nat == self.u@
    { unimplemented!() }
    #[verifier::external_body]
    pub fn try_to_u64(&self) -> (r: Result<u64, Error>)
        requires self.wf()
        ensures r is Ok <==> self.u@ < p2(64), r is Ok ==> r->Ok_0 as nat == self.u@
    { unimplemented!() }
    /// sign extension from the own width when it is below 64 bit, else the low 64 bits read as i64.
    #[verifier::external_body]
    pub fn try_to_i64(&self) -> (r: Result<i64, Error>)
        requires self.wf()
        ensures r is Ok <==> self.u@ < p2(64),
                r is Ok ==> r->Ok_0 as int == (if self.w@ <= 64 { self.s() } else { sval(64, self.u@) })
    { unimplemented!() }
    #[verifier::external_body]
    pub fn try_to_i128(&self) -> (r: Result<i128, Error>)
        requires self.wf()
        ensures r is Ok <==> self.u@ < p2(128),
                r is Ok ==> r->Ok_0 as int == (if self.w@ <= 128 { self.s() } else { sval(128, self.u@) })
    { unimplemented!() }
    #[verifier::external_body]
    pub fn try_to_u128(&self) -> (r: Result<u128, Error>)
        requires self.wf()
        ensures r is Ok <==> self.u@ < p2(128), r is Ok ==> r->Ok_0 as nat == self.u@
    { unimplemented!() }
}

/// number of trailing zero bits of a non-zero value
pub open spec fn tz(u: nat) -> nat
    decreases u
{
    if u == 0 || u % 2 == 1 { 0 } else { 1 + tz(u / 2) }
}

pub open spec fn bv_add(a: Bitvector, b: Bitvector) -> Bitvector { bv(a.w@, trunc(a.w@, (a.u@ + b.u@) as int)) }
pub open spec fn bv_sub(a: Bitvector, b: Bitvector) -> Bitvector { bv(a.w@, trunc(a.w@, a.u@ - b.u@)) }
pub open spec fn bv_mul(a: Bitvector, b: Bitvector) -> Bitvector { bv(a.w@, trunc(a.w@, (a.u@ * b.u@) as int)) }
pub open spec fn bv_neg(a: Bitvector) -> Bitvector { bv(a.w@, trunc(a.w@, -(a.u@ as int))) }
pub open spec fn bv_and(a: Bitvector, b: Bitvector) -> Bitvector { bv(a.w@, bits_and(a.u@, b.u@)) }
pub open spec fn bv_or(a: Bitvector, b: Bitvector) -> Bitvector { bv(a.w@, bits_or(a.u@, b.u@)) }
pub open spec fn bv_xor(a: Bitvector, b: Bitvector) -> Bitvector { bv(a.w@, bits_xor(a.u@, b.u@)) }

// PartialEq: apint compares width and digits; never panics.
impl PartialEq for Bitvector {
    #[verifier::external_body]
    fn eq(&self, other: &Bitvector) -> (r: bool) { unimplemented!() }
}
impl PartialEqSpecImpl for Bitvector {
    open spec fn obeys_eq_spec() -> bool { true }
    open spec fn eq_spec(&self, other: &Bitvector) -> bool { self.w@ == other.w@ && self.u@ == other.u@ }
}
impl Eq for Bitvector {}

// From<primitive> for ApInt
impl From<u8> for Bitvector {
    #[verifier::external_body]
    fn from(v: u8) -> (r: Bitvector) { unimplemented!() }
}
impl FromSpecImpl<u8> for Bitvector {
    open spec fn obeys_from_spec() -> bool { true }
    open spec fn from_spec(v: u8) -> Bitvector { bv(8, v as nat) }
}
impl From<u64> for Bitvector {
    #[verifier::external_body]
    fn from(v: u64) -> (r: Bitvector) { unimplemented!() }
}
impl FromSpecImpl<u64> for Bitvector {
    open spec fn obeys_from_spec() -> bool { true }
    open spec fn from_spec(v: u64) -> Bitvector { bv(64, v as nat) }
}

/// apint::Int -- a signed view of an ApInt.
#[derive(Clone, Copy)]
pub struct Int { pub value: Bitvector }
impl From<Bitvector> for Int {
    fn from(value: Bitvector) -> (r: Int) { Int { value } }
}
impl FromSpecImpl<Bitvector> for Int {
    open spec fn obeys_from_spec() -> bool { true }
    open spec fn from_spec(value: Bitvector) -> Int { Int { value } }
}
impl Int {
    /// apint: `self.sign_bit() == Bit::Unset` (zero counts as positive)
    #[verifier::external_body]
    pub fn is_positive(&self) -> (r: bool) requires self.value.wf() ensures r == !self.value.sign() { unimplemented!() }
    #[verifier::external_body]
    pub fn is_negative(&self) -> (r: bool) requires self.value.wf() ensures r == self.value.sign() { unimplemented!() }
}
// ======== include shim/apint_ops.rs ========
// GENERATED by shim/gen_apint_ops.py -- TRUSTED (see shim/apint.rs)

impl core::ops::Add<Bitvector> for Bitvector {
    type Output = Bitvector;
    #[verifier::external_body]
    fn add(self, rhs: Bitvector) -> (r: Bitvector) { unimplemented!() }
}
impl AddSpecImpl<Bitvector> for Bitvector {
    open spec fn obeys_add_spec() -> bool { true }
    open spec fn add_req(self, rhs: Bitvector) -> bool { self.wf() && rhs.wf() && self.w@ == rhs.w@ }
    open spec fn add_spec(self, rhs: Bitvector) -> Bitvector { bv_add(self, rhs) }
}

impl<'b> core::ops::Add<Bitvector> for &'b Bitvector {
    type Output = Bitvector;
    #[verifier::external_body]
    fn add(self, rhs: Bitvector) -> (r: Bitvector) { unimplemented!() }
}
impl<'b> AddSpecImpl<Bitvector> for &'b Bitvector {
    open spec fn obeys_add_spec() -> bool { true }
    open spec fn add_req(self, rhs: Bitvector) -> bool { self.wf() && rhs.wf() && self.w@ == rhs.w@ }
    open spec fn add_spec(self, rhs: Bitvector) -> Bitvector { bv_add(*self, rhs) }
}

impl<'a, 'b> core::ops::Add<&'a Bitvector> for &'b Bitvector {
    type Output = Bitvector;
    #[verifier::external_body]
    fn add(self, rhs: &'a Bitvector) -> (r: Bitvector) { unimplemented!() }
}
impl<'a, 'b> AddSpecImpl<&'a Bitvector> for &'b Bitvector {
    open spec fn obeys_add_spec() -> bool { true }
    open spec fn add_req(self, rhs: &'a Bitvector) -> bool { self.wf() && rhs.wf() && self.w@ == rhs.w@ }
    open spec fn add_spec(self, rhs: &'a Bitvector) -> Bitvector { bv_add(*self, *rhs) }
}

impl core::ops::AddAssign<Bitvector> for Bitvector {
    #[verifier::external_body]
    fn add_assign(&mut self, rhs: Bitvector) { unimplemented!() }
}
impl AddAssignSpecImpl<Bitvector> for Bitvector {
    open spec fn obeys_add_assign_spec() -> bool { true }
    open spec fn add_assign_req(&self, rhs: Bitvector) -> bool { self.wf() && rhs.wf() && self.w@ == rhs.w@ }
    open spec fn add_assign_spec(&self, rhs: Bitvector) -> &Bitvector { &bv_add(*self, rhs) }
}

impl core::ops::Sub<Bitvector> for Bitvector {
    type Output = Bitvector;
    #[verifier::external_body]
    fn sub(self, rhs: Bitvector) -> (r: Bitvector) { unimplemented!() }
}
impl SubSpecImpl<Bitvector> for Bitvector {
    open spec fn obeys_sub_spec() -> bool { true }
    open spec fn sub_req(self, rhs: Bitvector) -> bool { self.wf() && rhs.wf() && self.w@ == rhs.w@ }
    open spec fn sub_spec(self, rhs: Bitvector) -> Bitvector { bv_sub(self, rhs) }
}

impl<'b> core::ops::Sub<Bitvector> for &'b Bitvector {
    type Output = Bitvector;
    #[verifier::external_body]
    fn sub(self, rhs: Bitvector) -> (r: Bitvector) { unimplemented!() }
}
impl<'b> SubSpecImpl<Bitvector> for &'b Bitvector {
    open spec fn obeys_sub_spec() -> bool { true }
    open spec fn sub_req(self, rhs: Bitvector) -> bool { self.wf() && rhs.wf() && self.w@ == rhs.w@ }
    open spec fn sub_spec(self, rhs: Bitvector) -> Bitvector { bv_sub(*self, rhs) }
}

impl<'a, 'b> core::ops::Sub<&'a Bitvector> for &'b Bitvector {
    type Output = Bitvector;
    #[verifier::external_body]
    fn sub(self, rhs: &'a Bitvector) -> (r: Bitvector) { unimplemented!() }
}
impl<'a, 'b> SubSpecImpl<&'a Bitvector> for &'b Bitvector {
    open spec fn obeys_sub_spec() -> bool { true }
    open spec fn sub_req(self, rhs: &'a Bitvector) -> bool { self.wf() && rhs.wf() && self.w@ == rhs.w@ }
    open spec fn sub_spec(self, rhs: &'a Bitvector) -> Bitvector { bv_sub(*self, *rhs) }
}

impl core::ops::SubAssign<Bitvector> for Bitvector {
    #[verifier::external_body]
    fn sub_assign(&mut self, rhs: Bitvector) { unimplemented!() }
}
impl SubAssignSpecImpl<Bitvector> for Bitvector {
    open spec fn obeys_sub_assign_spec() -> bool { true }
    open spec fn sub_assign_req(&self, rhs: Bitvector) -> bool { self.wf() && rhs.wf() && self.w@ == rhs.w@ }
    open spec fn sub_assign_spec(&self, rhs: Bitvector) -> &Bitvector { &bv_sub(*self, rhs) }
}

impl core::ops::Mul<Bitvector> for Bitvector {
    type Output = Bitvector;
    #[verifier::external_body]
    fn mul(self, rhs: Bitvector) -> (r: Bitvector) { unimplemented!() }
}
impl MulSpecImpl<Bitvector> for Bitvector {
    open spec fn obeys_mul_spec() -> bool { true }
    open spec fn mul_req(self, rhs: Bitvector) -> bool { self.wf() && rhs.wf() && self.w@ == rhs.w@ && self.w@ <= 64 }
    open spec fn mul_spec(self, rhs: Bitvector) -> Bitvector { bv_mul(self, rhs) }
}

impl<'b> core::ops::Mul<Bitvector> for &'b Bitvector {
    type Output = Bitvector;
    #[verifier::external_body]
    fn mul(self, rhs: Bitvector) -> (r: Bitvector) { unimplemented!() }
}
impl<'b> MulSpecImpl<Bitvector> for &'b Bitvector {
    open spec fn obeys_mul_spec() -> bool { true }
    open spec fn mul_req(self, rhs: Bitvector) -> bool { self.wf() && rhs.wf() && self.w@ == rhs.w@ && self.w@ <= 64 }
    open spec fn mul_spec(self, rhs: Bitvector) -> Bitvector { bv_mul(*self, rhs) }
}

impl<'a, 'b> core::ops::Mul<&'a Bitvector> for &'b Bitvector {
    type Output = Bitvector;
    #[verifier::external_body]
    fn mul(self, rhs: &'a Bitvector) -> (r: Bitvector) { unimplemented!() }
}
impl<'a, 'b> MulSpecImpl<&'a Bitvector> for &'b Bitvector {
    open spec fn obeys_mul_spec() -> bool { true }
    open spec fn mul_req(self, rhs: &'a Bitvector) -> bool { self.wf() && rhs.wf() && self.w@ == rhs.w@ && self.w@ <= 64 }
    open spec fn mul_spec(self, rhs: &'a Bitvector) -> Bitvector { bv_mul(*self, *rhs) }
}

impl core::ops::MulAssign<Bitvector> for Bitvector {
    #[verifier::external_body]
    fn mul_assign(&mut self, rhs: Bitvector) { unimplemented!() }
}
impl MulAssignSpecImpl<Bitvector> for Bitvector {
    open spec fn obeys_mul_assign_spec() -> bool { true }
    open spec fn mul_assign_req(&self, rhs: Bitvector) -> bool { self.wf() && rhs.wf() && self.w@ == rhs.w@ && self.w@ <= 64 }
    open spec fn mul_assign_spec(&self, rhs: Bitvector) -> &Bitvector { &bv_mul(*self, rhs) }
}

impl core::ops::BitAnd<Bitvector> for Bitvector {
    type Output = Bitvector;
    #[verifier::external_body]
    fn bitand(self, rhs: Bitvector) -> (r: Bitvector) { unimplemented!() }
}
impl BitAndSpecImpl<Bitvector> for Bitvector {
    open spec fn obeys_bitand_spec() -> bool { true }
    open spec fn bitand_req(self, rhs: Bitvector) -> bool { self.wf() && rhs.wf() && self.w@ == rhs.w@ }
    open spec fn bitand_spec(self, rhs: Bitvector) -> Bitvector { bv_and(self, rhs) }
}

impl<'b> core::ops::BitAnd<Bitvector> for &'b Bitvector {
    type Output = Bitvector;
    #[verifier::external_body]
    fn bitand(self, rhs: Bitvector) -> (r: Bitvector) { unimplemented!() }
}
impl<'b> BitAndSpecImpl<Bitvector> for &'b Bitvector {
    open spec fn obeys_bitand_spec() -> bool { true }
    open spec fn bitand_req(self, rhs: Bitvector) -> bool { self.wf() && rhs.wf() && self.w@ == rhs.w@ }
    open spec fn bitand_spec(self, rhs: Bitvector) -> Bitvector { bv_and(*self, rhs) }
}

impl<'a, 'b> core::ops::BitAnd<&'a Bitvector> for &'b Bitvector {
    type Output = Bitvector;
    #[verifier::external_body]
    fn bitand(self, rhs: &'a Bitvector) -> (r: Bitvector) { unimplemented!() }
}
impl<'a, 'b> BitAndSpecImpl<&'a Bitvector> for &'b Bitvector {
    open spec fn obeys_bitand_spec() -> bool { true }
    open spec fn bitand_req(self, rhs: &'a Bitvector) -> bool { self.wf() && rhs.wf() && self.w@ == rhs.w@ }
    open spec fn bitand_spec(self, rhs: &'a Bitvector) -> Bitvector { bv_and(*self, *rhs) }
}

impl core::ops::BitAndAssign<Bitvector> for Bitvector {
    #[verifier::external_body]
    fn bitand_assign(&mut self, rhs: Bitvector) { unimplemented!() }
}
impl BitAndAssignSpecImpl<Bitvector> for Bitvector {
    open spec fn obeys_bitand_assign_spec() -> bool { true }
    open spec fn bitand_assign_req(&self, rhs: Bitvector) -> bool { self.wf() && rhs.wf() && self.w@ == rhs.w@ }
    open spec fn bitand_assign_spec(&self, rhs: Bitvector) -> &Bitvector { &bv_and(*self, rhs) }
}

impl core::ops::BitOr<Bitvector> for Bitvector {
    type Output = Bitvector;
    #[verifier::external_body]
    fn bitor(self, rhs: Bitvector) -> (r: Bitvector) { unimplemented!() }
}
impl BitOrSpecImpl<Bitvector> for Bitvector {
    open spec fn obeys_bitor_spec() -> bool { true }
    open spec fn bitor_req(self, rhs: Bitvector) -> bool { self.wf() && rhs.wf() && self.w@ == rhs.w@ }
    open spec fn bitor_spec(self, rhs: Bitvector) -> Bitvector { bv_or(self, rhs) }
}

impl<'b> core::ops::BitOr<Bitvector> for &'b Bitvector {
    type Output = Bitvector;
    #[verifier::external_body]
    fn bitor(self, rhs: Bitvector) -> (r: Bitvector) { unimplemented!() }
}
impl<'b> BitOrSpecImpl<Bitvector> for &'b Bitvector {
    open spec fn obeys_bitor_spec() -> bool { true }
    open spec fn bitor_req(self, rhs: Bitvector) -> bool { self.wf() && rhs.wf() && self.w@ == rhs.w@ }
    open spec fn bitor_spec(self, rhs: Bitvector) -> Bitvector { bv_or(*self, rhs) }
}

impl<'a, 'b> core::ops::BitOr<&'a Bitvector> for &'b Bitvector {
    type Output = Bitvector;
    #[verifier::external_body]
    fn bitor(self, rhs: &'a Bitvector) -> (r: Bitvector) { unimplemented!() }
}
impl<'a, 'b> BitOrSpecImpl<&'a Bitvector> for &'b Bitvector {
    open spec fn obeys_bitor_spec() -> bool { true }
    open spec fn bitor_req(self, rhs: &'a Bitvector) -> bool { self.wf() && rhs.wf() && self.w@ == rhs.w@ }
    open spec fn bitor_spec(self, rhs: &'a Bitvector) -> Bitvector { bv_or(*self, *rhs) }
}

impl core::ops::BitOrAssign<Bitvector> for Bitvector {
    #[verifier::external_body]
    fn bitor_assign(&mut self, rhs: Bitvector) { unimplemented!() }
}
impl BitOrAssignSpecImpl<Bitvector> for Bitvector {
    open spec fn obeys_bitor_assign_spec() -> bool { true }
    open spec fn bitor_assign_req(&self, rhs: Bitvector) -> bool { self.wf() && rhs.wf() && self.w@ == rhs.w@ }
    open spec fn bitor_assign_spec(&self, rhs: Bitvector) -> &Bitvector { &bv_or(*self, rhs) }
}

impl core::ops::BitXor<Bitvector> for Bitvector {
    type Output = Bitvector;
    #[verifier::external_body]
    fn bitxor(self, rhs: Bitvector) -> (r: Bitvector) { unimplemented!() }
}
impl BitXorSpecImpl<Bitvector> for Bitvector {
    open spec fn obeys_bitxor_spec() -> bool { true }
    open spec fn bitxor_req(self, rhs: Bitvector) -> bool { self.wf() && rhs.wf() && self.w@ == rhs.w@ }
    open spec fn bitxor_spec(self, rhs: Bitvector) -> Bitvector { bv_xor(self, rhs) }
}

impl<'b> core::ops::BitXor<Bitvector> for &'b Bitvector {
    type Output = Bitvector;
    #[verifier::external_body]
    fn bitxor(self, rhs: Bitvector) -> (r: Bitvector) { unimplemented!() }
}
impl<'b> BitXorSpecImpl<Bitvector> for &'b Bitvector {
    open spec fn obeys_bitxor_spec() -> bool { true }
    open spec fn bitxor_req(self, rhs: Bitvector) -> bool { self.wf() && rhs.wf() && self.w@ == rhs.w@ }
    open spec fn bitxor_spec(self, rhs: Bitvector) -> Bitvector { bv_xor(*self, rhs) }
}

impl<'a, 'b> core::ops::BitXor<&'a Bitvector> for &'b Bitvector {
    type Output = Bitvector;
    #[verifier::external_body]
    fn bitxor(self, rhs: &'a Bitvector) -> (r: Bitvector) { unimplemented!() }
}
impl<'a, 'b> BitXorSpecImpl<&'a Bitvector> for &'b Bitvector {
    open spec fn obeys_bitxor_spec() -> bool { true }
    open spec fn bitxor_req(self, rhs: &'a Bitvector) -> bool { self.wf() && rhs.wf() && self.w@ == rhs.w@ }
    open spec fn bitxor_spec(self, rhs: &'a Bitvector) -> Bitvector { bv_xor(*self, *rhs) }
}

impl core::ops::BitXorAssign<Bitvector> for Bitvector {
    #[verifier::external_body]
    fn bitxor_assign(&mut self, rhs: Bitvector) { unimplemented!() }
}
impl BitXorAssignSpecImpl<Bitvector> for Bitvector {
    open spec fn obeys_bitxor_assign_spec() -> bool { true }
    open spec fn bitxor_assign_req(&self, rhs: Bitvector) -> bool { self.wf() && rhs.wf() && self.w@ == rhs.w@ }
    open spec fn bitxor_assign_spec(&self, rhs: Bitvector) -> &Bitvector { &bv_xor(*self, rhs) }
}

impl core::ops::Neg for Bitvector {
    type Output = Bitvector;
    #[verifier::external_body]
    fn neg(self) -> (r: Bitvector) { unimplemented!() }
}
impl NegSpecImpl for Bitvector {
    open spec fn obeys_neg_spec() -> bool { true }
    open spec fn neg_req(self) -> bool { self.wf() }
    open spec fn neg_spec(self) -> Bitvector { bv_neg(self) }
}

impl<'a> core::ops::Neg for &'a Bitvector {
    type Output = Bitvector;
    #[verifier::external_body]
    fn neg(self) -> (r: Bitvector) { unimplemented!() }
}
impl<'a> NegSpecImpl for &'a Bitvector {
    open spec fn obeys_neg_spec() -> bool { true }
    open spec fn neg_req(self) -> bool { self.wf() }
    open spec fn neg_spec(self) -> Bitvector { bv_neg(*self) }
}

impl core::ops::Not for Bitvector {
    type Output = Bitvector;
    #[verifier::external_body]
    fn not(self) -> (r: Bitvector) { unimplemented!() }
}
impl NotSpecImpl for Bitvector {
    open spec fn obeys_not_spec() -> bool { true }
    open spec fn not_req(self) -> bool { self.wf() }
    open spec fn not_spec(self) -> Bitvector { bv(self.w@, bits_not(self.w@, self.u@)) }
}
// ======== include shim/bytesize.rs ========
// ---------------------------------------------------------------------------
// shim/bytesize.rs -- TRUSTED.  `ByteSize(u64)` of cwe_checker gets most of its
// behaviour from `derive` / `derive_more` (From, Into, Add, Sub, PartialOrd, ...);
// generated code is dropped by extraction (rule R1), so it is restated here.
// The hand-written impls of ByteSize (`new`, `as_bit_length`, the conversions
// from/to apint::BitWidth) are *extracted from /repo*, not written here.
// derive_more's Add/Sub are plain `self.0 + rhs.0` / `self.0 - rhs.0`: overflow
// panics in debug builds and wraps in release builds -> stated as `requires`.
// ---------------------------------------------------------------------------

#[derive(Clone, Copy)]
pub struct ByteSize(pub u64);

impl PartialEq for ByteSize {
    fn eq(&self, other: &ByteSize) -> (r: bool) { self.0 == other.0 }
}
impl PartialEqSpecImpl for ByteSize {
    open spec fn obeys_eq_spec() -> bool { true }
    open spec fn eq_spec(&self, other: &ByteSize) -> bool { self.0 == other.0 }
}
impl Eq for ByteSize {}
impl PartialOrd for ByteSize {
    fn partial_cmp(&self, other: &ByteSize) -> (r: Option<core::cmp::Ordering>) {
        if self.0 < other.0 { Some(core::cmp::Ordering::Less) }
        else if self.0 == other.0 { Some(core::cmp::Ordering::Equal) }
        else { Some(core::cmp::Ordering::Greater) }
    }
}
impl PartialOrdSpecImpl for ByteSize {
    open spec fn obeys_partial_cmp_spec() -> bool { true }
    open spec fn partial_cmp_spec(&self, other: &ByteSize) -> Option<core::cmp::Ordering> {
        if self.0 < other.0 { Some(core::cmp::Ordering::Less) }
        else if self.0 == other.0 { Some(core::cmp::Ordering::Equal) }
        else { Some(core::cmp::Ordering::Greater) }
    }
}

impl From<u64> for ByteSize {
    fn from(v: u64) -> (r: ByteSize) { ByteSize(v) }
}
impl FromSpecImpl<u64> for ByteSize {
    open spec fn obeys_from_spec() -> bool { true }
    open spec fn from_spec(v: u64) -> ByteSize { ByteSize(v) }
}
impl From<ByteSize> for u64 {
    fn from(v: ByteSize) -> (r: u64) { v.0 }
}
impl FromSpecImpl<ByteSize> for u64 {
    open spec fn obeys_from_spec() -> bool { true }
    open spec fn from_spec(v: ByteSize) -> u64 { v.0 }
}

impl core::ops::Add<ByteSize> for ByteSize {
    type Output = ByteSize;
    #[verifier::external_body]
    fn add(self, rhs: ByteSize) -> (r: ByteSize) { unimplemented!() }
}
impl AddSpecImpl<ByteSize> for ByteSize {
    open spec fn obeys_add_spec() -> bool { true }
    open spec fn add_req(self, rhs: ByteSize) -> bool { self.0 + rhs.0 <= u64::MAX }
    open spec fn add_spec(self, rhs: ByteSize) -> ByteSize { ByteSize((self.0 + rhs.0) as u64) }
}
impl core::ops::Sub<ByteSize> for ByteSize {
    type Output = ByteSize;
    #[verifier::external_body]
    fn sub(self, rhs: ByteSize) -> (r: ByteSize) { unimplemented!() }
}
impl SubSpecImpl<ByteSize> for ByteSize {
    open spec fn obeys_sub_spec() -> bool { true }
    open spec fn sub_req(self, rhs: ByteSize) -> bool { self.0 >= rhs.0 }
    open spec fn sub_spec(self, rhs: ByteSize) -> ByteSize { ByteSize((self.0 - rhs.0) as u64) }
}

/// Bound on byte sizes under which `size * 8` and width sums stay far away from overflow.
pub open spec fn MAXBYTES() -> nat { 0x200_0000 }
// ======== include lemmas/bv.rs ========
// ---------------------------------------------------------------------------
// lemmas/bv.rs -- proved facts about p2 / trunc / sval (no assumptions).
// ---------------------------------------------------------------------------

pub proof fn lemma_p2(w: nat)
    ensures p2(w) > 0, w >= 1 ==> p2(w) == 2 * p2((w - 1) as nat),
{
    vstd::arithmetic::power2::lemma_pow2_pos(w);
    if w >= 1 { vstd::arithmetic::power2::lemma_pow2_unfold(w); }
}

pub proof fn lemma_p2_mono(a: nat, b: nat)
    requires a <= b
    ensures p2(a) <= p2(b), p2(b) == p2(a) * p2((b - a) as nat),
{
    if a < b { vstd::arithmetic::power2::lemma_pow2_strictly_increases(a, b); }
    vstd::arithmetic::power2::lemma_pow2_adds(a, (b - a) as nat);
}

pub proof fn lemma_p2_consts()
    ensures p2(0) == 1, p2(1) == 2, p2(3) == 8, p2(7) == 128, p2(8) == 256, p2(16) == 65536, p2(32) == 0x1_0000_0000,
            p2(63) == 0x8000_0000_0000_0000, p2(64) == 0x1_0000_0000_0000_0000,
            p2(127) == 0x8000_0000_0000_0000_0000_0000_0000_0000, p2(128) == 0x1_0000_0000_0000_0000_0000_0000_0000_0000,
{
    vstd::arithmetic::power2::lemma2_to64();
    vstd::arithmetic::power2::lemma2_to64_rest();
    vstd::arithmetic::power2::lemma_pow2_adds(64, 63);
    vstd::arithmetic::power2::lemma_pow2_adds(64, 64);
    assert(p2(127) == 0x8000_0000_0000_0000_0000_0000_0000_0000) by {
        assert(0x1_0000_0000_0000_0000 * 0x8000_0000_0000_0000 == 0x8000_0000_0000_0000_0000_0000_0000_0000) by (compute);
    }
    assert(p2(128) == 0x1_0000_0000_0000_0000_0000_0000_0000_0000) by {
        assert(0x1_0000_0000_0000_0000 * 0x1_0000_0000_0000_0000 == 0x1_0000_0000_0000_0000_0000_0000_0000_0000) by (compute);
    }
}

/// the basic tool: x = q*2^w + y with 0 <= y < 2^w  ==>  trunc(w, x) = y
pub proof fn lemma_trunc_unique(w: nat, x: int, q: int, y: int)
    requires 0 <= y < p2(w), x == q * p2(w) + y,
    ensures trunc(w, x) == y,
{
    lemma_p2(w);
    vstd::arithmetic::div_mod::lemma_fundamental_div_mod_converse(x, p2(w) as int, q, y);
}

pub proof fn lemma_trunc_range(w: nat, x: int)
    ensures 0 <= trunc(w, x) < p2(w), x == (x / (p2(w) as int)) * p2(w) + trunc(w, x),
{
    lemma_p2(w);
    vstd::arithmetic::div_mod::lemma_mod_bound(x, p2(w) as int);
    vstd::arithmetic::div_mod::lemma_fundamental_div_mod(x, p2(w) as int);
    assert((p2(w) as int) * (x / (p2(w) as int)) == (x / (p2(w) as int)) * p2(w)) by (nonlinear_arith);
}

pub proof fn lemma_trunc_id(w: nat, x: int)
    requires 0 <= x < p2(w)
    ensures trunc(w, x) == x,
{
    lemma_trunc_unique(w, x, 0, x);
}

/// adding a multiple of 2^w does not change trunc
pub proof fn lemma_trunc_shift(w: nat, x: int, k: int)
    ensures trunc(w, x + k * p2(w)) == trunc(w, x),
{
    lemma_trunc_range(w, x);
    let q = x / (p2(w) as int);
    assert(x + k * p2(w) == (q + k) * p2(w) + trunc(w, x)) by (nonlinear_arith)
        requires x == q * p2(w) + trunc(w, x);
    lemma_trunc_unique(w, x + k * p2(w), q + k, trunc(w, x) as int);
}

pub proof fn lemma_trunc_add_case(w: nat, a: nat, b: nat)
    requires a < p2(w), b < p2(w)
    ensures trunc(w, (a + b) as int) == (if a + b < p2(w) { (a + b) as int } else { a + b - p2(w) }),
{
    if a + b < p2(w) { lemma_trunc_id(w, (a + b) as int); }
    else { lemma_trunc_unique(w, (a + b) as int, 1, a + b - p2(w)); }
}

pub proof fn lemma_trunc_sub_case(w: nat, a: nat, b: nat)
    requires a < p2(w), b < p2(w)
    ensures trunc(w, a - b) == (if a >= b { a - b } else { a - b + p2(w) }),
{
    if a >= b { lemma_trunc_id(w, a - b); }
    else { lemma_trunc_unique(w, a - b, -1, a - b + p2(w)); }
}

pub proof fn lemma_trunc_neg_case(w: nat, a: nat)
    requires a < p2(w)
    ensures trunc(w, -(a as int)) == (if a == 0 { 0 } else { p2(w) - a }),
{
    if a == 0 { lemma_trunc_id(w, 0); }
    else { lemma_trunc_unique(w, -(a as int), -1, p2(w) - a); }
}

/// two's complement reading: range, sign, and the two possible relations to u
pub proof fn lemma_sval(w: nat, u: nat)
    requires 1 <= w, u < p2(w)
    ensures smin(w) <= sval(w, u) <= smax(w),
            (sval(w, u) >= 0) == (u < p2((w - 1) as nat)),
            u < p2((w - 1) as nat) ==> sval(w, u) == u,
            u >= p2((w - 1) as nat) ==> sval(w, u) == u - p2(w),
            trunc(w, sval(w, u)) == u,
            p2(w) == 2 * p2((w - 1) as nat),
            smax(w) - smin(w) + 1 == p2(w),
{
    lemma_p2(w);
    lemma_p2((w - 1) as nat);
    if u < p2((w - 1) as nat) { lemma_trunc_id(w, u as int); }
    else { lemma_trunc_unique(w, u - p2(w), -1, u as int); }
}

/// every integer in the signed range is the reading of its truncation
pub proof fn lemma_trunc_sval(w: nat, x: int)
    requires 1 <= w, smin(w) <= x <= smax(w)
    ensures sval(w, trunc(w, x)) == x, trunc(w, x) < p2(w),
            x >= 0 ==> trunc(w, x) == x, x < 0 ==> trunc(w, x) == x + p2(w),
{
    lemma_p2(w);
    lemma_p2((w - 1) as nat);
    if x >= 0 { lemma_trunc_id(w, x); }
    else { lemma_trunc_unique(w, x, -1, x + p2(w)); }
}

/// congruent values have the same truncation
pub proof fn lemma_trunc_congruent(w: nat, x: int, y: int, k: int)
    requires x == y + k * p2(w)
    ensures trunc(w, x) == trunc(w, y),
{
    lemma_trunc_shift(w, y, k);
}

/// trunc distributes over +, -, * up to congruence
pub proof fn lemma_trunc_add(w: nat, x: int, y: int)
    ensures trunc(w, x + y) == trunc(w, (trunc(w, x) + trunc(w, y)) as int),
{
    lemma_trunc_range(w, x);
    lemma_trunc_range(w, y);
    let qx = x / (p2(w) as int);
    let qy = y / (p2(w) as int);
    assert(x + y == trunc(w, x) + trunc(w, y) + (qx + qy) * p2(w)) by (nonlinear_arith)
        requires x == qx * p2(w) + trunc(w, x), y == qy * p2(w) + trunc(w, y);
    lemma_trunc_congruent(w, x + y, (trunc(w, x) + trunc(w, y)) as int, qx + qy);
}
pub proof fn lemma_trunc_sub(w: nat, x: int, y: int)
    ensures trunc(w, x - y) == trunc(w, trunc(w, x) - trunc(w, y)),
{
    lemma_trunc_range(w, x);
    lemma_trunc_range(w, y);
    let qx = x / (p2(w) as int);
    let qy = y / (p2(w) as int);
    assert(x - y == trunc(w, x) - trunc(w, y) + (qx - qy) * p2(w)) by (nonlinear_arith)
        requires x == qx * p2(w) + trunc(w, x), y == qy * p2(w) + trunc(w, y);
    lemma_trunc_congruent(w, x - y, trunc(w, x) - trunc(w, y), qx - qy);
}
pub proof fn lemma_trunc_mul(w: nat, x: int, y: int)
    ensures trunc(w, x * y) == trunc(w, (trunc(w, x) * trunc(w, y)) as int),
{
    lemma_trunc_range(w, x);
    lemma_trunc_range(w, y);
    let qx = x / (p2(w) as int);
    let qy = y / (p2(w) as int);
    let tx = trunc(w, x) as int;
    let ty = trunc(w, y) as int;
    let p = p2(w) as int;
    assert(x * y == tx * ty + (qx * qy * p + qx * ty + qy * tx) * p) by {
        assert((qx * p + tx) * (qy * p + ty) == (qx * p) * (qy * p) + (qx * p) * ty + tx * (qy * p) + tx * ty) by (nonlinear_arith);
        assert((qx * p) * (qy * p) == (qx * qy * p) * p) by (nonlinear_arith);
        assert((qx * p) * ty == (qx * ty) * p) by (nonlinear_arith);
        assert(tx * (qy * p) == (qy * tx) * p) by (nonlinear_arith);
        assert((qx * qy * p) * p + (qx * ty) * p + (qy * tx) * p == (qx * qy * p + qx * ty + qy * tx) * p) by (nonlinear_arith);
    }
    lemma_trunc_congruent(w, x * y, tx * ty, qx * qy * p + qx * ty + qy * tx);
}

/// signed and unsigned readings are congruent
pub proof fn lemma_sval_congruent(w: nat, u: nat)
    requires 1 <= w, u < p2(w)
    ensures trunc(w, sval(w, u)) == u, trunc(w, u as int) == u,
{
    lemma_sval(w, u);
    lemma_trunc_id(w, u as int);
}
// ---- extracted type ex::BinOpType ----
#[derive(Debug, PartialEq, Eq, Clone, Copy)]
pub enum BinOpType {
    Piece,
    IntEqual,
    IntNotEqual,
    IntLess,
    IntSLess,
    IntLessEqual,
    IntSLessEqual,
    IntAdd,
    IntSub,
    IntCarry,
    IntSCarry,
    IntSBorrow,
    IntXOr,
    IntAnd,
    IntOr,
    IntLeft,
    IntRight,
    IntSRight,
    IntMult,
    IntDiv,
    IntRem,
    IntSDiv,
    IntSRem,
    BoolXOr,
    BoolAnd,
    BoolOr,
    FloatEqual,
    FloatNotEqual,
    FloatLess,
    FloatLessEqual,
    FloatAdd,
    FloatSub,
    FloatMult,
    FloatDiv,
}
// ---- extracted type ex::CastOpType ----
#[derive(Debug, PartialEq, Eq, Clone, Copy)]
pub enum CastOpType {
    IntZExt,
    IntSExt,
    Int2Float,
    Float2Float,
    Trunc,
    PopCount,
    LzCount,
}
// ---- extracted type ex::UnOpType ----
#[derive(Debug, PartialEq, Eq, Clone, Copy)]
pub enum UnOpType {
    IntNegate,
    Int2Comp,
    BoolNegate,
    FloatNegate,
    FloatAbs,
    FloatSqrt,
    FloatCeil,
    FloatFloor,
    FloatRound,
    FloatNaN,
}
// ======== include spec/pcode.rs ========
// ---------------------------------------------------------------------------
// spec/pcode.rs -- the ORACLE for C01: Ghidra P-Code reference semantics of the
// integer operations, written from the P-Code reference manual and the property
// statement, over mathematical integers.  Values are Bitvector = (w, u).
// `None` = the reference semantics give no integer value here (floating point,
// division by zero).  Boolean results are 1-byte values 0/1.
// ---------------------------------------------------------------------------

pub open spec fn b2bv(b: bool) -> Bitvector { bv(8, if b { 1 } else { 0 }) }

pub open spec fn is_float_binop(op: BinOpType) -> bool {
    op is FloatEqual || op is FloatNotEqual || op is FloatLess || op is FloatLessEqual
    || op is FloatAdd || op is FloatSub || op is FloatMult || op is FloatDiv
}
pub open spec fn is_div_binop(op: BinOpType) -> bool {
    op is IntDiv || op is IntSDiv || op is IntRem || op is IntSRem
}
pub open spec fn is_shift_binop(op: BinOpType) -> bool {
    op is IntLeft || op is IntRight || op is IntSRight
}
pub open spec fn is_bool_result_binop(op: BinOpType) -> bool {
    op is IntEqual || op is IntNotEqual || op is IntLess || op is IntSLess || op is IntLessEqual || op is IntSLessEqual
    || op is IntCarry || op is IntSCarry || op is IntSBorrow || op is BoolXOr || op is BoolOr || op is BoolAnd
    || op is FloatEqual || op is FloatNotEqual || op is FloatLess || op is FloatLessEqual
}

/// size (in bits) of the result of a binary operation on operands of wa / wb bits
pub open spec fn out_bits(op: BinOpType, wa: nat, wb: nat) -> nat {
    if op is Piece { wa + wb } else if is_bool_result_binop(op) { 8 } else { wa }
}

pub open spec fn pcode_bin(op: BinOpType, a: Bitvector, b: Bitvector) -> Option<Bitvector> {
    let w = a.w@;
    let (ua, ub) = (a.u@, b.u@);
    let (sa, sb) = (a.s(), b.s());
    match op {
        BinOpType::Piece => Some(bv(a.w@ + b.w@, ua * p2(b.w@) + ub)),
        BinOpType::IntEqual => Some(b2bv(ua == ub)),
        BinOpType::IntNotEqual => Some(b2bv(ua != ub)),
        BinOpType::IntLess => Some(b2bv(ua < ub)),
        BinOpType::IntSLess => Some(b2bv(sa < sb)),
        BinOpType::IntLessEqual => Some(b2bv(ua <= ub)),
        BinOpType::IntSLessEqual => Some(b2bv(sa <= sb)),
        BinOpType::IntAdd => Some(bv(w, trunc(w, (ua + ub) as int))),
        BinOpType::IntSub => Some(bv(w, trunc(w, ua - ub))),
        // unsigned addition overflows
        BinOpType::IntCarry => Some(b2bv(ua + ub >= p2(w))),
        // signed addition overflows
        BinOpType::IntSCarry => Some(b2bv(sa + sb > smax(w) || sa + sb < smin(w))),
        // signed subtraction overflows
        BinOpType::IntSBorrow => Some(b2bv(sa - sb > smax(w) || sa - sb < smin(w))),
        BinOpType::IntXOr | BinOpType::BoolXOr => Some(bv(w, bits_xor(ua, ub))),
        BinOpType::IntAnd | BinOpType::BoolAnd => Some(bv(w, bits_and(ua, ub))),
        BinOpType::IntOr | BinOpType::BoolOr => Some(bv(w, bits_or(ua, ub))),
        // shifts: the amount is the unsigned value of b (any size); amounts >= w shift everything out
        BinOpType::IntLeft => Some(bv(w, if ub >= w { 0 } else { trunc(w, (ua * p2(ub)) as int) })),
        BinOpType::IntRight => Some(bv(w, if ub >= w { 0 } else { ua / p2(ub) })),
        BinOpType::IntSRight => Some(bv(w, if ub >= w { if sa < 0 { (p2(w) - 1) as nat } else { 0 } } else { trunc(w, sa / (p2(ub) as int)) })),
        BinOpType::IntMult => Some(bv(w, trunc(w, (ua * ub) as int))),
        BinOpType::IntDiv => if ub == 0 { None } else { Some(bv(w, ua / ub)) },
        BinOpType::IntRem => if ub == 0 { None } else { Some(bv(w, ua % ub)) },
        BinOpType::IntSDiv => if ub == 0 { None } else { Some(bv(w, trunc(w, tdiv(sa, sb)))) },
        BinOpType::IntSRem => if ub == 0 { None } else { Some(bv(w, trunc(w, trem(sa, sb)))) },
        _ => None,
    }
}

/// what the analyzer is allowed to answer 'unknown' for (property statement)
pub open spec fn unsupported_bin(op: BinOpType, a: Bitvector, b: Bitvector) -> bool {
    is_float_binop(op)
    || ((op is IntMult || is_div_binop(op)) && a.w@ > 64)
    || (is_div_binop(op) && b.u@ == 0)
}

/// operand sizes P-Code requires
pub open spec fn wellsized_bin(op: BinOpType, a: Bitvector, b: Bitvector) -> bool {
    a.wf() && b.wf()
    && (if op is Piece { a.w@ + b.w@ <= MAXW() }
        else if is_shift_binop(op) { b.u@ < p2(64) }
        else { a.w@ == b.w@ })
}

pub open spec fn is_float_unop(op: UnOpType) -> bool {
    !(op is IntNegate || op is Int2Comp || op is BoolNegate)
}
pub open spec fn pcode_un(op: UnOpType, a: Bitvector) -> Option<Bitvector> {
    match op {
        UnOpType::IntNegate => Some(bv(a.w@, bits_not(a.w@, a.u@))),
        UnOpType::Int2Comp => Some(bv(a.w@, trunc(a.w@, -(a.u@ as int)))),
        UnOpType::BoolNegate => Some(b2bv(a.u@ == 0)),
        _ => None,
    }
}
pub open spec fn wellsized_un(op: UnOpType, a: Bitvector) -> bool {
    a.wf() && (op is BoolNegate ==> a.w@ == 8 && a.u@ <= 1)
}

pub open spec fn is_float_cast(kind: CastOpType) -> bool {
    kind is Int2Float || kind is Float2Float || kind is Trunc
}
pub open spec fn pcode_cast(kind: CastOpType, a: Bitvector, t: nat) -> Option<Bitvector> {
    match kind {
        CastOpType::IntZExt => Some(bv(t, a.u@)),
        CastOpType::IntSExt => Some(bv(t, trunc(t, a.s()))),
        CastOpType::PopCount => Some(bv(t, trunc(t, popcount(a.u@) as int))),
        CastOpType::LzCount => Some(bv(t, trunc(t, a.w@ - bitlen(a.u@)))),
        _ => None,
    }
}
pub open spec fn wellsized_cast(kind: CastOpType, a: Bitvector, t: nat) -> bool {
    a.wf() && 1 <= t <= MAXW() && ((kind is IntZExt || kind is IntSExt) ==> t >= a.w@)
}

/// SUBPIECE: drop `low` bits, keep `t` bits.
pub open spec fn pcode_subpiece(a: Bitvector, low: nat, t: nat) -> Bitvector {
    bv(t, (a.u@ / p2(low)) % p2(t))
}
// ======== include lemmas/mul.rs ========
// ---------------------------------------------------------------------------
// lemmas/mul.rs -- truncating division facts and the overflow test of
// signed multiplication (no assumptions).
// ---------------------------------------------------------------------------

pub open spec fn iabs(x: int) -> int { if x < 0 { -x } else { x } }

/// Euclidean facts for a non-negative dividend and a positive divisor
pub proof fn lemma_div_pos(x: int, y: int)
    requires x >= 0, y > 0
    ensures x == y * (x / y) + x % y, 0 <= x % y < y, 0 <= x / y <= x,
{
    vstd::arithmetic::div_mod::lemma_fundamental_div_mod(x, y);
    vstd::arithmetic::div_mod::lemma_mod_bound(x, y);
    vstd::arithmetic::div_mod::lemma_div_pos_is_pos(x, y);
    assert(x / y <= x) by (nonlinear_arith)
        requires x == y * (x / y) + x % y, 0 <= x % y, y >= 1, x / y >= 0;
}

pub proof fn lemma_tdiv_props(a: int, b: int)
    requires b != 0
    ensures a == b * tdiv(a, b) + trem(a, b),
            iabs(trem(a, b)) < iabs(b),
            a >= 0 ==> trem(a, b) >= 0,
            a <= 0 ==> trem(a, b) <= 0,
            iabs(tdiv(a, b)) <= iabs(a),
            (a >= 0 && b > 0 || a <= 0 && b < 0) ==> tdiv(a, b) >= 0,
            (a >= 0 && b < 0 || a <= 0 && b > 0) ==> tdiv(a, b) <= 0,
{
    if a >= 0 && b > 0 {
        lemma_div_pos(a, b);
    } else if a >= 0 && b < 0 {
        lemma_div_pos(a, -b);
        let q = a / (-b);
        assert(b * (-q) == (-b) * q) by (nonlinear_arith);
    } else if a < 0 && b > 0 {
        lemma_div_pos(-a, b);
        let q = (-a) / b;
        assert(b * (-q) == -(b * q)) by (nonlinear_arith);
    } else {
        lemma_div_pos(-a, -b);
        let q = (-a) / (-b);
        assert(b * q == -((-b) * q)) by (nonlinear_arith);
    }
}

/// exact division: (a*b) tdiv a == b
pub proof fn lemma_tdiv_exact(a: int, b: int)
    requires a != 0
    ensures tdiv(a * b, a) == b, trem(a * b, a) == 0,
{
    lemma_tdiv_props(a * b, a);
    let q = tdiv(a * b, a);
    let r = trem(a * b, a);
    assert(a * (b - q) == r) by (nonlinear_arith) requires a * b == a * q + r;
    if b != q {
        assert(iabs(a * (b - q)) >= iabs(a)) by (nonlinear_arith) requires b != q, a != 0;
    }
    assert(a * 0 == 0);
}

/// The overflow test of `signed_mult_with_overflow_flag` (with both quotient checks):
/// sr is the wrapped product.  The two checks pass exactly when the true product is representable.
pub proof fn lemma_mul_overflow_check(w: nat, sa: int, sb: int, sr: int, k: int)
    requires w >= 2, sa != 0,
             smin(w) <= sa <= smax(w), smin(w) <= sb <= smax(w), smin(w) <= sr <= smax(w),
             sa * sb == sr + k * p2(w),
    ensures ({
        let ok1 = trunc(w, tdiv(sr, sa)) == trunc(w, sb);
        let ok2 = sb == 0 || trunc(w, tdiv(sr, sb)) == trunc(w, sa);
        let fits = smin(w) <= sa * sb <= smax(w);
        &&& (ok1 && ok2) == fits
        &&& fits ==> sr == sa * sb
    }),
{
    let p = p2(w) as int;
    let h = p2((w - 1) as nat) as int;
    lemma_p2(w); lemma_p2((w - 1) as nat); lemma_p2((w - 2) as nat);
    assert(p == 2 * h && h >= 2);
    let fits = smin(w) <= sa * sb <= smax(w);
    if fits {
        // both in range and congruent -> equal
        assert(k == 0) by (nonlinear_arith)
            requires sa * sb == sr + k * p, -h <= sa * sb < h, -h <= sr < h, p == 2 * h, h > 0;
        assert(sr == sa * sb);
        lemma_tdiv_exact(sa, sb);
        if sb != 0 {
            assert(sa * sb == sb * sa) by (nonlinear_arith);
            lemma_tdiv_exact(sb, sa);
        }
    } else {
        // show: ok1 && ok2 is impossible
        let q1 = tdiv(sr, sa);
        lemma_tdiv_props(sr, sa);
        if trunc(w, q1) == trunc(w, sb) {
            if q1 <= smax(w) {
                // q1 in range (|q1| <= |sr| <= h), so q1 == sb
                lemma_trunc_sval(w, q1); lemma_trunc_sval(w, sb);
                assert(q1 == sb);
                let r = trem(sr, sa);
                // sr == sa*sb + r,  sa*sb == sr + k*p  ->  r == -k*p, |r| < |sa| <= h < p -> k == 0
                assert(k == 0) by (nonlinear_arith)
                    requires sr == sa * sb + r, sa * sb == sr + k * p, iabs(r) < iabs(sa), iabs(sa) <= h, p == 2 * h, h > 0;
                assert(false);
            } else {
                // q1 == h: only for sr == -h and sa == -1; then sb == -h and the second check fails
                assert(q1 == h);
                assert(iabs(sr) == h && iabs(sa) == 1) by (nonlinear_arith)
                    requires sr == sa * q1 + trem(sr, sa), q1 == h, iabs(trem(sr, sa)) < iabs(sa), -h <= sr < h, sa != 0, h > 0,
                             sr >= 0 ==> trem(sr, sa) >= 0, sr <= 0 ==> trem(sr, sa) <= 0;
                assert(sr == -h);
                assert(sa == -1) by {
                    if sa == 1 { assert(tdiv(-h, 1) == -(h / 1)); assert(h / 1 == h) by { vstd::arithmetic::div_mod::lemma_div_basics_3(h); } }
                }
                lemma_trunc_unique(w, h, 0, h);
                lemma_trunc_sval(w, sb);
                assert(sb == -h);
                // second check: tdiv(-h, -h) == 1, trunc(1) == 1 != trunc(-1) == p - 1
                assert(tdiv(sr, sb) == 1) by { vstd::arithmetic::div_mod::lemma_div_basics_3(h); assert(h / h == 1) by { vstd::arithmetic::div_mod::lemma_div_by_self(h); } }
                lemma_trunc_id(w, 1);
                lemma_trunc_sval(w, sa);
                assert(trunc(w, sa) == p - 1);
            }
        }
    }
}

pub proof fn lemma_trunc_eq_congruent(w: nat, x: int, y: int)
    requires trunc(w, x) == trunc(w, y)
    ensures x == y + ((x - y) / (p2(w) as int)) * p2(w),
{
    lemma_trunc_range(w, x); lemma_trunc_range(w, y);
    let p = p2(w) as int;
    let (qx, qy) = (x / p, y / p);
    assert(x - y == (qx - qy) * p + 0) by (nonlinear_arith)
        requires x == qx * p + trunc(w, x), y == qy * p + trunc(w, y), trunc(w, x) == trunc(w, y);
    lemma_p2(w);
    vstd::arithmetic::div_mod::lemma_fundamental_div_mod_converse(x - y, p, qx - qy, 0);
}

/// what `signed_mult_with_overflow_flag` needs to know about its operands
pub proof fn lemma_mul_flag_facts(a: Bitvector, b: Bitvector)
    requires a.wf(), b.wf(), a.w@ == b.w@, a.w@ >= 2
    ensures ({
        let w = a.w@;
        let r = bv_mul(a, b);
        let fits = smin(w) <= a.s() * b.s() <= smax(w);
        let ok1 = trunc(w, tdiv(r.s(), a.s())) == b.u@;
        let ok2 = b.u@ == 0 || trunc(w, tdiv(r.s(), b.s())) == a.u@;
        &&& r.wf()
        &&& (a.u@ == 0) == (a.s() == 0) && (b.u@ == 0) == (b.s() == 0)
        &&& a.u@ != 0 ==> (ok1 && ok2) == fits
        &&& a.u@ == 0 ==> fits && r.u@ == 0
        &&& fits ==> r.s() == a.s() * b.s()
    }),
{
    let w = a.w@;
    let r = bv_mul(a, b);
    lemma_sval(w, a.u@); lemma_sval(w, b.u@);
    lemma_trunc_range(w, (a.u@ * b.u@) as int);
    lemma_sval(w, r.u@);
    // trunc(sa*sb) == trunc(ua*ub) == ur == trunc(sr)
    lemma_trunc_mul(w, a.s(), b.s());
    lemma_trunc_eq_congruent(w, a.s() * b.s(), r.s());
    let k = (a.s() * b.s() - r.s()) / (p2(w) as int);
    if a.u@ != 0 {
        lemma_mul_overflow_check(w, a.s(), b.s(), r.s(), k);
    } else {
        assert(a.s() * b.s() == 0) by (nonlinear_arith) requires a.s() == 0;
        assert(a.u@ * b.u@ == 0) by (nonlinear_arith) requires a.u@ == 0;
        lemma_trunc_id(w, 0);
        lemma_p2((w - 1) as nat);
    }
}
// ======== include lemmas/pcode_bv.rs ========
// ---------------------------------------------------------------------------
// lemmas/pcode_bv.rs -- proved facts used by the C01 contracts (no assumptions).
// ---------------------------------------------------------------------------

pub proof fn lemma_bits_bound(w: nat, a: nat, b: nat)
    requires a < p2(w), b < p2(w)
    ensures bits_and(a, b) < p2(w), bits_or(a, b) < p2(w), bits_xor(a, b) < p2(w),
    decreases w
{
    lemma_p2(w);
    if w == 0 {
        lemma_p2_consts();
        reveal_with_fuel(bits_and, 2); reveal_with_fuel(bits_or, 2); reveal_with_fuel(bits_xor, 2);
    } else {
        lemma_bits_bound((w - 1) as nat, a / 2, b / 2);
    }
}

/// x = a * 2^k with b < 2^k: OR is addition (the bits do not overlap)
pub proof fn lemma_or_disjoint(a: nat, k: nat, b: nat)
    requires b < p2(k)
    ensures bits_or(a * p2(k), b) == a * p2(k) + b,
    decreases k
{
    lemma_p2(k);
    if k == 0 {
        lemma_p2_consts();
        lemma_or_zero(a);
        assert(a * p2(0) == a) by (nonlinear_arith) requires p2(0) == 1;
    } else {
        let h = p2((k - 1) as nat);
        assert(a * p2(k) == 2 * (a * h)) by (nonlinear_arith) requires p2(k) == 2 * h;
        lemma_or_disjoint(a, (k - 1) as nat, b / 2);
        if a * p2(k) == 0 && b == 0 {
        } else {
            assert((a * p2(k)) % 2 == 0);
            assert((a * p2(k)) / 2 == a * h);
        }
    }
}
pub proof fn lemma_or_zero(a: nat)
    ensures bits_or(a, 0) == a
    decreases a
{
    if a != 0 { lemma_or_zero(a / 2); }
}

pub open spec fn binop_facts(a: Bitvector, b: Bitvector) -> bool {
    let w = a.w@;
    &&& p2(w) == 2 * p2((w - 1) as nat) && p2(w) > 0
    &&& smin(w) <= a.s() <= smax(w)
    &&& (a.s() >= 0) == (a.u@ < p2((w - 1) as nat))
    &&& (a.u@ < p2((w - 1) as nat) ==> a.s() == a.u@) && (a.u@ >= p2((w - 1) as nat) ==> a.s() == a.u@ - p2(w))
}

/// everything `bin_op` needs to know about two equally wide operands
pub proof fn lemma_binop_facts(a: Bitvector, b: Bitvector)
    requires a.wf(), b.wf(), a.w@ == b.w@
    ensures binop_facts(a, b), binop_facts(b, a),
            binop_facts(bv_add(a, b), a), binop_facts(bv_sub(a, b), a),
            bv_add(a, b).wf(), bv_sub(a, b).wf(), bv_and(a, b).wf(), bv_or(a, b).wf(), bv_xor(a, b).wf(),
            bv_add(a, b).u@ == (if a.u@ + b.u@ < p2(a.w@) { (a.u@ + b.u@) as int } else { a.u@ + b.u@ - p2(a.w@) }),
            bv_sub(a, b).u@ == (if a.u@ >= b.u@ { a.u@ - b.u@ } else { a.u@ - b.u@ + p2(a.w@) }),
{
    let w = a.w@;
    lemma_sval(w, a.u@); lemma_sval(w, b.u@);
    lemma_trunc_add_case(w, a.u@, b.u@); lemma_trunc_sub_case(w, a.u@, b.u@);
    lemma_sval(w, bv_add(a, b).u@); lemma_sval(w, bv_sub(a, b).u@);
    lemma_bits_bound(w, a.u@, b.u@);
}

pub proof fn lemma_piece(a: Bitvector, b: Bitvector)
    requires a.wf(), b.wf(), a.w@ + b.w@ <= MAXW()
    ensures a.u@ * p2(b.w@) + b.u@ < p2(a.w@ + b.w@),
            a.u@ * p2(b.w@) < p2(a.w@ + b.w@),
            trunc(a.w@ + b.w@, (a.u@ * p2(b.w@)) as int) == a.u@ * p2(b.w@),
            bits_or(a.u@ * p2(b.w@), b.u@) == a.u@ * p2(b.w@) + b.u@,
            a.u@ < p2(a.w@ + b.w@), b.u@ < p2(a.w@ + b.w@),
{
    let (wa, wb) = (a.w@, b.w@);
    lemma_p2(wa); lemma_p2(wb);
    vstd::arithmetic::power2::lemma_pow2_adds(wa, wb);
    assert(a.u@ * p2(wb) + b.u@ < p2(wa) * p2(wb)) by (nonlinear_arith)
        requires a.u@ < p2(wa), b.u@ < p2(wb);
    lemma_trunc_id(wa + wb, (a.u@ * p2(wb)) as int);
    lemma_or_disjoint(a.u@, wb, b.u@);
    lemma_p2_mono(wa, wa + wb); lemma_p2_mono(wb, wa + wb);
}

pub proof fn lemma_minus_one(w: nat)
    requires 1 <= w
    ensures trunc(w, 0 - 1) == p2(w) - 1, p2(w) >= 2,
{
    lemma_p2(w); lemma_p2((w - 1) as nat);
    lemma_trunc_unique(w, -1, -1, p2(w) - 1);
}

/// values far below 2^64 survive truncation to any width >= 64 and the u64 round trip of resize
pub proof fn lemma_small_trunc(t: nat, x: nat)
    requires x <= MAXW()
    ensures t >= 64 ==> trunc(t, x as int) == x && x < p2(t),
            x < p2(64),
{
    lemma_p2_consts();
    if t >= 64 { lemma_p2_mono(64, t); lemma_trunc_id(t, x as int); }
}

pub proof fn lemma_count_bounds(w: nat, u: nat)
    requires u < p2(w)
    ensures popcount(u) <= w, bitlen(u) <= w,
    decreases w
{
    lemma_p2(w);
    if w == 0 {
        lemma_p2_consts();
    } else if u != 0 {
        lemma_count_bounds((w - 1) as nat, u / 2);
    }
}
// ---- extracted fn ir::impl ByteSize::new ----
impl ByteSize {
    #[verifier::exec_allows_no_decreases_clause]
    pub fn new( value : u64 ) -> (r: ByteSize)
    ensures r.0 == value,
    {
        ByteSize(value)
    }
}
// ---- extracted fn ir::impl ByteSize::as_bit_length ----
impl ByteSize {
    #[verifier::exec_allows_no_decreases_clause]
    pub fn as_bit_length( self ) -> (r: usize)
    requires self.0 <= MAXBYTES(),
    ensures r == self.0 * 8,
    {
        (u64::from(self) * 8) as usize
    }
}
// ---- extracted fn ir::impl From<ByteSize> for apint::BitWidth::from ----
impl From < ByteSize > for BitWidth {
    #[verifier::exec_allows_no_decreases_clause]
    fn from( bytesize : ByteSize ) -> (r: BitWidth)
    {
        verif_assume_or_diverge(bytesize.0 <= 0x200_0000);
        BitWidth::from((u64::from(bytesize) * 8) as usize)
    }
}
impl FromSpecImpl<ByteSize> for BitWidth {
    open spec fn obeys_from_spec() -> bool { true }
    open spec fn from_spec(b: ByteSize) -> BitWidth { BitWidth { n: if b.0 <= MAXBYTES() { (b.0 * 8) as usize } else { 0 } } }
}
// ---- extracted fn ir::impl From<apint::BitWidth> for ByteSize::from ----
impl From < BitWidth > for ByteSize {
    #[verifier::exec_allows_no_decreases_clause]
    fn from( bitwidth : BitWidth ) -> (r: ByteSize)
    {
        verif_assume_or_diverge(bitwidth.n <= 0x1000_0000);
        ByteSize::new((bitwidth.to_usize() + 7) as u64 / 8)
    }
}
impl FromSpecImpl<BitWidth> for ByteSize {
    open spec fn obeys_from_spec() -> bool { true }
    open spec fn from_spec(b: BitWidth) -> ByteSize { ByteSize(((b.n + 7) / 8) as u64) }
}
// ---- extracted fn bv::impl BitvectorExtended for Bitvector::into_resize_unsigned ----
impl Bitvector {
    #[verifier::exec_allows_no_decreases_clause]
    fn into_resize_unsigned( self , size : ByteSize ) -> (r: Bitvector)
    requires self.wf(), 1 <= size.0 <= MAXBYTES(),
    ensures r.wf(),
        r == bv((size.0 * 8) as nat, if size.0 * 8 > self.w@ { self.u@ } else { self.u@ % p2((size.0 * 8) as nat) }),
    {
        if self.width() < size.into() {
            self.into_zero_extend(size).unwrap()
        } else {
            self.into_truncate(size).unwrap()
        }
    }
}
// ---- extracted fn bv::impl BitvectorExtended for Bitvector::into_resize_signed ----
impl Bitvector {
    #[verifier::exec_allows_no_decreases_clause]
    fn into_resize_signed( self , size : ByteSize ) -> (r: Bitvector)
    requires self.wf(), 1 <= size.0 <= MAXBYTES(),
    ensures r.wf(),
        r == bv((size.0 * 8) as nat, if size.0 * 8 > self.w@ { trunc((size.0 * 8) as nat, self.s()) } else { self.u@ % p2((size.0 * 8) as nat) }),
    {
        if self.width() < size.into() {
            self.into_sign_extend(size).unwrap()
        } else {
            self.into_truncate(size).unwrap()
        }
    }
}
// ---- extracted fn bv::impl BitvectorExtended for Bitvector::bytesize ----
impl Bitvector {
    #[verifier::exec_allows_no_decreases_clause]
    fn bytesize( & self ) -> (r: ByteSize)
    requires self.wf(),
    ensures r.0 == (self.w@ + 7) / 8,
    {
        self.width().into()
    }
}
// ---- extracted fn bv::impl BitvectorExtended for Bitvector::cast ----
impl Bitvector {
    #[verifier::exec_allows_no_decreases_clause]
    fn cast( & self , kind : CastOpType , width : ByteSize ) -> (r: Result < Bitvector , Error >)
    requires 1 <= width.0 <= MAXBYTES(), wellsized_cast(kind, *self, (width.0 * 8) as nat),
    ensures r is Ok ==> pcode_cast(kind, *self, (width.0 * 8) as nat) == Some(r->Ok_0) && r->Ok_0.wf(),
            r is Err <==> is_float_cast(kind),
    {
        proof {
            lemma_count_bounds(self.w@, self.u@);
            lemma_small_trunc((width.0 * 8) as nat, popcount(self.u@));
            lemma_small_trunc((width.0 * 8) as nat, (self.w@ - bitlen(self.u@)) as nat);
        }

        match kind {
            CastOpType::IntZExt => Ok(self.clone().into_zero_extend(width).unwrap()),
            CastOpType::IntSExt => Ok(self.clone().into_sign_extend(width).unwrap()),
            CastOpType::Int2Float | CastOpType::Float2Float | CastOpType::Trunc => {
                Err(verif_error())
            }
            CastOpType::PopCount => {
                Ok(Bitvector::from_u64(self.count_ones() as u64).into_resize_unsigned(width))
            }
            CastOpType::LzCount => {
                Ok(Bitvector::from_u64(self.leading_zeros() as u64).into_resize_unsigned(width))
            }
        }
    }
}
// ---- extracted fn bv::impl BitvectorExtended for Bitvector::subpiece ----
impl Bitvector {
    #[verifier::exec_allows_no_decreases_clause]
    fn subpiece( & self , low_byte : ByteSize , size : ByteSize ) -> (r: Bitvector)
    requires self.wf(), low_byte.0 * 8 < self.w@, 1 <= size.0, size.0 * 8 <= self.w@,
    ensures r == pcode_subpiece(*self, (low_byte.0 * 8) as nat, (size.0 * 8) as nat), r.wf(),
    {
        self.clone()
            .into_checked_lshr(low_byte.as_bit_length())
            .unwrap()
            .into_truncate(size.as_bit_length())
            .unwrap()
    }
}
// ---- extracted fn bv::impl BitvectorExtended for Bitvector::un_op ----
impl Bitvector {
    #[verifier::exec_allows_no_decreases_clause]
    fn un_op( & self , op : UnOpType ) -> (r: Result < Bitvector , Error >)
    requires wellsized_un(op, *self),
    ensures r is Ok ==> pcode_un(op, *self) == Some(r->Ok_0) && r->Ok_0.wf(),
            r is Err <==> is_float_unop(op),
    {
        proof { lemma_p2_consts(); lemma_trunc_range(self.w@, -(self.u@ as int)); }

        use UnOpType::*;
        match op {
            Int2Comp => Ok(-self.clone()),
            IntNegate => Ok(self.clone().into_bitnot()),
            BoolNegate => {
                if self.is_zero() {
                    Ok(Bitvector::from_u8(1))
                } else {
                    verif_assume_or_diverge((self) == (&Bitvector::from_u8(1))); // Any other value would indicate a bug.
                    Ok(Bitvector::from_u8(0))
                }
            }
            FloatNegate | FloatAbs | FloatSqrt | FloatCeil | FloatFloor | FloatRound | FloatNaN => {
                Err(verif_error())
            }
        }
    }
}
// ---- extracted fn bv::impl BitvectorExtended for Bitvector::bin_op ----
impl Bitvector {
    #[verifier::exec_allows_no_decreases_clause]
    fn bin_op( & self , op : BinOpType , rhs : & Bitvector ) -> (r: Result < Bitvector , Error >)
    requires wellsized_bin(op, *self, *rhs),
    ensures r is Ok ==> pcode_bin(op, *self, *rhs) == Some(r->Ok_0) && r->Ok_0.wf(),
            r is Err <==> unsupported_bin(op, *self, *rhs),
    {
        proof {
            lemma_p2_consts();
            if op is Piece { lemma_piece(*self, *rhs); }
            else if is_shift_binop(op) { lemma_sval(self.w@, self.u@); lemma_minus_one(self.w@); }
            else { lemma_binop_facts(*self, *rhs); }
        }

        use BinOpType::*;
        match op {
            Piece => {
                let new_bitwidth = self.width().to_usize() + rhs.width().to_usize();
                let upper_bits = self
                    .clone()
                    .into_zero_extend(new_bitwidth)
                    .unwrap()
                    .into_checked_shl(rhs.width().to_usize())
                    .unwrap();
                let lower_bits = rhs.clone().into_zero_extend(new_bitwidth).unwrap();
                Ok(upper_bits | *&lower_bits)
            }
            IntAdd => Ok(self + rhs),
            IntSub => Ok(self - rhs),
            IntCarry => {
                let result = self + rhs;
                if result.checked_ult(self).unwrap() || result.checked_ult(rhs).unwrap() {
                    Ok(Bitvector::from_u8(1))
                } else {
                    Ok(Bitvector::from_u8(0))
                }
            }
            IntSCarry => {
                let result = Int::from(self + rhs);
                let signed_self = Int::from(self.clone());
                let signed_rhs = Int::from(rhs.clone());
                if (result.is_negative() && signed_self.is_positive() && signed_rhs.is_positive())
                    || (!result.is_negative()
                        && signed_self.is_negative()
                        && signed_rhs.is_negative())
                {
                    Ok(Bitvector::from_u8(1))
                } else {
                    Ok(Bitvector::from_u8(0))
                }
            }
            IntSBorrow => {
                let result = Int::from(self - rhs);
                let signed_self = Int::from(self.clone());
                let signed_rhs = Int::from(rhs.clone());
                if (result.is_negative() && signed_self.is_positive() && signed_rhs.is_negative())
                    || (result.is_positive()
                        && signed_self.is_negative()
                        && signed_rhs.is_positive())
                {
                    Ok(Bitvector::from_u8(1))
                } else {
                    Ok(Bitvector::from_u8(0))
                }
            }
            IntMult => {
                // FIXME: Multiplication for bitvectors larger than 8 bytes is not yet implemented in the `apint` crate (version 0.2).
                if self.width().to_usize() > 64 {
                    Err(verif_error())
                } else {
                    Ok(self * rhs)
                }
            }
            IntDiv => {
                // FIXME: Division for bitvectors larger than 8 bytes is not yet implemented in the `apint` crate (version 0.2).
                if self.width().to_usize() > 64 {
                    Err(verif_error())
                } else {
                    Ok(self.clone().into_checked_udiv(rhs)?)
                }
            }
            IntSDiv => {
                // FIXME: Division for bitvectors larger than 8 bytes is not yet implemented in the `apint` crate (version 0.2).
                if self.width().to_usize() > 64 {
                    Err(verif_error())
                } else {
                    Ok(self.clone().into_checked_sdiv(rhs)?)
                }
            }
            IntRem => {
                // FIXME: Division for bitvectors larger than 8 bytes is not yet implemented in the `apint` crate (version 0.2).
                if self.width().to_usize() > 64 {
                    Err(verif_error())
                } else {
                    Ok(self.clone().into_checked_urem(rhs)?)
                }
            }
            IntSRem => {
                // FIXME: Division for bitvectors larger than 8 bytes is not yet implemented in the `apint` crate (version 0.2).
                if self.width().to_usize() > 64 {
                    Err(verif_error())
                } else {
                    Ok(self.clone().into_checked_srem(rhs)?)
                }
            }
            IntLeft => {
                let shift_amount = rhs.try_to_u64().unwrap() as usize;
                if shift_amount < self.width().to_usize() {
                    Ok(self.clone().into_checked_shl(shift_amount).unwrap())
                } else {
                    Ok(Bitvector::zero(self.width()))
                }
            }
            IntRight => {
                let shift_amount = rhs.try_to_u64().unwrap() as usize;
                if shift_amount < self.width().to_usize() {
                    Ok(self.clone().into_checked_lshr(shift_amount).unwrap())
                } else {
                    Ok(Bitvector::zero(self.width()))
                }
            }
            IntSRight => {
                let shift_amount = rhs.try_to_u64().unwrap() as usize;
                if shift_amount < self.width().to_usize() {
                    Ok(self.clone().into_checked_ashr(shift_amount).unwrap())
                } else {
                    let signed_bitvec = Int::from(self.clone());
                    if signed_bitvec.is_negative() {
                        let minus_one =
                            Bitvector::zero(self.width()) - *&Bitvector::one(self.width());
                        Ok(minus_one)
                    } else {
                        Ok(Bitvector::zero(self.width()))
                    }
                }
            }
            IntAnd | BoolAnd => Ok(self & rhs),
            IntOr | BoolOr => Ok(self | rhs),
            IntXOr | BoolXOr => Ok(self ^ rhs),
            IntEqual => {
                verif_assume_or_diverge((self.width()) == (rhs.width()));
                Ok(Bitvector::from((self == rhs) as u8))
            }
            IntNotEqual => {
                verif_assume_or_diverge((self.width()) == (rhs.width()));
                Ok(Bitvector::from((self != rhs) as u8))
            }
            IntLess => Ok(Bitvector::from(self.checked_ult(rhs).unwrap() as u8)),
            IntLessEqual => Ok(Bitvector::from(self.checked_ule(rhs).unwrap() as u8)),
            IntSLess => Ok(Bitvector::from(self.checked_slt(rhs).unwrap() as u8)),
            IntSLessEqual => Ok(Bitvector::from(self.checked_sle(rhs).unwrap() as u8)),
            FloatEqual | FloatNotEqual | FloatLess | FloatLessEqual => {
                // TODO: Implement floating point comparison operators!
                Err(verif_error())
            }
            FloatAdd | FloatSub | FloatMult | FloatDiv => {
                // TODO: Implement floating point arithmetic operators!
                Err(verif_error())
            }
        }
    }
}
// ---- extracted fn bv::impl BitvectorExtended for Bitvector::signed_add_overflow_checked ----
impl Bitvector {
    #[verifier::exec_allows_no_decreases_clause]
    fn signed_add_overflow_checked( & self , rhs : & Bitvector ) -> (r: Option < Bitvector >)
    requires self.wf(), rhs.wf(), self.w@ == rhs.w@,
    ensures r is Some ==> r->Some_0 == bv_add(*self, *rhs) && r->Some_0.wf() && r->Some_0.s() == self.s() + rhs.s(),
            r is None ==> (self.s() + rhs.s() > smax(self.w@) || self.s() + rhs.s() < smin(self.w@)),
    {
        proof {
            lemma_sval(self.w@, self.u@); lemma_sval(rhs.w@, rhs.u@);
            lemma_trunc_add_case(self.w@, self.u@, rhs.u@);
            lemma_sval(self.w@, bv_add(*self, *rhs).u@);
        }

        let result = self.clone().into_checked_add(rhs).unwrap();
        match (rhs.sign_bit().to_bool(), self.checked_sle(&result).unwrap()) {
            (true, true) | (false, false) => None,
            _ => Some(result),
        }
    }
}
// ---- extracted fn bv::impl BitvectorExtended for Bitvector::signed_sub_overflow_checked ----
impl Bitvector {
    #[verifier::exec_allows_no_decreases_clause]
    fn signed_sub_overflow_checked( & self , rhs : & Bitvector ) -> (r: Option < Bitvector >)
    requires self.wf(), rhs.wf(), self.w@ == rhs.w@,
    ensures r is Some ==> r->Some_0 == bv_sub(*self, *rhs) && r->Some_0.wf() && r->Some_0.s() == self.s() - rhs.s(),
            r is None ==> (self.s() - rhs.s() > smax(self.w@) || self.s() - rhs.s() < smin(self.w@)),
    {
        proof {
            lemma_sval(self.w@, self.u@); lemma_sval(rhs.w@, rhs.u@);
            lemma_trunc_sub_case(self.w@, self.u@, rhs.u@);
            lemma_sval(self.w@, bv_sub(*self, *rhs).u@);
        }

        let result = self.clone().into_checked_sub(rhs).unwrap();
        match (rhs.sign_bit().to_bool(), self.checked_sge(&result).unwrap()) {
            (true, true) | (false, false) => None,
            _ => Some(result),
        }
    }
}
// ---- extracted fn bv::impl BitvectorExtended for Bitvector::signed_mult_with_overflow_flag ----
impl Bitvector {
    #[verifier::exec_allows_no_decreases_clause]
    fn signed_mult_with_overflow_flag( & self , rhs : & Bitvector ) -> (r: Result < ( Bitvector , bool ) , Error >)
    requires self.wf(), rhs.wf(), self.w@ == rhs.w@, self.w@ >= 2,
    ensures r is Err <==> (self.u@ != 0 && self.w@ > 64),
            r is Ok ==> ({
                let (v, flag) = r->Ok_0;
                &&& v.wf() && v == bv_mul(*self, *rhs)
                &&& flag <==> (self.s() * rhs.s() > smax(self.w@) || self.s() * rhs.s() < smin(self.w@))
                &&& !flag ==> v.s() == self.s() * rhs.s()
            }),
    {
        proof { lemma_mul_flag_facts(*self, *rhs); }

        if self.is_zero() {
            Ok((Bitvector::zero(self.width()), false))
        } else if self.width().to_usize() > 64 {
            // FIXME: Multiplication for bitvectors larger than 8 bytes is not yet implemented in the `apint` crate (version 0.2).
            Err(verif_error())
        } else {
            let result = self.clone().into_checked_mul(rhs).unwrap();
            if result.clone().into_checked_sdiv(self).unwrap() != *rhs
                || (!rhs.is_zero() && result.clone().into_checked_sdiv(rhs).unwrap() != *self)
            {
                Ok((result, true))
            } else {
                Ok((result, false))
            }
        }
    }
}
// ---- extracted type va::Variable ----
pub struct Variable {
    
    pub name: String,
    
    pub size: ByteSize,
    
    pub is_temp: bool,
}
// ---- extracted type ex::Expression ----
pub enum Expression {
    
    Var(Variable),
    
    Const(Bitvector),
    
    
    
    BinOp {
        
        op: BinOpType,
        
        lhs: Box<Expression>,
        
        rhs: Box<Expression>,
    },
    
    UnOp {
        
        op: UnOpType,
        
        arg: Box<Expression>,
    },
    
    Cast {
        
        op: CastOpType,
        
        size: ByteSize,
        
        arg: Box<Expression>,
    },
    
    
    
    Unknown {
        
        description: String,
        
        size: ByteSize,
    },
    
    Subpiece {
        
        low_byte: ByteSize,
        
        size: ByteSize,
        
        arg: Box<Expression>,
    },
}
pub open spec fn expr_ok(e: Expression) -> bool
    decreases e
{
    match e {
        Expression::Var(v) => true,
        Expression::Const(b) => b.wf(),
        Expression::BinOp { op, lhs, rhs } => expr_ok(*lhs) && expr_ok(*rhs),
        Expression::UnOp { op, arg } => expr_ok(*arg),
        Expression::Cast { op, size, arg } => expr_ok(*arg),
        Expression::Unknown { description, size } => true,
        Expression::Subpiece { low_byte, size, arg } => expr_ok(*arg),
    }
}
/// result size in bytes of an expression, folded over its structure (P-Code sizing rules)
pub open spec fn expr_bytes(e: Expression) -> nat
    decreases e
{
    match e {
        Expression::Var(v) => v.size.0 as nat,
        Expression::Const(b) => (b.w@ + 7) / 8,
        Expression::BinOp { op, lhs, rhs } =>
            if op is Piece { expr_bytes(*lhs) + expr_bytes(*rhs) }
            else if is_bool_result_binop(op) { 1 }
            else { expr_bytes(*lhs) },
        Expression::UnOp { op, arg } => if op is FloatNaN { 1 } else { expr_bytes(*arg) },
        Expression::Cast { op, size, arg } => size.0 as nat,
        Expression::Unknown { description, size } => size.0 as nat,
        Expression::Subpiece { low_byte, size, arg } => size.0 as nat,
    }
}
// ---- extracted fn ex::impl Expression::bytesize ----
impl Expression {
    pub fn bytesize( & self ) -> (r: ByteSize)
    requires expr_ok(*self), expr_bytes(*self) <= u64::MAX,
    ensures r.0 as nat == expr_bytes(*self),
    decreases *self,
    {
        use BinOpType::*;
        use Expression::*;
        match self {
            Var(var) => var.size,
            Const(bitvec) => bitvec.width().into(),
            BinOp { op, lhs, rhs } => match op {
                Piece => lhs.bytesize() + rhs.bytesize(),
                IntEqual | IntNotEqual | IntLess | IntSLess | IntLessEqual | IntSLessEqual
                | IntCarry | IntSCarry | IntSBorrow | BoolXOr | BoolOr | BoolAnd | FloatEqual
                | FloatNotEqual | FloatLess | FloatLessEqual => ByteSize::new(1),
                IntAdd | IntSub | IntAnd | IntOr | IntXOr | IntLeft | IntRight | IntSRight
                | IntMult | IntDiv | IntRem | IntSDiv | IntSRem | FloatAdd | FloatSub
                | FloatMult | FloatDiv => lhs.bytesize(),
            },
            UnOp { op, arg } => match op {
                UnOpType::FloatNaN => ByteSize::new(1),
                _ => arg.bytesize(),
            },
            Cast { size, .. } | Unknown { size, .. } | Subpiece { size, .. } => *size,
        }
    }
}
// ---- extracted type bd::BitvectorDomain ----
pub enum BitvectorDomain {
    
    Top(ByteSize),
    
    Value(Bitvector),
}
// derive(PartialEq, Eq, Clone) of the real type, restated (R1): structural equality / copy.
impl PartialEq for BitvectorDomain {
    #[verifier::external_body]
    fn eq(&self, other: &BitvectorDomain) -> (r: bool) { unimplemented!() }
}
impl PartialEqSpecImpl for BitvectorDomain {
    open spec fn obeys_eq_spec() -> bool { true }
    open spec fn eq_spec(&self, other: &BitvectorDomain) -> bool { *self == *other }
}
impl Eq for BitvectorDomain {}
impl Clone for BitvectorDomain {
    #[verifier::external_body]
    fn clone(&self) -> (r: BitvectorDomain) ensures r == *self { unimplemented!() }
}
impl BitvectorDomain {
    pub open spec fn wf(&self) -> bool {
        match *self {
            BitvectorDomain::Top(s) => 1 <= s.0 <= MAXBYTES(),
            BitvectorDomain::Value(b) => b.wf(),
        }
    }
    pub open spec fn bytes(&self) -> nat {
        match *self {
            BitvectorDomain::Top(s) => s.0 as nat,
            BitvectorDomain::Value(b) => (b.w@ + 7) / 8,
        }
    }
}
// ---- extracted fn bd::impl SizedDomain for BitvectorDomain::bytesize ----
impl BitvectorDomain {
    #[verifier::exec_allows_no_decreases_clause]
    fn bytesize( & self ) -> (r: ByteSize)
    requires self.wf(),
    ensures r.0 as nat == self.bytes(),
    {
        use BitvectorDomain::*;
        match self {
            Top(bytesize) => *bytesize,
            Value(bitvec) => bitvec.width().into(),
        }
    }
}
// ---- extracted fn bd::impl SizedDomain for BitvectorDomain::new_top ----
impl BitvectorDomain {
    #[verifier::exec_allows_no_decreases_clause]
    fn new_top( bytesize : ByteSize ) -> (r: BitvectorDomain)
    ensures r == BitvectorDomain::Top(bytesize),
    {
        BitvectorDomain::Top(bytesize)
    }
}
// ---- extracted fn bd::impl HasTop for BitvectorDomain::top ----
impl BitvectorDomain {
    #[verifier::exec_allows_no_decreases_clause]
    fn top( & self ) -> (r: BitvectorDomain)
    requires self.wf(),
    ensures r is Top, r->Top_0.0 as nat == self.bytes(),
    {
        BitvectorDomain::Top(self.bytesize())
    }
}
// ---- extracted fn bd::impl AbstractDomain for BitvectorDomain::is_top ----
impl BitvectorDomain {
    #[verifier::exec_allows_no_decreases_clause]
    fn is_top( & self ) -> (r: bool)
    ensures r == (*self is Top),
    {
        matches!(self, Self::Top(_))
    }
}
// ---- extracted fn bd::impl AbstractDomain for BitvectorDomain::merge ----
impl BitvectorDomain {
    #[verifier::exec_allows_no_decreases_clause]
    fn merge( & self , other : & BitvectorDomain ) -> (r: BitvectorDomain)
    requires self.wf(), other.wf(),
    ensures *self == *other ==> r == *self,
            *self != *other ==> r is Top && r->Top_0.0 as nat == self.bytes(),
    {
        if self == other {
            self.clone()
        } else {
            self.top()
        }
    }
}
// ---- extracted fn ad::trait AbstractDomain::merge_with ----
impl BitvectorDomain {
    #[verifier::exec_allows_no_decreases_clause]
    fn merge_with( & mut self , other : & BitvectorDomain ) -> (r: & mut BitvectorDomain)
    requires old(self).wf(), other.wf(),
    ensures *final(r) == *final(self),      // `r` is the reference to `self` handed back
            *old(self) == *other ==> *r == *old(self),
            *old(self) != *other ==> *r is Top && (*r)->Top_0.0 as nat == old(self).bytes(),
    {
            if *self != *other {
            let new_value = self.merge(other);

            *self = new_value;
        }

        self
    }
}
// ---- extracted fn ad::trait RegisterDomain::bin_op_bytesize ----
impl BitvectorDomain {
    #[verifier::exec_allows_no_decreases_clause]
    fn bin_op_bytesize( & self , op : BinOpType , rhs : & BitvectorDomain ) -> (r: ByteSize)
    requires self.wf(), rhs.wf(), self.bytes() + rhs.bytes() <= MAXBYTES(),
    ensures r.0 as nat == (if op is Piece { self.bytes() + rhs.bytes() } else if is_bool_result_binop(op) { 1 } else { self.bytes() }),
    {
        use BinOpType::*;
        match op {
            Piece => self.bytesize() + rhs.bytesize(),
            IntAdd | IntSub | IntMult | IntDiv | IntSDiv | IntRem | IntSRem | IntLeft
            | IntRight | IntSRight | IntAnd | IntOr | IntXOr | FloatAdd | FloatSub | FloatMult
            | FloatDiv => self.bytesize(),
            IntEqual | IntNotEqual | IntLess | IntLessEqual | IntSLess | IntSLessEqual
            | IntCarry | IntSCarry | IntSBorrow | BoolAnd | BoolOr | BoolXOr | FloatEqual
            | FloatNotEqual | FloatLess | FloatLessEqual => ByteSize::new(1),
        }
    }
}
// ---- extracted fn bd::impl RegisterDomain for BitvectorDomain::bin_op ----
impl BitvectorDomain {
    #[verifier::exec_allows_no_decreases_clause]
    fn bin_op( & self , op : BinOpType , rhs : & BitvectorDomain ) -> (r: BitvectorDomain)
    requires self.wf(), rhs.wf(), self.bytes() + rhs.bytes() <= MAXBYTES(),
        (*self is Value && *rhs is Value) ==> wellsized_bin(op, self->Value_0, rhs->Value_0),
    ensures
        // both operands known: a value exactly when the concrete evaluation has one -- and then that value
        (*self is Value && *rhs is Value && !unsupported_bin(op, self->Value_0, rhs->Value_0))
            ==> r is Value && Some(r->Value_0) == pcode_bin(op, self->Value_0, rhs->Value_0),
        (*self is Value && *rhs is Value && unsupported_bin(op, self->Value_0, rhs->Value_0)) ==> r is Top,
        (*self is Top || *rhs is Top) ==> r is Top,
        r is Top ==> r->Top_0.0 as nat == (if op is Piece { self.bytes() + rhs.bytes() } else if is_bool_result_binop(op) { 1 } else { self.bytes() }),
    {
        use BinOpType::*;
        match op {
            Piece | IntLeft | IntRight | IntSRight => (),
            _ => verif_assume_or_diverge((self.bytesize()) == (rhs.bytesize())),
        }
        match (self, rhs) {
            (BitvectorDomain::Value(lhs_bitvec), BitvectorDomain::Value(rhs_bitvec)) => {
                match lhs_bitvec.bin_op(op, rhs_bitvec) {
                    Ok(val) => BitvectorDomain::Value(val),
                    Err(_) => BitvectorDomain::new_top(self.bin_op_bytesize(op, rhs)),
                }
            }
            _ => BitvectorDomain::new_top(self.bin_op_bytesize(op, rhs)),
        }
    }
}
// ---- extracted fn bd::impl RegisterDomain for BitvectorDomain::un_op ----
impl BitvectorDomain {
    #[verifier::exec_allows_no_decreases_clause]
    fn un_op( & self , op : UnOpType ) -> (r: BitvectorDomain)
    requires self.wf(), *self is Value ==> wellsized_un(op, self->Value_0),
    ensures
        (*self is Value && !is_float_unop(op)) ==> r is Value && Some(r->Value_0) == pcode_un(op, self->Value_0),
        (*self is Top || is_float_unop(op)) ==> r is Top && r->Top_0.0 as nat == (if op is BoolNegate || op is FloatNaN { 1 } else { self.bytes() }),
    {
        use UnOpType::*;
        if let BitvectorDomain::Value(bitvec) = self {
            match bitvec.un_op(op) {
                Ok(val) => BitvectorDomain::Value(val),
                Err(_) => match op {
                    BoolNegate | FloatNaN => BitvectorDomain::new_top(ByteSize::new(1)),
                    _ => BitvectorDomain::new_top(self.bytesize()),
                },
            }
        } else {
            match op {
                BoolNegate | FloatNaN => BitvectorDomain::new_top(ByteSize::new(1)),
                _ => BitvectorDomain::new_top(self.bytesize()),
            }
        }
    }
}
// ---- extracted fn bd::impl RegisterDomain for BitvectorDomain::subpiece ----
impl BitvectorDomain {
    #[verifier::exec_allows_no_decreases_clause]
    fn subpiece( & self , low_byte : ByteSize , size : ByteSize ) -> (r: BitvectorDomain)
    requires self.wf(), *self is Value ==> (low_byte.0 * 8 < self->Value_0.w@ && 1 <= size.0 && size.0 * 8 <= self->Value_0.w@),
    ensures
        *self is Value ==> r is Value && r->Value_0 == pcode_subpiece(self->Value_0, (low_byte.0 * 8) as nat, (size.0 * 8) as nat),
        *self is Top ==> r == BitvectorDomain::Top(size),
    {
        if let BitvectorDomain::Value(bitvec) = self {
            BitvectorDomain::Value(bitvec.subpiece(low_byte, size))
        } else {
            BitvectorDomain::new_top(size)
        }
    }
}
// ---- extracted fn bd::impl RegisterDomain for BitvectorDomain::cast ----
impl BitvectorDomain {
    #[verifier::exec_allows_no_decreases_clause]
    fn cast( & self , kind : CastOpType , width : ByteSize ) -> (r: BitvectorDomain)
    requires self.wf(), 1 <= width.0 <= MAXBYTES(), *self is Value ==> wellsized_cast(kind, self->Value_0, (width.0 * 8) as nat),
    ensures
        (*self is Value && !is_float_cast(kind)) ==> r is Value && Some(r->Value_0) == pcode_cast(kind, self->Value_0, (width.0 * 8) as nat),
        (*self is Top || is_float_cast(kind)) ==> r == BitvectorDomain::Top(width),
    {
        if let BitvectorDomain::Value(bitvec) = self {
            match bitvec.cast(kind, width) {
                Ok(val) => BitvectorDomain::Value(val),
                Err(_) => BitvectorDomain::new_top(width),
            }
        } else {
            BitvectorDomain::new_top(width)
        }
    }
}
// ======== include lemmas/bitvector_sat.rs ========
// ---------------------------------------------------------------------------
// lemmas/bitvector_sat.rs -- SATISFIABILITY WITNESSES of the preconditions of unit `bitvector`
// (nothing here is trusted: no external_body / assume / admit / axiom).  Kept tiny: every other unit compiles this file.
//   (b)  lemma_sat_bitvector_wellsized: EVERY BinOpType / UnOpType / CastOpType value has well-sized operands
//        (`forall |op| exists |a, b| wellsized_bin(op, a, b)`, likewise un / cast with the size clause of `cast`);
//        uniform witnesses: 8 bit values 5, 3 / 1 and target size 2 bytes.
//   (b)  lemma_sat_bitvector_assume_entry: the two logged ASSUMPTIONS of the BitWidth <-> ByteSize conversions
//        (`@assume_entry`) are satisfiable, and are IMPLIED by the size bounds the contracts use (MAXBYTES, MAXW):
//        they never cut off an input that a contract of this unit admits.
//   (b)  lemma_sat_bitvector_shim_ctors: the unguarded TRUSTED apint contracts (constructors: `r == bv(..), r.wf()` for ALL
//        arguments) state a well-formed value, i.e. their two ensures conjuncts cannot clash.
//   (a') verif_sat_bitvector_chain: exec client WITHOUT requires; builds 8, 64 and 128 bit values (Bitvector::from_u8 /
//        from_u64 / from_u128, struct literals) and calls every contracted function of the unit, the operation
//        parameters `bop / uop / kind` left ARBITRARY: Verus checks the REAL requires at each call for every operation.
//        (`BitvectorDomain::merge_with` @optional override is absent from /repo; the trait default that is verified
//        in its place has the same requires and is called.)
//   nothing conditional, no (d) hypothesis in this unit.
// ---------------------------------------------------------------------------

pub open spec fn bvsat_bin_has_operands(op: BinOpType) -> bool { exists |a: Bitvector, b: Bitvector| wellsized_bin(op, a, b) }
pub open spec fn bvsat_un_has_operand(op: UnOpType) -> bool { exists |a: Bitvector| wellsized_un(op, a) }
/// the requires of Bitvector::cast, verbatim (`*self` -> `a`)
pub open spec fn bvsat_cast_pre(kind: CastOpType, a: Bitvector, width: ByteSize) -> bool {
    1 <= width.0 <= MAXBYTES() && wellsized_cast(kind, a, (width.0 * 8) as nat)
}
pub open spec fn bvsat_cast_has_operand(kind: CastOpType) -> bool { exists |a: Bitvector, width: ByteSize| bvsat_cast_pre(kind, a, width) }

/// (b) requires of Bitvector::bin_op / un_op / cast (and of the guarded clauses of BitvectorDomain::bin_op / un_op / cast)
pub proof fn lemma_sat_bitvector_wellsized()
    ensures
        forall |op: BinOpType| #[trigger] bvsat_bin_has_operands(op),
        forall |op: UnOpType| #[trigger] bvsat_un_has_operand(op),
        forall |kind: CastOpType| #[trigger] bvsat_cast_has_operand(kind),
{
    lemma_p2_consts();
    assert forall |op: BinOpType| #[trigger] bvsat_bin_has_operands(op) by { assert(wellsized_bin(op, bv(8, 5), bv(8, 3))); }
    assert forall |op: UnOpType| #[trigger] bvsat_un_has_operand(op) by { assert(wellsized_un(op, bv(8, 1))); }
    assert forall |kind: CastOpType| #[trigger] bvsat_cast_has_operand(kind) by {
        assert(bvsat_cast_pre(kind, bv(8, 5), ByteSize(2)));
    }
}

/// (b) `@assume_entry bytesize.0 <= 0x200_0000` (From<ByteSize> for BitWidth), `@assume_entry bitwidth.n <= 0x1000_0000`
/// (From<BitWidth> for ByteSize)
pub proof fn lemma_sat_bitvector_assume_entry()
    ensures
        exists |bytesize: ByteSize| 1 <= #[trigger] bytesize.0 && bytesize.0 <= 0x200_0000,
        exists |bitwidth: BitWidth| 1 <= #[trigger] bitwidth.n && bitwidth.n <= 0x1000_0000,
        forall |bytesize: ByteSize| #[trigger] bytesize.0 <= MAXBYTES() ==> bytesize.0 <= 0x200_0000,
        forall |bitwidth: BitWidth| #[trigger] bitwidth.n <= MAXW() ==> bitwidth.n <= 0x1000_0000,
{
    assert(ByteSize(8).0 == 8);
    assert((BitWidth { n: 64 }).n == 64);
}

/// (b) the only TRUSTED contracts of shim/apint.rs that hold for ALL arguments (no `requires`): the constructors
/// `from_u8 .. from_i128` / `From<u8>` / `From<u64>` (`ensures r == bv(W, ..), r.wf()`) and, under their range requires
/// on the width, `zero / one / unsigned_max_value / signed_min_value / signed_max_value`: the two ensures conjuncts
/// agree (the stated value IS well-formed), for every argument
pub proof fn lemma_sat_bitvector_shim_ctors()
    ensures
        forall |v: u8| #[trigger] bv(8, v as nat).wf(),
        forall |v: u16| #[trigger] bv(16, v as nat).wf(),
        forall |v: u32| #[trigger] bv(32, v as nat).wf(),
        forall |v: u64| #[trigger] bv(64, v as nat).wf(),
        forall |v: u128| #[trigger] bv(128, v as nat).wf(),
        forall |w: nat, x: int| 1 <= w <= MAXW() ==> #[trigger] bv(w, trunc(w, x)).wf(),
        forall |n: nat| 1 <= n <= MAXW() ==> #[trigger] bv(n, 0).wf() && bv(n, 1).wf() && bv(n, (p2(n) - 1) as nat).wf()
            && bv(n, p2((n - 1) as nat)).wf() && bv(n, (p2((n - 1) as nat) - 1) as nat).wf(),
{
    lemma_p2_consts();
    assert forall |w: nat, x: int| 1 <= w <= MAXW() implies #[trigger] bv(w, trunc(w, x)).wf() by { lemma_trunc_range(w, x); }
    assert forall |n: nat| 1 <= n <= MAXW() implies #[trigger] bv(n, 0).wf() && bv(n, 1).wf() && bv(n, (p2(n) - 1) as nat).wf()
            && bv(n, p2((n - 1) as nat)).wf() && bv(n, (p2((n - 1) as nat) - 1) as nat).wf() by {
        lemma_p2(n); lemma_p2((n - 1) as nat);
    }
}

/// (a') every contracted function of the unit is called once or twice; no precondition
pub fn verif_sat_bitvector_chain(bop: BinOpType, uop: UnOpType, kind: CastOpType)
{
    proof { lemma_p2_consts(); }
    let a = Bitvector::from_u8(5);
    let b = Bitvector::from_u8(3);
    let one = Bitvector::from_u8(1);
    let q = Bitvector::from_u64(0xffff_ffff_ffff_fff0);
    let h = Bitvector::from_u128(7);
    // ByteSize::as_bit_length: self.0 <= MAXBYTES;  the two conversions: their assumption holds for the arguments
    let two = ByteSize::new(2);
    let _ = two.as_bit_length();
    let bw = BitWidth::from(two);
    let _ = ByteSize::from(bw);
    // resize / bytesize / subpiece: wf, 1 <= size <= MAXBYTES, low_byte * 8 < w, 1 <= size, size * 8 <= w
    let _ = a.into_resize_unsigned(two);
    let _ = q.into_resize_signed(ByteSize(1));
    let _ = q.bytesize();
    let _ = q.subpiece(ByteSize(1), ByteSize(2));
    // cast / un_op / bin_op for EVERY operation: wellsized_cast / wellsized_un / wellsized_bin
    let _ = a.cast(kind, two);
    let _ = one.un_op(uop);
    let _ = a.bin_op(bop, &b);
    let _ = q.bin_op(bop, &q);
    // overflow helpers: equal widths (8, 64 bit; above 64 bit for the Err case of the multiplication)
    let _ = a.signed_add_overflow_checked(&b);
    let _ = q.signed_sub_overflow_checked(&q);
    let _ = a.signed_mult_with_overflow_flag(&b);
    let _ = h.signed_mult_with_overflow_flag(&h);
    // Expression::bytesize: expr_ok, expr_bytes <= u64::MAX
    let e = Expression::BinOp { op: bop, lhs: Box::new(Expression::Const(a)), rhs: Box::new(Expression::Const(q)) };
    proof { reveal_with_fuel(expr_ok, 3); reveal_with_fuel(expr_bytes, 3); }
    let _ = e.bytesize();
    // BitvectorDomain: wf, bytes sum <= MAXBYTES, the GUARDED clauses active (both Value) and inactive (Top)
    let va = BitvectorDomain::Value(a);
    let vb = BitvectorDomain::Value(b);
    let v1 = BitvectorDomain::Value(one);
    let vq = BitvectorDomain::Value(q);
    let top = BitvectorDomain::new_top(ByteSize(1));
    let _ = va.bytesize();
    let _ = top.bytesize();
    let _ = va.top();
    let _ = va.is_top();
    let _ = va.merge(&vb);
    let _ = va.merge(&top);
    let mut m = BitvectorDomain::Value(a);
    let _ = m.merge_with(&vb);
    let _ = va.bin_op_bytesize(bop, &vb);
    let _ = va.bin_op(bop, &vb);
    let _ = top.bin_op(bop, &vb);
    let _ = v1.un_op(uop);
    let _ = top.un_op(uop);
    let _ = vq.subpiece(ByteSize(1), ByteSize(2));
    let _ = top.subpiece(ByteSize(1), ByteSize(2));
    let _ = va.cast(kind, two);
    let _ = top.cast(kind, two);
}

} // verus!
fn main() {}
