#![allow(unused_imports, unused_variables, unused_mut, dead_code, non_snake_case, unused_parens, unused_assignments, unreachable_code, unused_braces)]
use vstd::prelude::*;
use vstd::std_specs::ops::*;
use vstd::std_specs::cmp::*;
use vstd::std_specs::convert::*;
verus! {
// ======== include shim/prelude.rs ========
// ---------------------------------------------------------------------------
// shim/prelude.rs  -- TRUSTED.  Error type, divergence helpers, min/max.
// Every `external_body` here is an assumption and is counted in the evidence.
// ---------------------------------------------------------------------------

/// `anyhow::Error` and `apint::Error` collapsed to one opaque value (rule R4):
/// the payload is dropped, Ok/Err is kept.
#[derive(Debug)]
pub struct Error { pub tag: u8 }

#[verifier::external_body]
pub fn verif_error() -> (r: Error)
{ unimplemented!() }

/// Rule R5: a failing `assert!` / `assert_eq!` diverges; after it the condition holds.
#[verifier::external_body]
pub fn verif_assume_or_diverge(c: bool)
    ensures c
{ unimplemented!() }

/// Rule R5: `panic!()`, `unreachable!()`, `unimplemented!()`.
#[verifier::external_body]
pub fn verif_diverge<T>() -> (r: T)
    ensures false
{ unimplemented!() }

// Rule R6: std::cmp::{min,max} on the primitive types the units use.
pub trait VerifMinMax: Sized {
    spec fn vmm_le(self, other: Self) -> bool;
    fn verif_max_impl(self, other: Self) -> (r: Self)
        ensures r == (if self.vmm_le(other) { other } else { self });
    fn verif_min_impl(self, other: Self) -> (r: Self)
        ensures r == (if self.vmm_le(other) { self } else { other });
}
impl VerifMinMax for u64 {
    open spec fn vmm_le(self, other: u64) -> bool { self <= other }
    fn verif_max_impl(self, other: u64) -> (r: u64) { if self <= other { other } else { self } }
    fn verif_min_impl(self, other: u64) -> (r: u64) { if self <= other { self } else { other } }
}
impl VerifMinMax for i64 {
    open spec fn vmm_le(self, other: i64) -> bool { self <= other }
    fn verif_max_impl(self, other: i64) -> (r: i64) { if self <= other { other } else { self } }
    fn verif_min_impl(self, other: i64) -> (r: i64) { if self <= other { self } else { other } }
}
impl VerifMinMax for usize {
    open spec fn vmm_le(self, other: usize) -> bool { self <= other }
    fn verif_max_impl(self, other: usize) -> (r: usize) { if self <= other { other } else { self } }
    fn verif_min_impl(self, other: usize) -> (r: usize) { if self <= other { self } else { other } }
}
pub fn verif_max<T: VerifMinMax>(a: T, b: T) -> (r: T)
    ensures r == (if a.vmm_le(b) { b } else { a })
{ a.verif_max_impl(b) }
pub fn verif_min<T: VerifMinMax>(a: T, b: T) -> (r: T)
    ensures r == (if a.vmm_le(b) { a } else { b })
{ a.verif_min_impl(b) }
// ======== include spec/bvmath.rs ========
// ---------------------------------------------------------------------------
// spec/bvmath.rs -- mathematical vocabulary for fixed-width bitvectors.
// Pure definitions (no axioms).  A bitvector value is a pair (w, u) with
// 1 <= w and 0 <= u < 2^w.
// ---------------------------------------------------------------------------

pub open spec fn p2(n: nat) -> nat { vstd::arithmetic::power2::pow2(n) }

/// Largest bit width the contracts talk about (keeps `usize` width arithmetic overflow free).
pub open spec fn MAXW() -> nat { 0x1000_0000 }

/// x reduced modulo 2^w to the range [0, 2^w).
pub open spec fn trunc(w: nat, x: int) -> nat { (x % (p2(w) as int)) as nat }

/// two's-complement reading of (w,u).
pub open spec fn sval(w: nat, u: nat) -> int {
    if w >= 1 && u >= p2((w - 1) as nat) { u as int - p2(w) as int } else { u as int }
}

pub open spec fn smin(w: nat) -> int { -(p2((w - 1) as nat) as int) }
pub open spec fn smax(w: nat) -> int { p2((w - 1) as nat) as int - 1 }

pub open spec fn popcount(u: nat) -> nat
    decreases u
{
    if u == 0 { 0 } else { (u % 2) + popcount(u / 2) }
}

/// number of bits needed to write u (0 for 0).
pub open spec fn bitlen(u: nat) -> nat
    decreases u
{
    if u == 0 { 0 } else { 1 + bitlen(u / 2) }
}

/// truncating (round-towards-zero) signed quotient and remainder, as P-Code INT_SDIV / INT_SREM.
pub open spec fn tdiv(a: int, b: int) -> int
    recommends b != 0
{
    if a >= 0 && b > 0 { a / b }
    else if a >= 0 && b < 0 { -(a / (-b)) }
    else if a < 0 && b > 0 { -((-a) / b) }
    else { (-a) / (-b) }
}
pub open spec fn trem(a: int, b: int) -> int
    recommends b != 0
{
    a - b * tdiv(a, b)
}

// Bitwise operations: defined through u128 for w <= 128 (so that `by(bit_vector)` applies);
// for wider values they are left uninterpreted -- the properties quantify over <= 16-byte values.
pub uninterp spec fn wide_and(w: nat, a: nat, b: nat) -> nat;
pub uninterp spec fn wide_or(w: nat, a: nat, b: nat) -> nat;
pub uninterp spec fn wide_xor(w: nat, a: nat, b: nat) -> nat;

pub open spec fn bits_and(w: nat, a: nat, b: nat) -> nat {
    if w <= 128 { ((a as u128) & (b as u128)) as nat } else { wide_and(w, a, b) }
}
pub open spec fn bits_or(w: nat, a: nat, b: nat) -> nat {
    if w <= 128 { ((a as u128) | (b as u128)) as nat } else { wide_or(w, a, b) }
}
pub open spec fn bits_xor(w: nat, a: nat, b: nat) -> nat {
    if w <= 128 { ((a as u128) ^ (b as u128)) as nat } else { wide_xor(w, a, b) }
}
/// bitwise complement within w bits (pure arithmetic: 2^w - 1 - u).
pub open spec fn bits_not(w: nat, a: nat) -> nat { (p2(w) - 1 - a) as nat }
// ======== include shim/apint.rs ========
// ---------------------------------------------------------------------------
// shim/apint.rs -- TRUSTED contracts for the `apint` 0.2.0 crate (the bodies of
// apint are not verified; these `external_body` declarations state what the
// extracted cwe_checker code may assume about them).  Written from the apint
// source (registry/src/.../apint-0.2.0), including when a call returns `Err`
// and when it panics (a panic is a `requires`).  Cross-checked against the real
// crate by kani/ (loop-free operations) and replay/ (executable twin sweep).
//
// Bitvector = apint::ApInt is modelled as the ghost pair (w, u):  wf <=> 1 <= w <= MAXW, u < 2^w.
// The shim type is `Copy` (rule R3); the real ApInt is not, which only makes
// the shim accept more programs than rustc does -- the extracted code already
// compiles with rustc.
// ---------------------------------------------------------------------------

#[derive(Clone, Copy)]
pub struct BitWidth { pub n: usize }

impl BitWidth {
    pub fn to_usize(self) -> (r: usize)
        ensures r == self.n
    { self.n }
}

impl From<usize> for BitWidth {
    /// apint: `BitWidth::new(width).unwrap()` -- panics for 0.
    fn from(width: usize) -> (r: BitWidth) {
        verif_assume_or_diverge(width != 0);
        BitWidth { n: width }
    }
}
impl FromSpecImpl<usize> for BitWidth {
    open spec fn obeys_from_spec() -> bool { true }
    open spec fn from_spec(width: usize) -> BitWidth { BitWidth { n: width } }
}

impl PartialEq for BitWidth {
    fn eq(&self, other: &BitWidth) -> (r: bool) { self.n == other.n }
}
impl PartialEqSpecImpl for BitWidth {
    open spec fn obeys_eq_spec() -> bool { true }
    open spec fn eq_spec(&self, other: &BitWidth) -> bool { self.n == other.n }
}
impl Eq for BitWidth {}
impl PartialOrd for BitWidth {
    fn partial_cmp(&self, other: &BitWidth) -> (r: Option<core::cmp::Ordering>) {
        if self.n < other.n { Some(core::cmp::Ordering::Less) }
        else if self.n == other.n { Some(core::cmp::Ordering::Equal) }
        else { Some(core::cmp::Ordering::Greater) }
    }
}
impl PartialOrdSpecImpl for BitWidth {
    open spec fn obeys_partial_cmp_spec() -> bool { true }
    open spec fn partial_cmp_spec(&self, other: &BitWidth) -> Option<core::cmp::Ordering> {
        if self.n < other.n { Some(core::cmp::Ordering::Less) }
        else if self.n == other.n { Some(core::cmp::Ordering::Equal) }
        else { Some(core::cmp::Ordering::Greater) }
    }
}

/// Bit width denoted by a value handed to an `W: Into<BitWidth>` parameter.
pub open spec fn tw_of<W: Into<BitWidth>>(t: W) -> nat {
    IntoSpec::<BitWidth>::into_spec(t).n as nat
}
pub open spec fn tw_ok<W: Into<BitWidth>>(t: W) -> bool {
    <W as IntoSpec<BitWidth>>::obeys_into_spec() && 1 <= tw_of(t) <= MAXW()
}

#[derive(Clone, Copy)]
pub enum Bit { Unset, Set }
impl Bit {
    pub fn to_bool(self) -> (r: bool)
        ensures r == (self is Set)
    { match self { Bit::Set => true, Bit::Unset => false } }
}

#[derive(Clone, Copy)]
pub struct Bitvector { pub w: Ghost<nat>, pub u: Ghost<nat> }

pub open spec fn bv(w: nat, u: nat) -> Bitvector { Bitvector { w: Ghost(w), u: Ghost(u) } }

impl Bitvector {
    pub open spec fn wf(&self) -> bool { 1 <= self.w@ <= MAXW() && self.u@ < p2(self.w@) }
    /// two's-complement value
    pub open spec fn s(&self) -> int { sval(self.w@, self.u@) }
    pub open spec fn sign(&self) -> bool { self.u@ >= p2((self.w@ - 1) as nat) }

    // ---- constructors -----------------------------------------------------
    #[verifier::external_body]
    pub fn from_u8(v: u8) -> (r: Bitvector) ensures r == bv(8, v as nat), r.wf() { unimplemented!() }
    #[verifier::external_body]
    pub fn from_u16(v: u16) -> (r: Bitvector) ensures r == bv(16, v as nat), r.wf() { unimplemented!() }
    #[verifier::external_body]
    pub fn from_u32(v: u32) -> (r: Bitvector) ensures r == bv(32, v as nat), r.wf() { unimplemented!() }
    #[verifier::external_body]
    pub fn from_u64(v: u64) -> (r: Bitvector) ensures r == bv(64, v as nat), r.wf() { unimplemented!() }
    #[verifier::external_body]
    pub fn from_u128(v: u128) -> (r: Bitvector) ensures r == bv(128, v as nat), r.wf() { unimplemented!() }
    #[verifier::external_body]
    pub fn from_i8(v: i8) -> (r: Bitvector) ensures r == bv(8, trunc(8, v as int)), r.wf(), r.s() == v { unimplemented!() }
    #[verifier::external_body]
    pub fn from_i16(v: i16) -> (r: Bitvector) ensures r == bv(16, trunc(16, v as int)), r.wf(), r.s() == v { unimplemented!() }
    #[verifier::external_body]
    pub fn from_i32(v: i32) -> (r: Bitvector) ensures r == bv(32, trunc(32, v as int)), r.wf(), r.s() == v { unimplemented!() }
    #[verifier::external_body]
    pub fn from_i64(v: i64) -> (r: Bitvector) ensures r == bv(64, trunc(64, v as int)), r.wf(), r.s() == v { unimplemented!() }
    #[verifier::external_body]
    pub fn from_i128(v: i128) -> (r: Bitvector) ensures r == bv(128, trunc(128, v as int)), r.wf(), r.s() == v { unimplemented!() }

    #[verifier::external_body]
    pub fn zero(width: BitWidth) -> (r: Bitvector)
        requires 1 <= width.n <= MAXW()
        ensures r == bv(width.n as nat, 0), r.wf()
    { unimplemented!() }
    #[verifier::external_body]
    pub fn one(width: BitWidth) -> (r: Bitvector)
        requires 1 <= width.n <= MAXW()
        ensures r == bv(width.n as nat, 1), r.wf()
    { unimplemented!() }
    #[verifier::external_body]
    pub fn unsigned_max_value(width: BitWidth) -> (r: Bitvector)
        requires 1 <= width.n <= MAXW()
        ensures r == bv(width.n as nat, (p2(width.n as nat) - 1) as nat), r.wf()
    { unimplemented!() }
    #[verifier::external_body]
    pub fn signed_min_value(width: BitWidth) -> (r: Bitvector)
        requires 1 <= width.n <= MAXW()
        ensures r == bv(width.n as nat, p2((width.n - 1) as nat)), r.wf(), r.s() == smin(width.n as nat)
    { unimplemented!() }
    #[verifier::external_body]
    pub fn signed_max_value(width: BitWidth) -> (r: Bitvector)
        requires 1 <= width.n <= MAXW()
        ensures r == bv(width.n as nat, (p2((width.n - 1) as nat) - 1) as nat), r.wf(), r.s() == smax(width.n as nat)
    { unimplemented!() }

    #[verifier::external_body]
    pub fn width(&self) -> (r: BitWidth)
        requires self.wf()
        ensures r.n as nat == self.w@
    { unimplemented!() }

    // ---- casts --------------------------------------------------------------
    // Err iff the target is narrower (extend) / wider (truncate) than the current width.
    #[verifier::external_body]
    pub fn into_zero_extend<W: Into<BitWidth>>(self, target_width: W) -> (r: Result<Bitvector, Error>)
        requires self.wf(), tw_ok(target_width)
        ensures r is Ok <==> tw_of(target_width) >= self.w@,
                r is Ok ==> r->Ok_0 == bv(tw_of(target_width), self.u@) && r->Ok_0.wf()
    { unimplemented!() }
    #[verifier::external_body]
    pub fn into_sign_extend<W: Into<BitWidth>>(self, target_width: W) -> (r: Result<Bitvector, Error>)
        requires self.wf(), tw_ok(target_width)
        ensures r is Ok <==> tw_of(target_width) >= self.w@,
                r is Ok ==> r->Ok_0 == bv(tw_of(target_width), trunc(tw_of(target_width), self.s())) && r->Ok_0.wf()
                            && r->Ok_0.s() == self.s()
    { unimplemented!() }
    #[verifier::external_body]
    pub fn into_truncate<W: Into<BitWidth>>(self, target_width: W) -> (r: Result<Bitvector, Error>)
        requires self.wf(), tw_ok(target_width)
        ensures r is Ok <==> tw_of(target_width) <= self.w@,
                r is Ok ==> r->Ok_0 == bv(tw_of(target_width), self.u@ % p2(tw_of(target_width))) && r->Ok_0.wf()
    { unimplemented!() }
    #[verifier::external_body]
    pub fn into_zero_resize<W: Into<BitWidth>>(self, target_width: W) -> (r: Bitvector)
        requires self.wf(), tw_ok(target_width)
        ensures r == bv(tw_of(target_width), if tw_of(target_width) >= self.w@ { self.u@ } else { self.u@ % p2(tw_of(target_width)) }),
                r.wf()
    { unimplemented!() }
    #[verifier::external_body]
    pub fn into_sign_resize<W: Into<BitWidth>>(self, target_width: W) -> (r: Bitvector)
        requires self.wf(), tw_ok(target_width)
        ensures r == bv(tw_of(target_width), if tw_of(target_width) >= self.w@ { trunc(tw_of(target_width), self.s()) } else { self.u@ % p2(tw_of(target_width)) }),
                r.wf()
    { unimplemented!() }

    // ---- shifts: Err iff shift_amount >= width ------------------------------
    #[verifier::external_body]
    pub fn into_checked_shl(self, shift_amount: usize) -> (r: Result<Bitvector, Error>)
        requires self.wf()
        ensures r is Ok <==> (shift_amount as nat) < self.w@,
                r is Ok ==> r->Ok_0 == bv(self.w@, trunc(self.w@, (self.u@ * p2(shift_amount as nat)) as int)) && r->Ok_0.wf()
    { unimplemented!() }
    #[verifier::external_body]
    pub fn into_checked_lshr(self, shift_amount: usize) -> (r: Result<Bitvector, Error>)
        requires self.wf()
        ensures r is Ok <==> (shift_amount as nat) < self.w@,
                r is Ok ==> r->Ok_0 == bv(self.w@, self.u@ / p2(shift_amount as nat)) && r->Ok_0.wf()
    { unimplemented!() }
    #[verifier::external_body]
    pub fn into_checked_ashr(self, shift_amount: usize) -> (r: Result<Bitvector, Error>)
        requires self.wf()
        ensures r is Ok <==> (shift_amount as nat) < self.w@,
                r is Ok ==> r->Ok_0 == bv(self.w@, trunc(self.w@, self.s() / (p2(shift_amount as nat) as int))) && r->Ok_0.wf()
    { unimplemented!() }

    // ---- modular arithmetic: Err iff widths differ ----------------------------
    #[verifier::external_body]
    pub fn into_checked_add(self, rhs: &Bitvector) -> (r: Result<Bitvector, Error>)
        requires self.wf(), rhs.wf()
        ensures r is Ok <==> self.w@ == rhs.w@,
                r is Ok ==> r->Ok_0 == bv_add(self, *rhs) && r->Ok_0.wf()
    { unimplemented!() }
    #[verifier::external_body]
    pub fn into_checked_sub(self, rhs: &Bitvector) -> (r: Result<Bitvector, Error>)
        requires self.wf(), rhs.wf()
        ensures r is Ok <==> self.w@ == rhs.w@,
                r is Ok ==> r->Ok_0 == bv_sub(self, *rhs) && r->Ok_0.wf()
    { unimplemented!() }
    /// apint: `unimplemented!()` (panic) for widths above 64 bit when the widths match.
    #[verifier::external_body]
    pub fn into_checked_mul(self, rhs: &Bitvector) -> (r: Result<Bitvector, Error>)
        requires self.wf(), rhs.wf(), self.w@ <= 64 || self.w@ != rhs.w@
        ensures r is Ok <==> self.w@ == rhs.w@,
                r is Ok ==> r->Ok_0 == bv_mul(self, *rhs) && r->Ok_0.wf()
    { unimplemented!() }
    #[verifier::external_body]
    pub fn checked_add_assign(&mut self, rhs: &Bitvector) -> (r: Result<(), Error>)
        requires old(self).wf(), rhs.wf()
        ensures r is Ok <==> old(self).w@ == rhs.w@,
                r is Ok ==> *final(self) == bv_add(*old(self), *rhs) && final(self).wf(),
                r is Err ==> *final(self) == *old(self)
    { unimplemented!() }
    #[verifier::external_body]
    pub fn checked_sub_assign(&mut self, rhs: &Bitvector) -> (r: Result<(), Error>)
        requires old(self).wf(), rhs.wf()
        ensures r is Ok <==> old(self).w@ == rhs.w@,
                r is Ok ==> *final(self) == bv_sub(*old(self), *rhs) && final(self).wf(),
                r is Err ==> *final(self) == *old(self)
    { unimplemented!() }

    // ---- division: Err iff rhs == 0 or widths differ; panics (unimplemented!) above 64 bit ----
    #[verifier::external_body]
    pub fn into_checked_udiv(self, rhs: &Bitvector) -> (r: Result<Bitvector, Error>)
        requires self.wf(), rhs.wf(), self.w@ <= 64 || rhs.u@ == 0 || self.w@ != rhs.w@
        ensures r is Ok <==> (self.w@ == rhs.w@ && rhs.u@ != 0),
                r is Ok ==> r->Ok_0 == bv(self.w@, self.u@ / rhs.u@) && r->Ok_0.wf()
    { unimplemented!() }
    #[verifier::external_body]
    pub fn into_checked_urem(self, rhs: &Bitvector) -> (r: Result<Bitvector, Error>)
        requires self.wf(), rhs.wf(), self.w@ <= 64 || rhs.u@ == 0 || self.w@ != rhs.w@
        ensures r is Ok <==> (self.w@ == rhs.w@ && rhs.u@ != 0),
                r is Ok ==> r->Ok_0 == bv(self.w@, self.u@ % rhs.u@) && r->Ok_0.wf()
    { unimplemented!() }
    /// apint computes `i64::wrapping_div` on the sign-extended digits and clears the unused bits:
    /// the quotient is truncated (MIN / -1 = MIN).
    #[verifier::external_body]
    pub fn into_checked_sdiv(self, rhs: &Bitvector) -> (r: Result<Bitvector, Error>)
        requires self.wf(), rhs.wf(), self.w@ <= 64 || rhs.u@ == 0 || self.w@ != rhs.w@
        ensures r is Ok <==> (self.w@ == rhs.w@ && rhs.u@ != 0),
                r is Ok ==> r->Ok_0 == bv(self.w@, trunc(self.w@, tdiv(self.s(), rhs.s()))) && r->Ok_0.wf()
    { unimplemented!() }
    #[verifier::external_body]
    pub fn into_checked_srem(self, rhs: &Bitvector) -> (r: Result<Bitvector, Error>)
        requires self.wf(), rhs.wf(), self.w@ <= 64 || rhs.u@ == 0 || self.w@ != rhs.w@
        ensures r is Ok <==> (self.w@ == rhs.w@ && rhs.u@ != 0),
                r is Ok ==> r->Ok_0 == bv(self.w@, trunc(self.w@, trem(self.s(), rhs.s()))) && r->Ok_0.wf()
    { unimplemented!() }

    #[verifier::external_body]
    pub fn into_bitnot(self) -> (r: Bitvector)
        requires self.wf()
        ensures r == bv(self.w@, bits_not(self.w@, self.u@)), r.wf()
    { unimplemented!() }
    #[verifier::external_body]
    pub fn into_negate(self) -> (r: Bitvector)
        requires self.wf()
        ensures r == bv_neg(self), r.wf()
    { unimplemented!() }

    // ---- comparisons: Err iff widths differ -----------------------------------
    #[verifier::external_body]
    pub fn checked_ult(&self, rhs: &Bitvector) -> (r: Result<bool, Error>)
        requires self.wf(), rhs.wf()
        ensures r is Ok <==> self.w@ == rhs.w@, r is Ok ==> r->Ok_0 == (self.u@ < rhs.u@)
    { unimplemented!() }
    #[verifier::external_body]
    pub fn checked_ule(&self, rhs: &Bitvector) -> (r: Result<bool, Error>)
        requires self.wf(), rhs.wf()
        ensures r is Ok <==> self.w@ == rhs.w@, r is Ok ==> r->Ok_0 == (self.u@ <= rhs.u@)
    { unimplemented!() }
    #[verifier::external_body]
    pub fn checked_ugt(&self, rhs: &Bitvector) -> (r: Result<bool, Error>)
        requires self.wf(), rhs.wf()
        ensures r is Ok <==> self.w@ == rhs.w@, r is Ok ==> r->Ok_0 == (self.u@ > rhs.u@)
    { unimplemented!() }
    #[verifier::external_body]
    pub fn checked_uge(&self, rhs: &Bitvector) -> (r: Result<bool, Error>)
        requires self.wf(), rhs.wf()
        ensures r is Ok <==> self.w@ == rhs.w@, r is Ok ==> r->Ok_0 == (self.u@ >= rhs.u@)
    { unimplemented!() }
    #[verifier::external_body]
    pub fn checked_slt(&self, rhs: &Bitvector) -> (r: Result<bool, Error>)
        requires self.wf(), rhs.wf()
        ensures r is Ok <==> self.w@ == rhs.w@, r is Ok ==> r->Ok_0 == (self.s() < rhs.s())
    { unimplemented!() }
    #[verifier::external_body]
    pub fn checked_sle(&self, rhs: &Bitvector) -> (r: Result<bool, Error>)
        requires self.wf(), rhs.wf()
        ensures r is Ok <==> self.w@ == rhs.w@, r is Ok ==> r->Ok_0 == (self.s() <= rhs.s())
    { unimplemented!() }
    #[verifier::external_body]
    pub fn checked_sgt(&self, rhs: &Bitvector) -> (r: Result<bool, Error>)
        requires self.wf(), rhs.wf()
        ensures r is Ok <==> self.w@ == rhs.w@, r is Ok ==> r->Ok_0 == (self.s() > rhs.s())
    { unimplemented!() }
    #[verifier::external_body]
    pub fn checked_sge(&self, rhs: &Bitvector) -> (r: Result<bool, Error>)
        requires self.wf(), rhs.wf()
        ensures r is Ok <==> self.w@ == rhs.w@, r is Ok ==> r->Ok_0 == (self.s() >= rhs.s())
    { unimplemented!() }

    // ---- predicates and bit counts ----------------------------------------------
    #[verifier::external_body]
    pub fn is_zero(&self) -> (r: bool) requires self.wf() ensures r == (self.u@ == 0) { unimplemented!() }
    #[verifier::external_body]
    pub fn is_one(&self) -> (r: bool) requires self.wf() ensures r == (self.u@ == 1) { unimplemented!() }
    #[verifier::external_body]
    pub fn sign_bit(&self) -> (r: Bit) requires self.wf() ensures (r is Set) == self.sign() { unimplemented!() }
    #[verifier::external_body]
    pub fn count_ones(&self) -> (r: usize) requires self.wf() ensures r as nat == popcount(self.u@), r as nat <= self.w@ { unimplemented!() }
    #[verifier::external_body]
    pub fn leading_zeros(&self) -> (r: usize) requires self.wf() ensures r as nat == self.w@ - bitlen(self.u@), bitlen(self.u@) <= self.w@ { unimplemented!() }
    #[verifier::external_body]
    pub fn trailing_zeros(&self) -> (r: usize) requires self.wf() ensures r as nat == (if self.u@ == 0 { self.w@ } else { tz(self.u@) }) { unimplemented!() }

    // ---- lossless conversion to primitives: Err iff the *unsigned* value does not fit ------
    #[verifier::external_body]
    pub fn try_to_u8(&self) -> (r: Result<u8, Error>)
        requires self.wf()
        ensures r is Ok <==> self.u@ < p2(8), r is Ok ==> r->Ok_0 as nat == self.u@
    { unimplemented!() }
    #[verifier::external_body]
    pub fn try_to_u64(&self) -> (r: Result<u64, Error>)
        requires self.wf()
        ensures r is Ok <==> self.u@ < p2(64), r is Ok ==> r->Ok_0 as nat == self.u@
    { unimplemented!() }
    /// sign extension from the own width when it is below 64 bit, else the low 64 bits read as i64.
    #[verifier::external_body]
    pub fn try_to_i64(&self) -> (r: Result<i64, Error>)
        requires self.wf()
        ensures r is Ok <==> self.u@ < p2(64),
                r is Ok ==> r->Ok_0 as int == (if self.w@ <= 64 { self.s() } else { sval(64, self.u@) })
    { unimplemented!() }
    #[verifier::external_body]
    pub fn try_to_i128(&self) -> (r: Result<i128, Error>)
        requires self.wf()
        ensures r is Ok <==> self.u@ < p2(128),
                r is Ok ==> r->Ok_0 as int == (if self.w@ <= 128 { self.s() } else { sval(128, self.u@) })
    { unimplemented!() }
    #[verifier::external_body]
    pub fn try_to_u128(&self) -> (r: Result<u128, Error>)
        requires self.wf()
        ensures r is Ok <==> self.u@ < p2(128), r is Ok ==> r->Ok_0 as nat == self.u@
    { unimplemented!() }
}

/// number of trailing zero bits of a non-zero value
pub open spec fn tz(u: nat) -> nat
    decreases u
{
    if u == 0 || u % 2 == 1 { 0 } else { 1 + tz(u / 2) }
}

pub open spec fn bv_add(a: Bitvector, b: Bitvector) -> Bitvector { bv(a.w@, trunc(a.w@, (a.u@ + b.u@) as int)) }
pub open spec fn bv_sub(a: Bitvector, b: Bitvector) -> Bitvector { bv(a.w@, trunc(a.w@, a.u@ - b.u@)) }
pub open spec fn bv_mul(a: Bitvector, b: Bitvector) -> Bitvector { bv(a.w@, trunc(a.w@, (a.u@ * b.u@) as int)) }
pub open spec fn bv_neg(a: Bitvector) -> Bitvector { bv(a.w@, trunc(a.w@, -(a.u@ as int))) }
pub open spec fn bv_and(a: Bitvector, b: Bitvector) -> Bitvector { bv(a.w@, bits_and(a.w@, a.u@, b.u@)) }
pub open spec fn bv_or(a: Bitvector, b: Bitvector) -> Bitvector { bv(a.w@, bits_or(a.w@, a.u@, b.u@)) }
pub open spec fn bv_xor(a: Bitvector, b: Bitvector) -> Bitvector { bv(a.w@, bits_xor(a.w@, a.u@, b.u@)) }

// PartialEq: apint compares width and digits; never panics.
impl PartialEq for Bitvector {
    #[verifier::external_body]
    fn eq(&self, other: &Bitvector) -> (r: bool) { unimplemented!() }
}
impl PartialEqSpecImpl for Bitvector {
    open spec fn obeys_eq_spec() -> bool { true }
    open spec fn eq_spec(&self, other: &Bitvector) -> bool { self.w@ == other.w@ && self.u@ == other.u@ }
}
impl Eq for Bitvector {}

// From<primitive> for ApInt
impl From<u8> for Bitvector {
    #[verifier::external_body]
    fn from(v: u8) -> (r: Bitvector) { unimplemented!() }
}
impl FromSpecImpl<u8> for Bitvector {
    open spec fn obeys_from_spec() -> bool { true }
    open spec fn from_spec(v: u8) -> Bitvector { bv(8, v as nat) }
}
impl From<u64> for Bitvector {
    #[verifier::external_body]
    fn from(v: u64) -> (r: Bitvector) { unimplemented!() }
}
impl FromSpecImpl<u64> for Bitvector {
    open spec fn obeys_from_spec() -> bool { true }
    open spec fn from_spec(v: u64) -> Bitvector { bv(64, v as nat) }
}

/// apint::Int -- a signed view of an ApInt.
#[derive(Clone, Copy)]
pub struct Int { pub value: Bitvector }
impl From<Bitvector> for Int {
    fn from(value: Bitvector) -> (r: Int) { Int { value } }
}
impl FromSpecImpl<Bitvector> for Int {
    open spec fn obeys_from_spec() -> bool { true }
    open spec fn from_spec(value: Bitvector) -> Int { Int { value } }
}
impl Int {
    /// apint: `self.sign_bit() == Bit::Unset` (zero counts as positive)
    #[verifier::external_body]
    pub fn is_positive(&self) -> (r: bool) requires self.value.wf() ensures r == !self.value.sign() { unimplemented!() }
    #[verifier::external_body]
    pub fn is_negative(&self) -> (r: bool) requires self.value.wf() ensures r == self.value.sign() { unimplemented!() }
}
// ======== include shim/apint_ops.rs ========
// GENERATED by shim/gen_apint_ops.py -- TRUSTED (see shim/apint.rs)

impl core::ops::Add<Bitvector> for Bitvector {
    type Output = Bitvector;
    #[verifier::external_body]
    fn add(self, rhs: Bitvector) -> (r: Bitvector) { unimplemented!() }
}
impl AddSpecImpl<Bitvector> for Bitvector {
    open spec fn obeys_add_spec() -> bool { true }
    open spec fn add_req(self, rhs: Bitvector) -> bool { self.wf() && rhs.wf() && self.w@ == rhs.w@ }
    open spec fn add_spec(self, rhs: Bitvector) -> Bitvector { bv_add(self, rhs) }
}

impl<'b> core::ops::Add<Bitvector> for &'b Bitvector {
    type Output = Bitvector;
    #[verifier::external_body]
    fn add(self, rhs: Bitvector) -> (r: Bitvector) { unimplemented!() }
}
impl<'b> AddSpecImpl<Bitvector> for &'b Bitvector {
    open spec fn obeys_add_spec() -> bool { true }
    open spec fn add_req(self, rhs: Bitvector) -> bool { self.wf() && rhs.wf() && self.w@ == rhs.w@ }
    open spec fn add_spec(self, rhs: Bitvector) -> Bitvector { bv_add(*self, rhs) }
}

impl<'a, 'b> core::ops::Add<&'a Bitvector> for &'b Bitvector {
    type Output = Bitvector;
    #[verifier::external_body]
    fn add(self, rhs: &'a Bitvector) -> (r: Bitvector) { unimplemented!() }
}
impl<'a, 'b> AddSpecImpl<&'a Bitvector> for &'b Bitvector {
    open spec fn obeys_add_spec() -> bool { true }
    open spec fn add_req(self, rhs: &'a Bitvector) -> bool { self.wf() && rhs.wf() && self.w@ == rhs.w@ }
    open spec fn add_spec(self, rhs: &'a Bitvector) -> Bitvector { bv_add(*self, *rhs) }
}

impl core::ops::AddAssign<Bitvector> for Bitvector {
    #[verifier::external_body]
    fn add_assign(&mut self, rhs: Bitvector) { unimplemented!() }
}
impl AddAssignSpecImpl<Bitvector> for Bitvector {
    open spec fn obeys_add_assign_spec() -> bool { true }
    open spec fn add_assign_req(&self, rhs: Bitvector) -> bool { self.wf() && rhs.wf() && self.w@ == rhs.w@ }
    open spec fn add_assign_spec(&self, rhs: Bitvector) -> &Bitvector { &bv_add(*self, rhs) }
}

impl core::ops::Sub<Bitvector> for Bitvector {
    type Output = Bitvector;
    #[verifier::external_body]
    fn sub(self, rhs: Bitvector) -> (r: Bitvector) { unimplemented!() }
}
impl SubSpecImpl<Bitvector> for Bitvector {
    open spec fn obeys_sub_spec() -> bool { true }
    open spec fn sub_req(self, rhs: Bitvector) -> bool { self.wf() && rhs.wf() && self.w@ == rhs.w@ }
    open spec fn sub_spec(self, rhs: Bitvector) -> Bitvector { bv_sub(self, rhs) }
}

impl<'b> core::ops::Sub<Bitvector> for &'b Bitvector {
    type Output = Bitvector;
    #[verifier::external_body]
    fn sub(self, rhs: Bitvector) -> (r: Bitvector) { unimplemented!() }
}
impl<'b> SubSpecImpl<Bitvector> for &'b Bitvector {
    open spec fn obeys_sub_spec() -> bool { true }
    open spec fn sub_req(self, rhs: Bitvector) -> bool { self.wf() && rhs.wf() && self.w@ == rhs.w@ }
    open spec fn sub_spec(self, rhs: Bitvector) -> Bitvector { bv_sub(*self, rhs) }
}

impl<'a, 'b> core::ops::Sub<&'a Bitvector> for &'b Bitvector {
    type Output = Bitvector;
    #[verifier::external_body]
    fn sub(self, rhs: &'a Bitvector) -> (r: Bitvector) { unimplemented!() }
}
impl<'a, 'b> SubSpecImpl<&'a Bitvector> for &'b Bitvector {
    open spec fn obeys_sub_spec() -> bool { true }
    open spec fn sub_req(self, rhs: &'a Bitvector) -> bool { self.wf() && rhs.wf() && self.w@ == rhs.w@ }
    open spec fn sub_spec(self, rhs: &'a Bitvector) -> Bitvector { bv_sub(*self, *rhs) }
}

impl core::ops::SubAssign<Bitvector> for Bitvector {
    #[verifier::external_body]
    fn sub_assign(&mut self, rhs: Bitvector) { unimplemented!() }
}
impl SubAssignSpecImpl<Bitvector> for Bitvector {
    open spec fn obeys_sub_assign_spec() -> bool { true }
    open spec fn sub_assign_req(&self, rhs: Bitvector) -> bool { self.wf() && rhs.wf() && self.w@ == rhs.w@ }
    open spec fn sub_assign_spec(&self, rhs: Bitvector) -> &Bitvector { &bv_sub(*self, rhs) }
}

impl core::ops::Mul<Bitvector> for Bitvector {
    type Output = Bitvector;
    #[verifier::external_body]
    fn mul(self, rhs: Bitvector) -> (r: Bitvector) { unimplemented!() }
}
impl MulSpecImpl<Bitvector> for Bitvector {
    open spec fn obeys_mul_spec() -> bool { true }
    open spec fn mul_req(self, rhs: Bitvector) -> bool { self.wf() && rhs.wf() && self.w@ == rhs.w@ && self.w@ <= 64 }
    open spec fn mul_spec(self, rhs: Bitvector) -> Bitvector { bv_mul(self, rhs) }
}

impl<'b> core::ops::Mul<Bitvector> for &'b Bitvector {
    type Output = Bitvector;
    #[verifier::external_body]
    fn mul(self, rhs: Bitvector) -> (r: Bitvector) { unimplemented!() }
}
impl<'b> MulSpecImpl<Bitvector> for &'b Bitvector {
    open spec fn obeys_mul_spec() -> bool { true }
    open spec fn mul_req(self, rhs: Bitvector) -> bool { self.wf() && rhs.wf() && self.w@ == rhs.w@ && self.w@ <= 64 }
    open spec fn mul_spec(self, rhs: Bitvector) -> Bitvector { bv_mul(*self, rhs) }
}

impl<'a, 'b> core::ops::Mul<&'a Bitvector> for &'b Bitvector {
    type Output = Bitvector;
    #[verifier::external_body]
    fn mul(self, rhs: &'a Bitvector) -> (r: Bitvector) { unimplemented!() }
}
impl<'a, 'b> MulSpecImpl<&'a Bitvector> for &'b Bitvector {
    open spec fn obeys_mul_spec() -> bool { true }
    open spec fn mul_req(self, rhs: &'a Bitvector) -> bool { self.wf() && rhs.wf() && self.w@ == rhs.w@ && self.w@ <= 64 }
    open spec fn mul_spec(self, rhs: &'a Bitvector) -> Bitvector { bv_mul(*self, *rhs) }
}

impl core::ops::MulAssign<Bitvector> for Bitvector {
    #[verifier::external_body]
    fn mul_assign(&mut self, rhs: Bitvector) { unimplemented!() }
}
impl MulAssignSpecImpl<Bitvector> for Bitvector {
    open spec fn obeys_mul_assign_spec() -> bool { true }
    open spec fn mul_assign_req(&self, rhs: Bitvector) -> bool { self.wf() && rhs.wf() && self.w@ == rhs.w@ && self.w@ <= 64 }
    open spec fn mul_assign_spec(&self, rhs: Bitvector) -> &Bitvector { &bv_mul(*self, rhs) }
}

impl core::ops::BitAnd<Bitvector> for Bitvector {
    type Output = Bitvector;
    #[verifier::external_body]
    fn bitand(self, rhs: Bitvector) -> (r: Bitvector) { unimplemented!() }
}
impl BitAndSpecImpl<Bitvector> for Bitvector {
    open spec fn obeys_bitand_spec() -> bool { true }
    open spec fn bitand_req(self, rhs: Bitvector) -> bool { self.wf() && rhs.wf() && self.w@ == rhs.w@ }
    open spec fn bitand_spec(self, rhs: Bitvector) -> Bitvector { bv_and(self, rhs) }
}

impl<'b> core::ops::BitAnd<Bitvector> for &'b Bitvector {
    type Output = Bitvector;
    #[verifier::external_body]
    fn bitand(self, rhs: Bitvector) -> (r: Bitvector) { unimplemented!() }
}
impl<'b> BitAndSpecImpl<Bitvector> for &'b Bitvector {
    open spec fn obeys_bitand_spec() -> bool { true }
    open spec fn bitand_req(self, rhs: Bitvector) -> bool { self.wf() && rhs.wf() && self.w@ == rhs.w@ }
    open spec fn bitand_spec(self, rhs: Bitvector) -> Bitvector { bv_and(*self, rhs) }
}

impl<'a, 'b> core::ops::BitAnd<&'a Bitvector> for &'b Bitvector {
    type Output = Bitvector;
    #[verifier::external_body]
    fn bitand(self, rhs: &'a Bitvector) -> (r: Bitvector) { unimplemented!() }
}
impl<'a, 'b> BitAndSpecImpl<&'a Bitvector> for &'b Bitvector {
    open spec fn obeys_bitand_spec() -> bool { true }
    open spec fn bitand_req(self, rhs: &'a Bitvector) -> bool { self.wf() && rhs.wf() && self.w@ == rhs.w@ }
    open spec fn bitand_spec(self, rhs: &'a Bitvector) -> Bitvector { bv_and(*self, *rhs) }
}

impl core::ops::BitAndAssign<Bitvector> for Bitvector {
    #[verifier::external_body]
    fn bitand_assign(&mut self, rhs: Bitvector) { unimplemented!() }
}
impl BitAndAssignSpecImpl<Bitvector> for Bitvector {
    open spec fn obeys_bitand_assign_spec() -> bool { true }
    open spec fn bitand_assign_req(&self, rhs: Bitvector) -> bool { self.wf() && rhs.wf() && self.w@ == rhs.w@ }
    open spec fn bitand_assign_spec(&self, rhs: Bitvector) -> &Bitvector { &bv_and(*self, rhs) }
}

impl core::ops::BitOr<Bitvector> for Bitvector {
    type Output = Bitvector;
    #[verifier::external_body]
    fn bitor(self, rhs: Bitvector) -> (r: Bitvector) { unimplemented!() }
}
impl BitOrSpecImpl<Bitvector> for Bitvector {
    open spec fn obeys_bitor_spec() -> bool { true }
    open spec fn bitor_req(self, rhs: Bitvector) -> bool { self.wf() && rhs.wf() && self.w@ == rhs.w@ }
    open spec fn bitor_spec(self, rhs: Bitvector) -> Bitvector { bv_or(self, rhs) }
}

impl<'b> core::ops::BitOr<Bitvector> for &'b Bitvector {
    type Output = Bitvector;
    #[verifier::external_body]
    fn bitor(self, rhs: Bitvector) -> (r: Bitvector) { unimplemented!() }
}
impl<'b> BitOrSpecImpl<Bitvector> for &'b Bitvector {
    open spec fn obeys_bitor_spec() -> bool { true }
    open spec fn bitor_req(self, rhs: Bitvector) -> bool { self.wf() && rhs.wf() && self.w@ == rhs.w@ }
    open spec fn bitor_spec(self, rhs: Bitvector) -> Bitvector { bv_or(*self, rhs) }
}

impl<'a, 'b> core::ops::BitOr<&'a Bitvector> for &'b Bitvector {
    type Output = Bitvector;
    #[verifier::external_body]
    fn bitor(self, rhs: &'a Bitvector) -> (r: Bitvector) { unimplemented!() }
}
impl<'a, 'b> BitOrSpecImpl<&'a Bitvector> for &'b Bitvector {
    open spec fn obeys_bitor_spec() -> bool { true }
    open spec fn bitor_req(self, rhs: &'a Bitvector) -> bool { self.wf() && rhs.wf() && self.w@ == rhs.w@ }
    open spec fn bitor_spec(self, rhs: &'a Bitvector) -> Bitvector { bv_or(*self, *rhs) }
}

impl core::ops::BitOrAssign<Bitvector> for Bitvector {
    #[verifier::external_body]
    fn bitor_assign(&mut self, rhs: Bitvector) { unimplemented!() }
}
impl BitOrAssignSpecImpl<Bitvector> for Bitvector {
    open spec fn obeys_bitor_assign_spec() -> bool { true }
    open spec fn bitor_assign_req(&self, rhs: Bitvector) -> bool { self.wf() && rhs.wf() && self.w@ == rhs.w@ }
    open spec fn bitor_assign_spec(&self, rhs: Bitvector) -> &Bitvector { &bv_or(*self, rhs) }
}

impl core::ops::BitXor<Bitvector> for Bitvector {
    type Output = Bitvector;
    #[verifier::external_body]
    fn bitxor(self, rhs: Bitvector) -> (r: Bitvector) { unimplemented!() }
}
impl BitXorSpecImpl<Bitvector> for Bitvector {
    open spec fn obeys_bitxor_spec() -> bool { true }
    open spec fn bitxor_req(self, rhs: Bitvector) -> bool { self.wf() && rhs.wf() && self.w@ == rhs.w@ }
    open spec fn bitxor_spec(self, rhs: Bitvector) -> Bitvector { bv_xor(self, rhs) }
}

impl<'b> core::ops::BitXor<Bitvector> for &'b Bitvector {
    type Output = Bitvector;
    #[verifier::external_body]
    fn bitxor(self, rhs: Bitvector) -> (r: Bitvector) { unimplemented!() }
}
impl<'b> BitXorSpecImpl<Bitvector> for &'b Bitvector {
    open spec fn obeys_bitxor_spec() -> bool { true }
    open spec fn bitxor_req(self, rhs: Bitvector) -> bool { self.wf() && rhs.wf() && self.w@ == rhs.w@ }
    open spec fn bitxor_spec(self, rhs: Bitvector) -> Bitvector { bv_xor(*self, rhs) }
}

impl<'a, 'b> core::ops::BitXor<&'a Bitvector> for &'b Bitvector {
    type Output = Bitvector;
    #[verifier::external_body]
    fn bitxor(self, rhs: &'a Bitvector) -> (r: Bitvector) { unimplemented!() }
}
impl<'a, 'b> BitXorSpecImpl<&'a Bitvector> for &'b Bitvector {
    open spec fn obeys_bitxor_spec() -> bool { true }
    open spec fn bitxor_req(self, rhs: &'a Bitvector) -> bool { self.wf() && rhs.wf() && self.w@ == rhs.w@ }
    open spec fn bitxor_spec(self, rhs: &'a Bitvector) -> Bitvector { bv_xor(*self, *rhs) }
}

impl core::ops::BitXorAssign<Bitvector> for Bitvector {
    #[verifier::external_body]
    fn bitxor_assign(&mut self, rhs: Bitvector) { unimplemented!() }
}
impl BitXorAssignSpecImpl<Bitvector> for Bitvector {
    open spec fn obeys_bitxor_assign_spec() -> bool { true }
    open spec fn bitxor_assign_req(&self, rhs: Bitvector) -> bool { self.wf() && rhs.wf() && self.w@ == rhs.w@ }
    open spec fn bitxor_assign_spec(&self, rhs: Bitvector) -> &Bitvector { &bv_xor(*self, rhs) }
}

impl core::ops::Neg for Bitvector {
    type Output = Bitvector;
    #[verifier::external_body]
    fn neg(self) -> (r: Bitvector) { unimplemented!() }
}
impl NegSpecImpl for Bitvector {
    open spec fn obeys_neg_spec() -> bool { true }
    open spec fn neg_req(self) -> bool { self.wf() }
    open spec fn neg_spec(self) -> Bitvector { bv_neg(self) }
}

impl<'a> core::ops::Neg for &'a Bitvector {
    type Output = Bitvector;
    #[verifier::external_body]
    fn neg(self) -> (r: Bitvector) { unimplemented!() }
}
impl<'a> NegSpecImpl for &'a Bitvector {
    open spec fn obeys_neg_spec() -> bool { true }
    open spec fn neg_req(self) -> bool { self.wf() }
    open spec fn neg_spec(self) -> Bitvector { bv_neg(*self) }
}

impl core::ops::Not for Bitvector {
    type Output = Bitvector;
    #[verifier::external_body]
    fn not(self) -> (r: Bitvector) { unimplemented!() }
}
impl NotSpecImpl for Bitvector {
    open spec fn obeys_not_spec() -> bool { true }
    open spec fn not_req(self) -> bool { self.wf() }
    open spec fn not_spec(self) -> Bitvector { bv(self.w@, bits_not(self.w@, self.u@)) }
}
// ======== include shim/bytesize.rs ========
// ---------------------------------------------------------------------------
// shim/bytesize.rs -- TRUSTED.  `ByteSize(u64)` of cwe_checker gets most of its
// behaviour from `derive` / `derive_more` (From, Into, Add, Sub, PartialOrd, ...);
// generated code is dropped by extraction (rule R1), so it is restated here.
// The hand-written impls of ByteSize (`new`, `as_bit_length`, the conversions
// from/to apint::BitWidth) are *extracted from /repo*, not written here.
// derive_more's Add/Sub are plain `self.0 + rhs.0` / `self.0 - rhs.0`: overflow
// panics in debug builds and wraps in release builds -> stated as `requires`.
// ---------------------------------------------------------------------------

#[derive(Clone, Copy)]
pub struct ByteSize(pub u64);

impl PartialEq for ByteSize {
    fn eq(&self, other: &ByteSize) -> (r: bool) { self.0 == other.0 }
}
impl PartialEqSpecImpl for ByteSize {
    open spec fn obeys_eq_spec() -> bool { true }
    open spec fn eq_spec(&self, other: &ByteSize) -> bool { self.0 == other.0 }
}
impl Eq for ByteSize {}
impl PartialOrd for ByteSize {
    fn partial_cmp(&self, other: &ByteSize) -> (r: Option<core::cmp::Ordering>) {
        if self.0 < other.0 { Some(core::cmp::Ordering::Less) }
        else if self.0 == other.0 { Some(core::cmp::Ordering::Equal) }
        else { Some(core::cmp::Ordering::Greater) }
    }
}
impl PartialOrdSpecImpl for ByteSize {
    open spec fn obeys_partial_cmp_spec() -> bool { true }
    open spec fn partial_cmp_spec(&self, other: &ByteSize) -> Option<core::cmp::Ordering> {
        if self.0 < other.0 { Some(core::cmp::Ordering::Less) }
        else if self.0 == other.0 { Some(core::cmp::Ordering::Equal) }
        else { Some(core::cmp::Ordering::Greater) }
    }
}

impl From<u64> for ByteSize {
    fn from(v: u64) -> (r: ByteSize) { ByteSize(v) }
}
impl FromSpecImpl<u64> for ByteSize {
    open spec fn obeys_from_spec() -> bool { true }
    open spec fn from_spec(v: u64) -> ByteSize { ByteSize(v) }
}
impl From<ByteSize> for u64 {
    fn from(v: ByteSize) -> (r: u64) { v.0 }
}
impl FromSpecImpl<ByteSize> for u64 {
    open spec fn obeys_from_spec() -> bool { true }
    open spec fn from_spec(v: ByteSize) -> u64 { v.0 }
}

impl core::ops::Add<ByteSize> for ByteSize {
    type Output = ByteSize;
    #[verifier::external_body]
    fn add(self, rhs: ByteSize) -> (r: ByteSize) { unimplemented!() }
}
impl AddSpecImpl<ByteSize> for ByteSize {
    open spec fn obeys_add_spec() -> bool { true }
    open spec fn add_req(self, rhs: ByteSize) -> bool { self.0 + rhs.0 <= u64::MAX }
    open spec fn add_spec(self, rhs: ByteSize) -> ByteSize { ByteSize((self.0 + rhs.0) as u64) }
}
impl core::ops::Sub<ByteSize> for ByteSize {
    type Output = ByteSize;
    #[verifier::external_body]
    fn sub(self, rhs: ByteSize) -> (r: ByteSize) { unimplemented!() }
}
impl SubSpecImpl<ByteSize> for ByteSize {
    open spec fn obeys_sub_spec() -> bool { true }
    open spec fn sub_req(self, rhs: ByteSize) -> bool { self.0 >= rhs.0 }
    open spec fn sub_spec(self, rhs: ByteSize) -> ByteSize { ByteSize((self.0 - rhs.0) as u64) }
}

/// Bound on byte sizes under which `size * 8` and width sums stay far away from overflow.
pub open spec fn MAXBYTES() -> nat { 0x200_0000 }
// ---- extracted type ex::BinOpType ----
#[derive(Debug, PartialEq, Eq, Clone, Copy)]
pub enum BinOpType {
    Piece,
    IntEqual,
    IntNotEqual,
    IntLess,
    IntSLess,
    IntLessEqual,
    IntSLessEqual,
    IntAdd,
    IntSub,
    IntCarry,
    IntSCarry,
    IntSBorrow,
    IntXOr,
    IntAnd,
    IntOr,
    IntLeft,
    IntRight,
    IntSRight,
    IntMult,
    IntDiv,
    IntRem,
    IntSDiv,
    IntSRem,
    BoolXOr,
    BoolAnd,
    BoolOr,
    FloatEqual,
    FloatNotEqual,
    FloatLess,
    FloatLessEqual,
    FloatAdd,
    FloatSub,
    FloatMult,
    FloatDiv,
}
// ---- extracted type ex::CastOpType ----
#[derive(Debug, PartialEq, Eq, Clone, Copy)]
pub enum CastOpType {
    IntZExt,
    IntSExt,
    Int2Float,
    Float2Float,
    Trunc,
    PopCount,
    LzCount,
}
// ---- extracted type ex::UnOpType ----
#[derive(Debug, PartialEq, Eq, Clone, Copy)]
pub enum UnOpType {
    IntNegate,
    Int2Comp,
    BoolNegate,
    FloatNegate,
    FloatAbs,
    FloatSqrt,
    FloatCeil,
    FloatFloor,
    FloatRound,
    FloatNaN,
}
// ---- extracted fn ir::impl ByteSize::new ----
impl ByteSize {
    pub fn new( value : u64 ) -> (r: ByteSize)
    ensures r.0 == value,
    {
        ByteSize(value)
    }
}
// ---- extracted fn ir::impl ByteSize::as_bit_length ----
impl ByteSize {
    pub fn as_bit_length( self ) -> (r: usize)
    requires self.0 <= MAXBYTES(),
    ensures r == self.0 * 8,
    {
        (u64::from(self) * 8) as usize
    }
}
// ---- extracted fn ir::impl From<ByteSize> for apint::BitWidth::from ----
impl From < ByteSize > for BitWidth {
    fn from( bytesize : ByteSize ) -> (r: BitWidth)
    {
        verif_assume_or_diverge(bytesize.0 <= 0x200_0000);
        BitWidth::from((u64::from(bytesize) * 8) as usize)
    }
}
impl FromSpecImpl<ByteSize> for BitWidth {
    open spec fn obeys_from_spec() -> bool { true }
    open spec fn from_spec(b: ByteSize) -> BitWidth { BitWidth { n: if b.0 <= MAXBYTES() { (b.0 * 8) as usize } else { 0 } } }
}
// ---- extracted fn ir::impl From<apint::BitWidth> for ByteSize::from ----
impl From < BitWidth > for ByteSize {
    fn from( bitwidth : BitWidth ) -> (r: ByteSize)
    {
        verif_assume_or_diverge(bitwidth.n <= 0x1000_0000);
        ByteSize::new((bitwidth.to_usize() + 7) as u64 / 8)
    }
}
impl FromSpecImpl<BitWidth> for ByteSize {
    open spec fn obeys_from_spec() -> bool { true }
    open spec fn from_spec(b: BitWidth) -> ByteSize { ByteSize(((b.n + 7) / 8) as u64) }
}
// ---- extracted fn bv::impl BitvectorExtended for Bitvector::into_resize_unsigned ----
impl Bitvector {
    fn into_resize_unsigned( self , size : ByteSize ) -> (r: Bitvector)
    requires self.wf(), 1 <= size.0 <= MAXBYTES(),
    ensures r.wf(),
    {
        if self.width() < size.into() {
            self.into_zero_extend(size).unwrap()
        } else {
            self.into_truncate(size).unwrap()
        }
    }
}

} // verus!
fn main() {}
