"""Mechanical extraction + assembly of a verification unit.

unit file (contracts/<unit>.vc)  +  /repo sources  ->  build/<unit>.rs

The unit file names the /repo functions and types to pull out *verbatim*, and
carries only additive material: contracts, loop invariants (by loop ordinal),
closure headers (by closure ordinal), proof hints (insert-only, anchored at a
quoted statement), declared substitutions (rule R9).  Everything that touches
the extracted text is a numbered rule and is logged per application.

Directive syntax (one directive per `@` line, block = following lines up to the
next line starting with `@`):

  @unit NAME
  @file ALIAS PATH                 source file below /repo
  @include PATH                    verus text below /verif (shim / spec / lemmas)
  @use PATH [as MOD]               import another unit (types / spec text / lemmas verbatim, functions as external_body + contract).
                                   `as MOD`: its not-yet-seen entries go into `pub mod MOD` (no glob re-export) instead of
                                   `mod verif_imported` -- for two units that define items of the same name (restated traits)
  @strip PREFIX                    R11: drop this path prefix in extracted code (e.g. `apint::`)
  @raw                             block: verus text emitted here (spec glue); counted as spec text
  @type ALIAS::NAME [keep-derives] extract a struct / enum definition
  @const ALIAS::NAME [pub] [drop-field=F] extract a const / static item (R13, R14; R13b drops the field initialiser `F: ..`)
  @fn ALIAS::IMPLHEADER::NAME      (IMPLHEADER = normalised impl header, `-` for a free fn,
                                    `trait X` for a default method of trait X)
     @into HEADER                  emit inside `HEADER { .. }` (default: own impl header; R2 when it differs)
     @ret NAME                     name the return value   -> (NAME: T)
     @self TYPE                    replace `Self` in the signature by TYPE (needed with R2 for traits)
     @attr TEXT                    extra attribute line
     @assume_entry COND            insert `verif_assume_or_diverge(COND);` at body start (logged assumption)
     @spec                         block: requires / ensures / decreases
     @loop N                       block: invariant / decreases for the N-th loop of the body
     @closure N                    block: replacement header `|x: T| -> (r: U) requires .. ensures ..`
     @hint after|before            block: anchor text, a line `@@`, then proof text
     @subst [optional]             block: pattern, a line `@@`, then replacement  ($1..$9 = holes)   [R9]
                                   (`optional`: an absent pattern is skipped and logged, not undecided)
     @nobody                       keep signature+contract, drop the body (external_body): listed as TRUSTED
     @split EXPR : V1 V2 ..        diagnosis only: on a failed obligation re-verify once per case `EXPR is Vi`
  @end
  @frag NAME from ALIAS::-::FN     R15: a STATEMENT inside the body of FN becomes the body of a new function NAME; takes the
     @params a: T, b: U            wrapper's parameter list (the free variables of the statement) and
     @pattern                      block: token pattern with $n holes, must match exactly ONCE inside the body of FN; the matched
                                   tokens (holes included) are the extracted text.  Then @spec / @subst / @loop / @closure / @hint
                                   / @attr / @ret as for @fn (the substitutions see the matched text only).
  @end
"""
import os
import re
import sys

from . import rustlex as rl
from . import rules

REPO = os.environ.get("VERIF_REPO", "/repo")
VERIF = os.path.dirname(os.path.dirname(os.path.abspath(__file__)))


class Undecided(Exception):
    """The machinery cannot bring the current tree into the verifier: exit 2, never an alarm."""


class FnSpec:
    def __init__(self, path):
        self.path = path
        self.into = None
        self.ret = None
        self.selfty = None
        self.attrs = []
        self.assume_entry = []
        self.spec = ""
        self.loops = {}
        self.closures = {}
        self.hints = []     # (where, anchor, text)
        self.substs = []    # (pattern, replacement)
        self.optional_substs = set()   # patterns of `@subst optional`
        self.nobody = False
        self.pub = True
        self.split = None
        self.imported = None   # name of the unit that proves this function (when pulled in by @use)
        self.optional = False  # @optional: the function need not exist in /repo (a possible override of a trait default)
        self.unless = None     # @unless PATH: skip this entry when the function PATH exists in /repo (trait default vs override)
        self.frag_name = None  # @frag: name of the wrapper function ...
        self.frag_of = None    # ... path of the function whose body holds the statement ...
        self.params = ""       # ... the wrapper's parameter list ...
        self.pattern = None    # ... and the pattern that locates the statement (rule R15)


class Unit:
    def __init__(self):
        self.name = None
        self.files = {}
        self.entries = []    # ("include", path) | ("raw", text) | ("type", path, opts) | ("fn", FnSpec) | ("const", path)
        self.strips = []
        self.seen = set()
        self.imported_ids = set()   # entries pulled in by @use: emitted in `mod verif_imported`, not re-verified
        self.import_mod = {}        # id(entry) -> module name for entries pulled in by `@use PATH as MOD`


def parse_unit(path):
    u = Unit()
    lines = open(path).read().split("\n")
    i = 0
    cur = None

    def block(i):
        out = []
        while i < len(lines) and not lines[i].startswith("@"):
            out.append(lines[i])
            i += 1
        return "\n".join(out).strip("\n"), i

    def block2(i):
        """block with a `@@` separator line"""
        a = []
        while i < len(lines) and lines[i].strip() != "@@":
            a.append(lines[i])
            i += 1
        i += 1
        b, i = block(i)
        return "\n".join(a).strip("\n"), b, i

    while i < len(lines):
        ln = lines[i]
        if not ln.startswith("@"):
            i += 1
            continue
        parts = ln.split(None, 1)
        d = parts[0]
        arg = parts[1].strip() if len(parts) > 1 else ""
        i += 1
        if d == "@unit":
            u.name = arg
        elif d == "@file":
            a, p = arg.split()
            u.files[a] = p
        elif d == "@include":
            if ("include", arg) not in u.seen:
                u.seen.add(("include", arg))
                u.entries.append(("include", arg))
        elif d == "@use":
            use_mod = None
            m_use = re.match(r"(\S+)\s+as\s+(\w+)$", arg)
            if m_use:
                arg, use_mod = m_use.group(1), m_use.group(2)
            sub = parse_unit(os.path.join(VERIF, arg))
            for a, pth in sub.files.items():
                if a in u.files and u.files[a] != pth:
                    raise SystemExit("%s: file alias %s clashes with %s" % (path, a, arg))
                u.files[a] = pth
            for s_ in sub.strips:
                if s_ not in u.strips:
                    u.strips.append(s_)
            for e in sub.entries:
                key = (e[0], e[1].path if e[0] == "fn" else e[1])
                if key in u.seen:
                    continue
                u.seen.add(key)
                u.imported_ids.add(id(e))
                if use_mod or id(e) in sub.import_mod:
                    u.import_mod[id(e)] = use_mod or sub.import_mod[id(e)]
                if e[0] == "fn":
                    e[1].imported = sub.name
                    e[1].hints = []
                    e[1].loops = {}
                    e[1].closures = {}
                    e[1].substs = []
                    e[1].assume_entry = []
                u.entries.append(e)
        elif d == "@strip":
            u.strips.append(arg)
        elif d == "@raw":
            text, i = block(i)
            u.entries.append(("raw", text))
        elif d == "@type":
            bits = arg.split(None, 1)
            u.entries.append(("type", bits[0], bits[1] if len(bits) > 1 else ""))
        elif d == "@const":
            u.entries.append(("const", arg))
        elif d == "@fn":
            cur = FnSpec(arg)
            u.entries.append(("fn", cur))
        elif d == "@frag":
            m_ = re.match(r"(\w+)\s+from\s+(\S.*)$", arg)
            if not m_:
                raise SystemExit("%s:%d: expected `@frag NAME from ALIAS::-::FN`" % (path, i))
            cur = FnSpec("fragment %s of %s" % (m_.group(1), m_.group(2).strip()))
            cur.frag_name, cur.frag_of = m_.group(1), m_.group(2).strip()
            u.entries.append(("fn", cur))
        elif d == "@end":
            cur = None
        elif cur is None:
            raise SystemExit("%s:%d: directive %s outside @fn" % (path, i, d))
        elif d == "@into":
            cur.into = arg
        elif d == "@ret":
            cur.ret = arg
        elif d == "@params":
            cur.params = arg
        elif d == "@pattern":
            cur.pattern, i = block(i)
        elif d == "@self":
            cur.selfty = arg
        elif d == "@attr":
            cur.attrs.append(arg)
        elif d == "@assume_entry":
            cur.assume_entry.append(arg)
        elif d == "@spec":
            cur.spec, i = block(i)
        elif d == "@loop":
            cur.loops[int(arg)], i = block(i)
        elif d == "@closure":
            cur.closures[int(arg)], i = block(i)
        elif d == "@hint":
            if arg == "entry":
                b, i = block(i)
                cur.hints.append(("entry", "", b))
            else:
                a, b, i = block2(i)
                cur.hints.append((arg or "after", a, b))
        elif d == "@subst":
            a, b, i = block2(i)
            cur.substs.append((a, b))
            if arg == "optional":
                # `@subst optional`: a pattern that no longer occurs is skipped (logged) instead of ending the run undecided;
                # the text then stays as extracted and only the automatic rules apply to it
                cur.optional_substs.add(a)
        elif d == "@nobody":
            cur.nobody = True
        elif d == "@optional":
            cur.optional = True
        elif d == "@unless":
            cur.unless = arg
        elif d == "@split":
            expr, vs = arg.split(":", 1)
            cur.split = (expr.strip(), vs.split())
        else:
            raise SystemExit("%s:%d: unknown directive %s" % (path, i, d))
    return u


class Source:
    cache = {}

    def __init__(self, relpath):
        self.path = os.path.join(REPO, relpath)
        if not os.path.exists(self.path):
            raise Undecided("source file %s is gone" % relpath)
        self.text = open(self.path).read()
        try:
            self.toks = rl.lex(self.text)
            self.items = rl.parse_items(self.toks)
        except Exception as e:  # lexer trouble on an edited tree is not an alarm
            raise Undecided("cannot lex/parse %s: %s" % (relpath, e))

    @classmethod
    def get(cls, relpath):
        if relpath not in cls.cache:
            cls.cache[relpath] = Source(relpath)
        return cls.cache[relpath]

    def find_item(self, kinds, name):
        # also look into `mod x { ... }`? not needed for the anchored files.
        hits = [it for it in self.items if it.kind in kinds and it.name == name]
        if len(hits) != 1:
            raise Undecided("%s: expected exactly one %s `%s`, found %d" % (self.path, "/".join(kinds), name, len(hits)))
        return hits[0]

    def find_fn(self, implheader, name):
        if implheader == "-":
            return self.find_item(("fn",), name), None
        want = rl.norm(implheader)
        kinds = ("trait",) if want.startswith("trait ") else ("impl",)
        conts = []
        for it in self.items:
            if it.kind not in kinds or it.body is None:
                continue
            if it.kind == "impl":
                hdr = rl.norm(it.toks[it.start:it.body[0]])
                # strip leading visibility / unsafe
                hdr = re.sub(r"^(unsafe )?", "", hdr)
                if hdr == want:
                    conts.append(it)
            else:
                if "trait " + it.name == want:
                    conts.append(it)
        hits = []
        for c in conts:
            for sub in rl.parse_items(c.toks, c.body[0] + 1, c.body[1]):
                if sub.kind == "fn" and sub.name == name:
                    hits.append((sub, c))
        if len(hits) != 1:
            raise Undecided("%s: expected exactly one fn `%s` in `%s`, found %d" % (self.path, name, implheader, len(hits)))
        return hits[0]


def split_fn_path(p):
    # ALIAS::IMPLHEADER::NAME ; IMPLHEADER may contain `::` itself, so split at first and last
    a, rest = p.split("::", 1)
    hdr, name = rest.rsplit("::", 1)
    return a.strip(), hdr.strip(), name.strip()


def rewrite_signature(head_toks, fs, log):
    """fn signature tokens (from qualifiers up to, not including, the body `{`)."""
    toks = [t for t in head_toks if t.kind not in ("doc",)]
    sigt = rl.sig(toks)
    # locate parameter list: first '(' after `fn NAME [<generics>]`
    idx = next(i for i, t in enumerate(sigt) if t.kind == "ident" and t.text == "fn")
    j = idx + 2
    if sigt[j].text == "<":
        depth = 0
        while True:
            if sigt[j].text == "<":
                depth += 1
            elif sigt[j].text == ">":
                depth -= 1
            elif sigt[j].text == ">>":
                depth -= 2
            j += 1
            if depth == 0:
                break
    assert sigt[j].text == "(", "cannot find parameter list"
    close = rl.match_close(sigt, j)
    pre = " ".join(t.text for t in sigt[:j])
    params = " ".join(t.text for t in sigt[j:close + 1])
    rest = sigt[close + 1:]
    ret, where = "", ""
    if rest and rest[0].text == "->":
        k = 1
        depth = 0
        while k < len(rest):
            t = rest[k]
            if t.text in ("(", "[", "<"):
                depth += 1
            elif t.text in (")", "]", ">"):
                depth -= 1
            elif t.text == ">>":
                depth -= 2
            elif t.kind == "ident" and t.text == "where" and depth == 0:
                break
            k += 1
        ret = " ".join(t.text for t in rest[1:k])
        where = " ".join(t.text for t in rest[k:])
    else:
        where = " ".join(t.text for t in rest)
    if fs.selfty:
        ret = re.sub(r"\bSelf\b", fs.selfty, ret)
        params = re.sub(r"\bSelf\b", fs.selfty, params)
    out = pre + params
    if ret:
        out += " -> (%s: %s)" % (fs.ret or "verif_ret", ret)
    if where:
        out += " " + where
    return out


def find_loops(btoks):
    """indices (into btoks) of loop keywords in source order, with the index of the body `{`."""
    res = []
    n = len(btoks)
    for i, t in enumerate(btoks):
        if t.kind == "ident" and t.text in ("while", "for", "loop"):
            # `for` in `for<'a>` HRTB or impl headers does not occur inside bodies we extract
            j = i + 1
            while j < n:
                tj = btoks[j]
                if tj.kind == "punct" and tj.text in ("(", "["):
                    j = rl.match_close(btoks, j) + 1
                    continue
                if tj.kind == "punct" and tj.text == "{":
                    break
                j += 1
            if j < n:
                res.append((i, j))
    return res


def find_closures(btoks):
    """(start, end_of_header) for closures `|args| ` / `move |args|` in source order.
    A `|` starts a closure when the previous significant token cannot end an expression."""
    res = []
    sig_idx = [i for i, t in enumerate(btoks) if t.kind not in ("ws", "comment", "doc")]
    pos = {i: k for k, i in enumerate(sig_idx)}
    k = 0
    while k < len(sig_idx):
        i = sig_idx[k]
        t = btoks[i]
        if t.kind == "punct" and t.text in ("|", "||"):
            prev = btoks[sig_idx[k - 1]] if k > 0 else None
            starts = prev is None or (prev.kind == "punct" and prev.text in ("(", ",", "=", "{", ";", "=>", "[")) \
                or (prev.kind == "ident" and prev.text in ("move", "return"))
            if starts:
                if t.text == "||":
                    res.append((i, i))
                else:
                    # find the closing `|`
                    m = k + 1
                    while not (btoks[sig_idx[m]].kind == "punct" and btoks[sig_idx[m]].text == "|"):
                        if btoks[sig_idx[m]].text in ("(", "[", "{"):
                            m = pos[rl.match_close(btoks, sig_idx[m])]
                        m += 1
                    res.append((i, sig_idx[m]))
                    k = m
        k += 1
    return res


def apply_insertions(btoks, ins):
    """ins: list of (token_index, 'before'|'after'|'replace_to:<idx>', text). Returns text."""
    before, after, repl = {}, {}, {}
    for idx, how, text in ins:
        if how == "before":
            before.setdefault(idx, []).append(text)
        elif how == "after":
            after.setdefault(idx, []).append(text)
        else:
            repl[idx] = (int(how.split(":")[1]), text)
    out = []
    i = 0
    while i < len(btoks):
        if i in repl:
            end, text = repl[i]
            out.append(text)
            i = end + 1
            continue
        for tx in before.get(i, []):
            out.append(tx)
        out.append(btoks[i].text)
        for tx in after.get(i, []):
            out.append(tx)
        i += 1
    return "".join(out)


def find_anchor(btoks, anchor):
    """token index range (first, last) of the first occurrence of `anchor` (normalised)."""
    want = [t.text for t in rl.sig(rl.lex(anchor))]
    sig_idx = [i for i, t in enumerate(btoks) if t.kind not in ("ws", "comment", "doc")]
    texts = [btoks[i].text for i in sig_idx]
    hits = []
    for s in range(len(texts) - len(want) + 1):
        if texts[s:s + len(want)] == want:
            hits.append((sig_idx[s], sig_idx[s + len(want) - 1]))
    return hits


def fn_exists(u, path):
    """does /repo (still) have the function `path`?  (0 hits -> False; any other lookup problem is raised)"""
    alias, hdr, name = split_fn_path(path)
    src = Source.get(u.files[alias])
    try:
        src.find_fn(hdr, name)
        return True
    except Undecided as e:
        if str(e).endswith("found 0"):
            return False
        raise


def build_fn(u, fs, log, probe=False):
    alias, hdr, name = split_fn_path(fs.frag_of or fs.path)
    src = Source.get(u.files[alias])
    item, cont = src.find_fn(hdr, name)
    if item.body is None:
        raise Undecided("fn %s has no body" % fs.path)
    head = rules.apply_token_rules(list(item.toks[item.start:item.body[0]]), u.strips, fs.path, log, body=False)
    sig_text = rewrite_signature(head, fs, log)
    if cont is not None and not re.match(r"\s*pub\b", sig_text) and fs.into and not fs.into.startswith("impl") is False:
        pass
    btoks = list(item.body_toks())
    # R9 substitutions first (they work on the pristine token stream)
    body_text = rl.text_of(btoks)
    if fs.frag_name:
        # R15 fragment: the statement located by the pattern (exactly one match inside the body of the named function) is
        # the body of a new function `frag_name(params)`; its tokens are the extracted text, holes included.  What is then
        # verified is the STATEMENT for all values of its free variables (the parameters); when and with which values the
        # enclosing function executes it is not part of the claim.
        mark = "verif_fragment_mark_0"
        marked, n = rules.subst(body_text, fs.pattern or "", mark)
        if n != 1 or marked.count(mark) != 1:
            raise Undecided("R15 pattern of %s: expected exactly one match in %s, found %d" % (fs.frag_name, fs.frag_of, n))
        pre, post = marked.split(mark)
        if not (body_text.startswith(pre) and body_text.endswith(post) and len(pre) + len(post) <= len(body_text)):
            raise Undecided("R15 pattern of %s: cannot delimit the matched text" % fs.frag_name)
        body_text = "\n" + body_text[len(pre):len(body_text) - len(post)] + "\n"
        log.append({"rule": "R15 fragment", "fn": fs.path, "of": fs.frag_of, "pattern": " ".join((fs.pattern or "").split()),
                    "params": fs.params, "text": " ".join(body_text.split())[:400],
                    "substitutions": [" ".join(a.split()) + " -> " + " ".join(b.split()) for a, b in fs.substs]})
        name, cont = fs.frag_name, None
        sig_text = "fn %s(%s)" % (fs.frag_name, fs.params) + ((" -> (%s)" % fs.ret) if fs.ret else "")
    for pat, rep in fs.substs:
        body_text, n = rules.subst(body_text, pat, rep)
        if n == 0 and pat in fs.optional_substs:
            log.append({"rule": "R9-skipped", "fn": fs.path, "pattern": " ".join(pat.split()), "note": "optional pattern absent"})
            continue
        if n == 0:
            raise Undecided("R9 pattern not found in %s: %s" % (fs.path, pat.strip()[:60]))
        log.append({"rule": "R9", "fn": fs.path, "pattern": " ".join(pat.split()), "replacement": " ".join(rep.split()), "count": n})
    btoks = rl.lex(body_text)
    # R12: `mut self` receiver (unsupported by Verus): receiver becomes `self`, the body works on a
    # mutable local copy named verif_self (every `self` token of the body is renamed)
    mut_self = False
    if re.search(r"\(\s*mut self\b", sig_text):
        sig_text = re.sub(r"\(\s*mut self\b", "( self", sig_text, count=1)
        for t in btoks:
            if t.kind == "ident" and t.text == "self":
                t.text = "verif_self"
        mut_self = True
        log.append({"rule": "R12", "fn": fs.path})
    # token rules
    btoks = rules.apply_token_rules(btoks, u.strips, fs.path, log)
    # positional insertions
    ins = []
    loops = find_loops(btoks)
    for n, text in fs.loops.items():
        if n > len(loops):
            raise Undecided("loop %d not found in %s" % (n, fs.path))
        ins.append((loops[n - 1][1], "before", "\n" + text + "\n"))
    cls = find_closures(btoks)
    for n, text in fs.closures.items():
        if n > len(cls):
            raise Undecided("closure %d not found in %s" % (n, fs.path))
        a, b = cls[n - 1]
        ins.append((a, "replace_to:%d" % b, text + " "))
        log.append({"rule": "R10", "fn": fs.path, "closure": n})
        # R10b: a closure header with a declared return type needs a block body (Rust syntax): an expression
        # body `|x| e` becomes `|x| -> (r: T) .. { e }`.  The tokens of `e` are untouched.
        if "->" in text:
            j = b + 1
            while j < len(btoks) and btoks[j].kind in ("ws", "comment", "doc"):
                j += 1
            if j < len(btoks) and not (btoks[j].kind == "punct" and btoks[j].text == "{"):
                first = j
                last = None
                while j < len(btoks):
                    t = btoks[j]
                    if t.kind == "punct" and t.text in rl.OPEN:
                        j = rl.match_close(btoks, j)
                    elif t.kind == "punct" and (t.text in rl.CLOSE or t.text in (",", ";")):
                        break
                    if btoks[j].kind not in ("ws", "comment", "doc"):
                        last = j
                    j += 1
                if last is None:
                    raise Undecided("closure %d of %s: cannot delimit the expression body" % (n, fs.path))
                ins.append((first, "before", "{ "))
                ins.append((last, "after", " }"))
                log.append({"rule": "R10b", "fn": fs.path, "closure": n})
    lost = []
    entry_hints = ""
    for where, anchor, text in fs.hints:
        if where == "entry":
            entry_hints += "\n" + text + "\n"
            continue
        hits = find_anchor(btoks, anchor)
        if not hits:
            lost.append(anchor)
            continue
        a, b = hits[0]
        last = btoks[b].text
        if where == "after":
            if last not in (";", "{", "}"):
                raise SystemExit("hint anchor must end at a statement boundary: %r" % anchor)
            ins.append((b, "after", "\n" + text + "\n"))
        else:
            ins.append((a, "before", "\n" + text + "\n"))
    body = apply_insertions(btoks, ins)
    entry = "".join("\n        verif_assume_or_diverge(%s);" % c for c in fs.assume_entry)
    for c in fs.assume_entry:
        log.append({"rule": "assume_entry", "fn": fs.path, "cond": c})
    attr_list = list(fs.attrs)
    has_dec = "decreases" in fs.spec or any("decreases" in t for t in fs.loops.values())
    if not has_dec and not any("exec_allows_no_decreases_clause" in a for a in attr_list):
        # termination is claimed only where the unit gives a `decreases`; elsewhere a (newly) recursive or looping
        # body is still verified for partial correctness instead of being rejected ("undecided")
        attr_list.append("#[verifier::exec_allows_no_decreases_clause]")
    attrs = "".join("    %s\n" % a for a in attr_list)
    spec = ("\n" + fs.spec + "\n") if fs.spec.strip() else "\n"
    if fs.imported:
        # imported declarations live in `mod verif_imported`: make them visible to the importing unit
        tgt = fs.into or (rl.norm(cont.toks[cont.start:cont.body[0]]) if (cont is not None and cont.kind == "impl") else "")
        # (no `pub` inside a trait: a default method extracted `@into pub trait X` -- first needed when unit domain_map was imported)
        if " for " not in rl.norm(tgt) and not re.match(r"\s*(pub\s+)?trait\b", rl.norm(tgt)) and not re.match(r"\s*pub\b", sig_text):
            sig_text = "pub " + sig_text
        fn_text = "%s    #[verifier::external_body] // proved in unit `%s`\n    %s%s    { unimplemented!() }\n" % (attrs, fs.imported, sig_text, spec)
        log.append({"rule": "import", "fn": fs.path, "unit": fs.imported})
    elif fs.nobody:
        fn_text = "%s    #[verifier::external_body]\n    %s%s    { unimplemented!() }\n" % (attrs, sig_text, spec)
        log.append({"rule": "nobody", "fn": fs.path})
    else:
        if mut_self:
            body = "\n        let mut verif_self = self;" + body
        fn_text = "%s    %s%s    {%s%s%s}\n" % (attrs, sig_text, spec, entry, entry_hints, body)
        if probe and "ensures" in fs.spec and not fs.imported:
            # vacuity probe twin: same requires, same body, `ensures false`; must FAIL to verify.
            psig = re.sub(r"\bfn\s+%s\b" % re.escape(name), "fn %s__probe" % name, sig_text, count=1)
            pspec = "\n" + rules.probe_spec(fs.spec) + "\n"
            fn_text += "// ---- probe twin %s ----\n%s    %s%s    {%s%s%s}\n// ---- end probe twin ----\n" % (
                fs.path, attrs, psig, pspec, entry, entry_hints, body)
    # container
    own = None
    if cont is not None:
        own = rl.norm(rules.apply_token_rules(list(cont.toks[cont.start:cont.body[0]]), u.strips, fs.path, log, body=False)) if cont.kind == "impl" else None
    into = fs.into or own
    if into is None or into == "-":
        if cont is not None and cont.kind == "trait":
            raise SystemExit("%s: trait default method needs @into" % fs.path)
        out = fn_text
    else:
        if own is not None and rl.norm(into) != own:
            log.append({"rule": "R2", "fn": fs.path, "from": own, "into": rl.norm(into)})
        if cont is not None and cont.kind == "trait":
            log.append({"rule": "R2", "fn": fs.path, "from": "trait " + cont.name + " (default method)", "into": rl.norm(into)})
        out = "%s {\n%s}\n" % (into, fn_text)
    return out, lost, (item, src)


KEEP_DERIVES = ("Clone", "Copy", "PartialEq", "Eq", "Debug")


def build_type(u, path, opts, log):
    alias, name = path.split("::", 1)
    src = Source.get(u.files[alias])
    it = src.find_item(("struct", "enum"), name)
    derives = []
    for a in it.attrs:
        m = re.match(r"# \[ derive \( (.*) \) \]", a)
        if m:
            for d in m.group(1).split(","):
                d = d.strip()
                if d in KEEP_DERIVES:
                    derives.append(d)
    if "no-derives" in opts:
        derives = []
    if "derive=" in opts:
        derives = [d for d in re.search(r"derive=(\S*)", opts).group(1).split(",") if d]
    toks = [t for t in it.toks[it.start:it.end] if t.kind != "doc"]
    # drop field attributes like #[serde(...)]
    text = rules.drop_attributes(toks)
    toks2 = rules.apply_token_rules(rl.lex(text), u.strips, path, log, body=False)
    text = rl.text_of(toks2)
    if "pub-fields" in opts:
        text = rules.make_fields_pub(text)
    log.append({"rule": "R1", "item": path, "kept_derives": derives})
    d = ("#[derive(%s)]\n" % ", ".join(derives)) if derives else ""
    return d + text + "\n"


def build_const(u, path, log):
    path, *opts = path.split()
    alias, name = path.split("::", 1)
    src = Source.get(u.files[alias])
    it = src.find_item(("const", "static"), name)
    toks = [t for t in it.toks[it.start:it.end] if t.kind != "doc"]
    text = rl.text_of(toks)
    # R14: an elided reference lifetime in the TYPE of a const / static is `'static` (Rust reference, "static lifetime
    # elision"); Verus turns such an item into a function and then wants the lifetime spelled out.
    m = re.match(r"(\s*(?:pub(?:\s*\([^)]*\))?\s+)?(?:const|static)\s+\w+\s*:)([^=]+)(=.*)$", text, re.S)
    if m and re.search(r"&(?!\s*')", m.group(2)):
        ty = re.sub(r"&(?!\s*')\s*", "&'static ", m.group(2))
        log.append({"rule": "R14", "item": path, "type": m.group(2).strip(), "as": ty.strip()})
        text = m.group(1) + ty + m.group(3)
    for o in opts:
        # R13b `drop-field=F`: the initialiser is a struct literal `T { .., F: EXPR, .. }` of a type that the unit restates
        # WITHOUT its field F (a function pointer, which Verus cannot type): the field initialiser is removed, everything
        # else stays the extracted text.  Logged with the dropped text; what F held is then not part of any claim.
        if o == "pub":
            # a private const named in the `ensures` of a public exec static must be visible (as `@type .. pub-fields`)
            if not re.match(r"\s*pub\b", text):
                text = "pub " + text.lstrip()
            continue
        if not o.startswith("drop-field="):
            raise SystemExit("@const %s: unknown option %s" % (path, o))
        fld = o.split("=", 1)[1]
        text2, n = re.subn(r"(?<![\w.])%s\s*:\s*[^,{}]+,?" % re.escape(fld), "", text)
        if n != 1:
            raise Undecided("%s: expected exactly one field initialiser `%s: ..` to drop, found %d" % (path, fld, n))
        log.append({"rule": "R13b", "item": path, "dropped": re.search(r"(?<![\w.])%s\s*:\s*[^,{}]+" % re.escape(fld), text).group(0).strip()})
        text = text2
    if it.kind == "static":
        # R13: Verus wants an immutable static as `exec static N: T ensures N == E { E }`; the type T and the
        # initialiser E are the extracted tokens, so a changed value in /repo changes the verified text.
        m = re.match(r"\s*(pub(?:\s*\([^)]*\))?\s+)?static\s+(?!mut\b)(\w+)\s*:\s*([^=]+?)\s*=\s*(.*?)\s*;?\s*$", text, re.S)
        if not m:
            raise Undecided("static %s: not of the form `static NAME: T = EXPR;`" % path)
        vis, nm, ty, init = m.group(1) or "", m.group(2), m.group(3), m.group(4)
        log.append({"rule": "R13", "item": path, "type": ty, "init": init})
        return "%sexec static %s: %s ensures %s == (%s) { %s }\n" % (vis, nm, ty, nm, init, init)
    return text + "\n"


HEADER = """#![allow(unused_imports, unused_variables, unused_mut, dead_code, non_snake_case, unused_parens, unused_assignments, unreachable_code, unused_braces)]
use vstd::prelude::*;
use vstd::std_specs::ops::*;
use vstd::std_specs::cmp::*;
use vstd::std_specs::convert::*;
verus! {
global size_of usize == 8;
"""
FOOTER = """
} // verus!
fn main() {}
"""


def assemble(unit_path, probe=False, no_hints=False, extra_requires=None, extra_fns=None):
    """Returns (text, info). probe=True adds `ensures false` twins.  extra_fns: paths of helper functions that the
    extracted code calls but the unit does not list (appeared in /repo after the unit was written): they are
    extracted verbatim without a contract, so callers see no postcondition."""
    u = parse_unit(unit_path)
    for pth in (extra_fns or []):
        fs_x = FnSpec(pth)
        fs_x.auto = True
        u.entries.append(("fn", fs_x))
    log = []
    lost = []
    parts = [HEADER]
    fns = []
    includes = []
    MOD_HEAD = "pub mod %s {\nuse vstd::prelude::*;\nuse vstd::std_specs::ops::*;\nuse vstd::std_specs::cmp::*;\nuse vstd::std_specs::convert::*;\nuse super::*;\n"
    imported = [e for e in u.entries if id(e) in u.imported_ids and id(e) not in u.import_mod]
    own = [e for e in u.entries if id(e) not in u.imported_ids]
    # `@use PATH as MOD`: one module per MOD, after `mod verif_imported`, not glob re-exported (markers: ("modopen", MOD) / ("modclose", MOD))
    named = []
    for mod_ in dict.fromkeys(u.import_mod.values()):
        named.append(("modopen", mod_))
        named += [e for e in u.entries if u.import_mod.get(id(e)) == mod_]
        named.append(("modclose", mod_))
    if imported:
        # material proved in other units: its own module, excluded from verification by --verify-root
        parts.append(MOD_HEAD % "verif_imported")
    for e in imported + [None] + named + own:
        if e is not None and e[0] == "modopen":
            parts.append(MOD_HEAD % e[1])
            continue
        if e is not None and e[0] == "modclose":
            parts.append("} // mod %s\n" % e[1])
            continue
        if e is None:
            if imported:
                parts.append("} // mod verif_imported\npub use verif_imported::*;\n")
                # explicit re-exports of imported free functions: they win over glob imports of equally named vstd items
                for ie in imported:
                    if ie[0] == "fn" and ie[1].frag_name:
                        parts.append("pub use verif_imported::%s;\n" % ie[1].frag_name)
                    elif ie[0] == "fn":
                        a_, hdr_, name_ = split_fn_path(ie[1].path)
                        if hdr_ == "-":
                            parts.append("pub use verif_imported::%s;\n" % name_)
            continue
        if e[0] == "include":
            includes.append(e[1])
            parts.append("// ======== include %s ========\n" % e[1])
            parts.append(open(os.path.join(VERIF, e[1])).read())
        elif e[0] == "raw":
            parts.append(e[1] + "\n")
        elif e[0] == "type":
            parts.append("// ---- extracted type %s ----\n" % e[1])
            parts.append(build_type(u, e[1], e[2], log))
        elif e[0] == "const":
            parts.append(build_const(u, e[1], log))
        elif e[0] == "fn":
            fs = e[1]
            if fs.optional and not fn_exists(u, fs.path):
                log.append({"rule": "optional-absent", "fn": fs.path, "note": "no such function in /repo: entry skipped (the contract waits for an override)"})
                continue
            if fs.unless and fn_exists(u, fs.unless):
                log.append({"rule": "unless-present", "fn": fs.path, "note": "skipped: %s exists and is verified instead" % fs.unless})
                continue
            if no_hints:
                fs.hints = []
            if extra_requires and fs.path in extra_requires:
                fs.spec = rules.add_requires(fs.spec, extra_requires[fs.path])
            text, l, _ = build_fn(u, fs, log, probe=probe)
            lost += [(fs.path, a) for a in l]
            if fs.imported:
                parts.append("// ---- imported fn %s (unit %s) ----\n" % (fs.path, fs.imported))
            else:
                parts.append(("// ---- extracted %s ----\n" if fs.frag_name else "// ---- extracted fn %s ----\n") % fs.path)
                fns.append(fs)
            parts.append(text)
    parts.append(FOOTER)
    info = {"unit": u.name, "log": log, "lost_anchors": lost, "fns": fns, "includes": includes,
            "files": dict(u.files)}
    return "".join(parts), info


if __name__ == "__main__":
    text, info = assemble(sys.argv[1], probe="--probe" in sys.argv[2:])
    sys.stdout.write(text)
