"""./check <PROPERTY> [--tier quick|thorough] [--replay FILE]

Decides one property by contract-based deductive verification of the functions it depends on:
extract from /repo (current working tree) -> assemble with contracts -> Verus -> classify.
exit 0: every obligation discharged (and the vacuity probe fails everywhere)
exit 1: an obligation that is generated from /repo's source fails -> `VIOLATION property=<id> replay=<path>`
exit 2: undecided (the machinery could not bring the tree into the verifier, resource limit, lost anchor)
"""
import concurrent.futures as cf
import json
import os
import re
import subprocess
import sys
import time

from . import assemble as A
from . import props as P
from . import run_verus as RV

VERIF = A.VERIF
# with VERIF_REPO=<scratch tree> all outputs go next to that tree: evidence/, build/, replays/ of /verif describe /repo only
_OUT = VERIF if A.REPO == "/repo" else A.REPO.rstrip("/") + "__verif_out"
BUILD = os.path.join(_OUT, "build")
REPLAYS = os.path.join(_OUT, "replays")
EVID = os.path.join(_OUT, "evidence")
REPLAY_CRATE = os.path.join(VERIF, "replay")
# VERIF_REPO=<scratch tree> (seeded-change runs, mutation tests): the replay crate is built against that tree's
# cwe_checker_lib (cargo `paths` override) into a target directory next to it, so /repo and replay/target stay untouched.
ALT_TARGET = None if A.REPO == "/repo" else os.path.join(A.REPO.rstrip("/") + "__replay_target")
REPLAY_BIN = os.path.join(ALT_TARGET or os.path.join(REPLAY_CRATE, "target"), "debug", "verif_replay")


def short(label):
    """`bv::impl BitvectorExtended for Bitvector::bin_op` -> `Bitvector::bin_op`"""
    if label.startswith("lemma:"):
        return label[6:]
    if label.startswith("fragment "):      # R15: `fragment NAME of ALIAS::-::FN` -> NAME (the wrapper's function name)
        return label.split()[1]
    body = label.split("::", 1)[1]
    hdr, name = body.rsplit("::", 1)
    hdr = hdr.strip()
    if hdr == "-":
        return name
    hdr = re.sub(r"^impl\s*(<[^>]*>)?\s*", "", hdr)
    hdr = re.sub(r"^trait\s+", "", hdr)
    if " for " in hdr:
        hdr = hdr.split(" for ", 1)[1]
    hdr = re.sub(r"<.*$", "", hdr).strip()
    hdr = hdr.split("::")[-1]
    return hdr + "::" + name


def build_replay_crate():
    lock_src = os.path.join(A.REPO, "Cargo.lock")
    lock_dst = os.path.join(REPLAY_CRATE, "Cargo.lock")
    if os.path.exists(lock_src) and not os.path.exists(lock_dst):
        import shutil
        shutil.copy(lock_src, lock_dst)
    env = dict(os.environ, CARGO_NET_OFFLINE="true")
    cmd = ["cargo", "build", "--offline", "-q"]
    if ALT_TARGET:
        env["CARGO_TARGET_DIR"] = ALT_TARGET
        cmd += ["--config", 'paths=["%s/src/cwe_checker_lib"]' % A.REPO.rstrip("/")]
    p = subprocess.run(cmd, cwd=REPLAY_CRATE, capture_output=True, text=True, env=env)
    if p.returncode != 0:
        return False, p.stderr[-2000:]
    return True, ""


def find_helper(unit, name):
    """a function `name` that extracted code calls but the unit does not list: look for it in the unit's source
    files (free fn, or a method of an impl block the unit already extracts from)."""
    u = A.parse_unit(os.path.join(VERIF, "contracts", unit + ".vc"))
    own = [(getattr(e[1], "frag_of", None) or e[1].path) for e in u.entries if e[0] == "fn"]
    hdrs = {}
    for pth in own:
        a, hdr, _ = A.split_fn_path(pth)
        hdrs.setdefault(a, set()).add(hdr)
    for alias, rel in u.files.items():
        try:
            src = A.Source.get(rel)
        except A.Undecided:
            continue
        for hdr in sorted(hdrs.get(alias, set())):
            try:
                src.find_fn(hdr, name)
                return "%s::%s::%s" % (alias, hdr, name)
            except A.Undecided:
                pass
        try:
            src.find_fn("-", name)
            return "%s::-::%s" % (alias, name)
        except A.Undecided:
            pass
    return None


def run_unit(prop, unit, probe=False, no_hints=False, extra_requires=None, only_fn=None, tag="", extra_fns=None, depth=0):
    path = os.path.join(VERIF, "contracts", unit + ".vc")
    A.Source.cache.clear()
    text, info = A.assemble(path, probe=probe, no_hints=no_hints, extra_requires=extra_requires, extra_fns=extra_fns)
    info["auto_extracted"] = list(extra_fns or [])
    out = os.path.join(BUILD, "%s%s%s.rs" % (unit, "_probe" if probe else "", tag))
    open(out, "w").write(text)
    # imported units live in `mod verif_imported` and are proved by their own unit: verify the root module only
    extra = ["--verify-root"]
    if only_fn:
        extra = ["--verify-root", "--verify-function", only_fn]
    res = RV.run(out, extra=extra)
    # a helper function that is new in /repo (not listed in the unit): extract it verbatim, without contract, and retry
    if res.undecided and depth < 3:
        m = re.search(r"no (?:method|function or associated item) named `(\w+)` found|cannot find function `(\w+)`", res.undecided + res.raw_err)
        if m:
            name = m.group(1) or m.group(2)
            pth = find_helper(unit, name)
            if pth and pth not in (extra_fns or []):
                return run_unit(prop, unit, probe, no_hints, extra_requires, only_fn, tag, (extra_fns or []) + [pth], depth + 1)
    # a resource limit in the main run: retry once with a ten times larger budget before calling it undecided
    if res.resource and not probe and depth < 10:
        res2 = RV.run(out, extra=extra, rlimit=100)
        if not res2.resource or res2.failures:
            res = res2
    spans = RV.map_lines_to_fns(text)
    for f in res.failures + res.resource:
        f["fn"] = RV.fn_at(spans, f["line"])
        f["unit"] = unit
    # a resource limit inside a vacuity-probe twin means `ensures false` could not be proved: that is the wanted outcome
    for f in res.resource:
        if probe:
            # the probe build is only consulted for its `ensures false` twins; the originals are judged by the main run
            if (f.get("fn") or "").startswith("probe:"):
                res.failures.append(f)
        elif not res.undecided:
            res.undecided = "resource limit in %s: %s" % (f.get("fn"), f["message"])
    return text, info, res


def unit_closure(units):
    seen, order = set(), []

    def visit(u):
        if u in seen:
            return
        seen.add(u)
        path = os.path.join(VERIF, "contracts", u + ".vc")
        for ln in open(path):
            if ln.startswith("@use "):
                dep = os.path.basename(ln.split()[1])[:-3]
                visit(dep)
        order.append(u)
    for u in units:
        visit(u)
    return order


def load_known():
    path = os.path.join(VERIF, "known_findings.txt")
    out = []
    if os.path.exists(path):
        for ln in open(path):
            ln = ln.strip()
            if ln.startswith("open:"):
                d = dict(re.findall(r"(\w+)=(\S+)", ln))
                d["line"] = ln
                out.append(d)
    return out


def bounded_fallback(prop, cfg, seed, reasons):
    """The deductive check is undecided (the edited text left Verus' subset, an anchor is gone, ...).  A bounded
    stand-in may still settle the question in one direction: if an executable twin finds a concrete input on
    which the real code contradicts the property, that input is a replayable counterexample.  Nothing found =>
    still undecided (never a pass)."""
    twins = cfg.get("default_twins", [])
    if not twins:
        return None
    ok, err = build_replay_crate()
    if not ok:
        return None
    for twin in twins:
        try:
            p = subprocess.run([REPLAY_BIN, "search", twin, "--seed", str(seed)], capture_output=True, text=True, timeout=240)
            v = json.loads(p.stdout.strip().split("\n")[-1])
        except Exception:
            continue
        if v.get("found"):
            rp = os.path.join(REPLAYS, "%s-bounded-%s.json" % (prop, twin.replace(".", "_")))
            rec = {"property": prop, "decided_by": "BOUNDED twin search (the deductive check was undecided)", "bounded": True,
                   "undecided_reasons": reasons, "obligation": ["executable twin of the contract disagrees with the real code"],
                   "twin": twin, "input": v.get("input"), "observed": v.get("observed", v.get("got")), "expected": v.get("expected"),
                   "replay_cmd": "./check %s --replay %s" % (prop, rp)}
            json.dump(rec, open(rp, "w"), indent=1)
            return (twin, rp)
    return None


def main(argv):
    if len(argv) < 2:
        print(__doc__)
        return 2
    prop = argv[1]
    tier = os.environ.get("VERIF_TIER", "quick")
    replay_file = None
    i = 2
    while i < len(argv):
        if argv[i] == "--tier":
            tier = argv[i + 1]
            i += 2
        elif argv[i] == "--replay":
            replay_file = argv[i + 1]
            i += 2
        else:
            i += 1
    seed = int(os.environ.get("VERIF_SEED", "1"))
    if replay_file:
        ok, err = build_replay_crate()
        if not ok:
            print("UNDECIDED: replay crate does not build against the current tree:\n" + err)
            return 2
        p = subprocess.run([REPLAY_BIN, "run", replay_file], capture_output=True, text=True)
        sys.stdout.write(p.stdout)
        return p.returncode
    if prop not in P.PROPS:
        print("property %s is not claimed by this machinery (see MANIFEST.json not_applicable)" % prop)
        return 2
    cfg = dict(P.PROPS[prop])
    # modularity rule: every unit whose contracts are imported (@use, transitively) is verified in the same run
    cfg["units"] = unit_closure(cfg["units"])
    os.makedirs(BUILD, exist_ok=True)
    os.makedirs(REPLAYS, exist_ok=True)
    os.makedirs(EVID, exist_ok=True)
    t0 = time.time()
    ev = {
        "property_id": prop, "tier": tier, "seed": seed, "level": "proof",
        "coverage": {"obligations": 0, "discharged": 0, "checker_cmd": "", "trusted_base": [], "samples": []},
        "assumptions": list(cfg.get("assumptions", [])), "wall_s": 0.0, "violations": 0,
    }
    cov = ev["coverage"]
    undecided = []
    violations = []
    known_hits = []

    def finish(code):
        ev["wall_s"] = round(time.time() - t0, 2)
        ev["violations"] = len(violations)
        if undecided:
            cov["undecided"] = undecided
        with open(os.path.join(EVID, prop + ".json"), "w") as f:
            json.dump(ev, f, indent=1)
        return code

    # ---- 1. assemble + verify + probe, all units in parallel ---------------------------------
    jobs = {}
    results = {}
    with cf.ThreadPoolExecutor(max_workers=8) as ex:
        for u in cfg["units"]:
            jobs[ex.submit(run_unit, prop, u, False)] = (u, "main")
            jobs[ex.submit(run_unit, prop, u, True)] = (u, "probe")
        for fut in cf.as_completed(jobs):
            u, kind = jobs[fut]
            try:
                results[(u, kind)] = fut.result()
            except A.Undecided as e:
                undecided.append("%s: %s" % (u, e))
            except Exception as e:  # machinery trouble is never an alarm
                undecided.append("%s: internal error %r" % (u, e))
    if undecided:
        for r in undecided:
            print("UNDECIDED:", r)
        fb = bounded_fallback(prop, cfg, seed, undecided)
        if fb:
            violations.append((fb[0], fb[1], True))
            cov["bounded_fallback"] = {"twin": fb[0], "replay": fb[1]}
            print("VIOLATION property=%s replay=%s function=%s (bounded twin search; deductive check undecided)" % (prop, fb[1], fb[0]))
            return finish(1)
        return finish(2)

    cmds = []
    fns_under_contract = []
    rules_applied = {}
    trusted = set()
    smt_ms = 0
    all_failures = []
    lost = []
    for u in cfg["units"]:
        text, info, res = results[(u, "main")]
        ptext, pinfo, pres = results[(u, "probe")]
        cmds.append(res.cmd)
        smt_ms += res.smt_ms
        if res.undecided:
            undecided.append("%s: %s" % (u, res.undecided))
            continue
        # ledger
        contracted = [fs for fs in info["fns"]]
        for name, f in sorted(res.functions.items()):
            if name.endswith("::clone") and f["rlimit"] <= 5:
                continue
            cov["obligations"] += 1
            if f["success"]:
                cov["discharged"] += 1
            if len(cov["samples"]) < 400:
                cov["samples"].append({"unit": u, "function": name, "mode": f["mode"], "discharged": f["success"],
                                       "rlimit": f["rlimit"], "solver_us": f["time_us"]})
        for fs in contracted:
            fns_under_contract.append({"unit": u, "function": fs.path, "has_ensures": "ensures" in fs.spec,
                                       "external_body": fs.nobody, "contract": " ".join(fs.spec.split())[:1500],
                                       "hints": len(fs.hints), "loop_invariants": len(fs.loops), "r9_substitutions": len(fs.substs)})
            if fs.nobody:
                trusted.add("assumed contract (body not verified): " + fs.path)
        for e in info["log"]:
            rules_applied[e["rule"]] = rules_applied.get(e["rule"], 0) + 1
            if e["rule"] == "R9":
                trusted.add("R9 substitution in %s: `%s` -> `%s`" % (e["fn"], e["pattern"], e["replacement"]))
            if e["rule"] == "assume_entry":
                trusted.add("assume_entry in %s: %s" % (e["fn"], e["cond"]))
            if e["rule"] == "R15 fragment":
                trusted.add("R15 %s: the statement matched by `%s` is verified in isolation as fn(%s); when and with which values %s executes it is not part of the claim"
                            % (e["fn"], e["pattern"], e["params"], e["of"]))
        for inc in info["includes"]:
            src = open(os.path.join(VERIF, inc)).read()
            n_ext = len(re.findall(r"external_body", src))
            n_assume = len(re.findall(r"\b(assume|admit)\s*\(", src))
            n_aspec = len(re.findall(r"\bassume_specification\b", src))
            n_axiom = len(re.findall(r"\baxiom\b|broadcast proof fn axiom_", src))
            if n_ext or n_assume or n_aspec:
                trusted.add("%s: %d external_body, %d assume/admit, %d assume_specification" % (inc, n_ext, n_assume, n_aspec))
        n_ext = len(re.findall(r"external_body", open(os.path.join(VERIF, "contracts", u + ".vc")).read()))
        if n_ext:
            trusted.add("contracts/%s.vc glue: %d external_body" % (u, n_ext))
        lost += info["lost_anchors"]
        all_failures += res.failures
        # ---- probe: every contracted function with an ensures clause must now fail -------------
        if pres.undecided:
            undecided.append("%s probe: %s" % (u, pres.undecided))
            continue
        probe_failed = set(f["fn"][6:] for f in pres.failures if f.get("fn") and f["fn"].startswith("probe:"))
        stray = [f for f in pres.failures if not (f.get("fn") or "").startswith("probe:")]
        if stray and not res.failures:
            undecided.append("%s probe: unexpected failure outside the probe twins: %s" % (u, stray[0]["message"]))
            continue
        must = [fs.path for fs in contracted if "ensures" in fs.spec and not fs.nobody]
        vac = [p for p in must if p not in probe_failed]
        cov.setdefault("vacuity_probe", {})[u] = {"must_fail": len(must), "failed": len(must) - len(vac)}
        if vac:
            undecided.append("%s: vacuity probe -- `ensures false` still verifies for %s (contradictory precondition or inconsistent assumptions)" % (u, vac))
    cov["checker_cmd"] = " ; ".join(cmds)
    cov["trusted_base"] = sorted(trusted)
    cov["functions_under_contract"] = fns_under_contract
    cov["rules_applied"] = rules_applied
    cov["solver_ms"] = smt_ms
    cov["backend"] = "Verus 0.2026.09.13 / Z3"
    cov["not_covered"] = cfg.get("not_covered", [])
    if undecided:
        for r in undecided:
            print("UNDECIDED:", r)
        fb = bounded_fallback(prop, cfg, seed, undecided)
        if fb:
            violations.append((fb[0], fb[1], True))
            cov["bounded_fallback"] = {"twin": fb[0], "replay": fb[1]}
            print("VIOLATION property=%s replay=%s function=%s (bounded twin search; deductive check undecided)" % (prop, fb[1], fb[0]))
            return finish(1)
        return finish(2)
    if cov["obligations"] == 0:
        print("UNDECIDED: zero obligations generated")
        undecided.append("zero obligations")
        return finish(2)

    # ---- 2. failures --------------------------------------------------------------------------
    by_fn = {}
    for f in all_failures:
        by_fn.setdefault((f["unit"], f.get("fn")), []).append(f)
    if by_fn:
        known = load_known()
        ok, err = build_replay_crate()
        for (u, label), fl in sorted(by_fn.items(), key=lambda kv: str(kv[0])):
            if label is None or label.startswith("lemma:"):
                undecided.append("a proof-only lemma / glue item fails (%s: %s) -- machinery, not /repo" % (u, fl[0]["message"]))
                continue
            sh = short(label)
            kinds = sorted(set(f["kind"] for f in fl))
            # case split for localisation
            cases = split_cases(prop, u, label)
            # known finding?
            kf = [k for k in known if k.get("property") == prop and k.get("function") == sh
                  and (not k.get("case") or (cases and set(cases) <= set(k["case"].split(","))))]
            if kf and (cases or not any(k.get("case") for k in kf)):
                for k in kf:
                    print("KNOWN-FINDING: " + k["line"][5:].strip())
                known_hits.append(sh)
                continue
            twin = P.twin_for(u, label)
            found = None
            if ok and twin:
                for c in (cases or [None]):
                    cmd = [REPLAY_BIN, "search", twin, "--seed", str(seed)] + (["--case", c] if c else [])
                    try:
                        p = subprocess.run(cmd, capture_output=True, text=True, timeout=300)
                        v = json.loads(p.stdout.strip().split("\n")[-1])
                        if v.get("found"):
                            found = v
                            break
                    except Exception as e:
                        found = None
            hint_lost = [a for (pth, a) in lost if pth == label]
            if hint_lost and not found:
                undecided.append("%s: obligation fails but a proof-hint anchor was lost and no failing input was found" % sh)
                continue
            rp = os.path.join(REPLAYS, "%s-%s.json" % (prop, re.sub(r"\W+", "_", sh)))
            rec = {"property": prop, "unit": u, "function": label, "obligation": kinds, "failed_cases": cases,
                   "verus_messages": [f["text"] for f in fl][:6], "twin": twin,
                   "input": found.get("input") if found else None,
                   "observed": (found.get("observed", found.get("got"))) if found else None,
                   "expected": found.get("expected") if found else None,
                   "replay_cmd": "./check %s --replay %s" % (prop, rp)}
            if not ok:
                rec["note"] = "replay crate did not build: " + err[-300:]
            json.dump(rec, open(rp, "w"), indent=1)
            violations.append((sh, rp, found is not None))
    if undecided and not violations:
        for r in undecided:
            print("UNDECIDED:", r)
        return finish(2)
    # ---- 2a. open findings that are identified by a replay file (`open: property=.. replay=<file under /verif> ..`) ------
    # The failing input is re-run against the real code on every check: while it still fails, the finding is printed as
    # KNOWN-FINDING (exit code unaffected); once it no longer fails nothing is printed (the entry should then become `fixed:`).
    for k in load_known():
        if k.get("property") != prop or not k.get("replay"):
            continue
        okb, errb = build_replay_crate()
        if not okb:
            undecided.append("replay crate does not build against this tree (open finding not re-run): " + errb[-300:])
            break
        rf = os.path.join(VERIF, k["replay"])
        pr = subprocess.run([REPLAY_BIN, "run", rf], capture_output=True, text=True)
        if pr.returncode == 1:
            ident = k.get("class") or os.path.basename(rf)
            if ident not in known_hits:
                known_hits.append(ident)
            print("KNOWN-FINDING: property=%s %s" % (prop, re.sub(r"^property=\S+\s*", "", k["line"][5:].strip())))

    # ---- 2b. bounded stand-ins for the parts of the property that are listed under not_covered -------------
    # (`standins` in vx/props.py).  They run on EVERY check, are labelled bounded in the evidence and never count as
    # obligations.  A replayable disagreement between the real code and the property is a VIOLATION (bounded);
    # a hit inside a class recorded as `open:` in known_findings.txt is printed as KNOWN-FINDING.
    if cfg.get("standins") and not violations:
        ok, err = build_replay_crate()
        rep = []
        if not ok:
            undecided.append("replay crate does not build against this tree (bounded stand-ins not run): " + err[-300:])
        else:
            known = load_known()
            for twin, what in cfg["standins"]:
                try:
                    pr = subprocess.run([REPLAY_BIN, "search", twin, "--seed", str(seed)], capture_output=True, text=True, timeout=600)
                    v = json.loads(pr.stdout.strip().split("\n")[-1])
                except Exception as e:
                    undecided.append("bounded stand-in %s did not run: %s" % (twin, e))
                    continue
                entry = {"twin": twin, "bounded": True, "what": what, "found": bool(v.get("found")),
                         "evaluations": v.get("evaluations"), "with_expectation": v.get("with_expectation")}
                for k in v.get("known", []) or []:
                    cls = k.get("known_class")
                    kf = [x for x in known if x.get("property") == prop and x.get("class") == cls]
                    if kf:
                        if cls not in known_hits:
                            known_hits.append(cls)
                            print("KNOWN-FINDING: property=%s %s" % (prop, re.sub(r"^property=\S+\s*", "", kf[0]["line"][5:].strip())))
                    else:
                        # a class the findings file does not list is an ordinary disagreement
                        v = dict(k, found=True)
                if v.get("found"):
                    rp = os.path.join(REPLAYS, "%s-standin-%s.json" % (prop, twin.replace(".", "_")))
                    rec = {"property": prop, "decided_by": "BOUNDED stand-in (part of the property that is not under contract)", "bounded": True,
                           "obligation": ["end-to-end twin written from the property statement disagrees with the real code"],
                           "twin": twin, "what": what, "input": v.get("input"), "observed": v.get("observed"), "expected": v.get("expected"),
                           "replay_cmd": "./check %s --replay %s" % (prop, rp)}
                    json.dump(rec, open(rp, "w"), indent=1)
                    violations.append((twin + " (bounded stand-in)", rp, True))
                rep.append(entry)
        cov["bounded_standins"] = rep
    cov["known_findings_hit"] = known_hits

    # ---- 3. thorough tier: assumption checks (never counted as obligations) ----------------------
    if tier == "thorough" and not violations:
        from . import thorough
        tres = thorough.run(prop, cfg, seed)
        cov["assumptions_checked"] = tres["report"]
        if tres["violations"]:
            for sh, rp in tres["violations"]:
                violations.append((sh, rp, True))
        if tres.get("undecided"):
            undecided += tres["undecided"]

    for sh, rp, has_input in violations:
        print("VIOLATION property=%s replay=%s function=%s%s" % (prop, rp, sh, "" if has_input else " no-failing-input-found"))
    if violations:
        return finish(1)
    if undecided:
        for r in undecided:
            print("UNDECIDED:", r)
        return finish(2)
    print("OK property=%s obligations=%d discharged=%d solver_ms=%d wall_s=%.1f" % (
        prop, cov["obligations"], cov["discharged"], smt_ms, time.time() - t0))
    return finish(0)


def split_cases(prop, unit, label):
    """localise a failing obligation: re-verify the function once per declared case
    (`@split EXPR : V1 V2 ..` in the unit file) with `requires EXPR is V` added."""
    u = A.parse_unit(os.path.join(VERIF, "contracts", unit + ".vc"))
    fs = next((e[1] for e in u.entries if e[0] == "fn" and e[1].path == label), None)
    if fs is None or not getattr(fs, "split", None):
        return None
    expr, variants = fs.split
    sh = short(label)
    failing = []

    def one(v):
        try:
            text, info, res = run_unit(prop, unit, extra_requires={label: "%s is %s" % (expr, v)}, only_fn=sh, tag="_split_" + v)
            os.remove(os.path.join(BUILD, "%s_split_%s.rs" % (unit, v)))
            return v, (not res.ok)
        except Exception:
            return v, False
    with cf.ThreadPoolExecutor(max_workers=12) as ex:
        for v, bad in ex.map(one, variants):
            if bad:
                failing.append(v)
    return failing or None


if __name__ == "__main__":
    try:
        code = main(sys.argv)
    except SystemExit:
        raise
    except BaseException as e:      # an internal error of the machinery is never a verdict about /repo
        import traceback
        traceback.print_exc()
        print("UNDECIDED: internal error of the check machinery: %r" % (e,))
        code = 2
    sys.exit(code)
