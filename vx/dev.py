"""developer loop: python3 -m vx.dev <unit> [function-substring]  -> assemble + verus, compact errors"""
import subprocess, sys, os, re, json
from . import assemble as A
unit = sys.argv[1]
text, info = A.assemble(os.path.join(A.VERIF, "contracts", unit + ".vc"))
out = os.path.join(A.VERIF, "build", unit + ".rs")
open(out, "w").write(text)
for p, a in info["lost_anchors"]:
    print("LOST ANCHOR", p, a[:60])
cmd = ["verus", out, "--multiple-errors", "5", "--verify-root"]
if len(sys.argv) > 2:
    cmd += ["--verify-function", sys.argv[2]]
cmd += sys.argv[3:]
r = subprocess.run(cmd, capture_output=True, text=True)
err = r.stderr
# drop warnings
blocks = re.split(r"\n(?=error|warning|note)", err)
for b in blocks:
    if b.startswith("warning"):
        continue
    print(b)
print(r.stdout[-300:])
