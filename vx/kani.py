"""thorough tier: Kani/CBMC cross-check of the assumed apint contracts (kani/ crate, real apint 0.2.0).
Loop-free harnesses over fully symbolic operands of widths 8/16/32/64 (mul: 8/16): complete for those widths.
Result is an ASSUMPTION CHECK of the trusted base; a refuted harness makes the check undecided (exit 2)."""
import os
import re
import shutil
import subprocess
import time

VERIF = os.path.dirname(os.path.dirname(os.path.abspath(__file__)))
KANI = os.path.join(VERIF, "kani")


def run(prop, cfg, timeout=5400):
    if not cfg.get("kani"):
        return []
    lock = os.path.join(KANI, "Cargo.lock")
    if not os.path.exists(lock):
        shutil.copy(os.path.join(os.environ.get("VERIF_REPO", "/repo"), "Cargo.lock"), lock)
    env = dict(os.environ, CARGO_NET_OFFLINE="true")
    t0 = time.time()
    try:
        p = subprocess.run(["cargo", "kani", "-j", "8", "--output-format", "terse"], cwd=KANI, env=env,
                           capture_output=True, text=True, timeout=timeout)
        out = p.stdout + p.stderr
    except subprocess.TimeoutExpired as e:
        return [{"harness": "*", "result": "timeout", "bounded": False, "wall_s": timeout}]
    res = []
    # "Checking harness harnesses::arith_8..." ... "VERIFICATION:- SUCCESSFUL"
    for m in re.finditer(r"Checking harness ([\w:]+)\.\.\.(.*?)VERIFICATION:- (\w+)", out, re.S):
        res.append({"harness": m.group(1), "result": m.group(3), "complete_for_width": True})
    m = re.search(r"Complete - (\d+) successfully verified harnesses, (\d+) failures, (\d+) total", out)
    summary = {"harness": "summary", "verified": int(m.group(1)) if m else None, "failures": int(m.group(2)) if m else None,
               "total": int(m.group(3)) if m else None, "wall_s": round(time.time() - t0, 1),
               "backend": "Kani 0.68 / CBMC 6.11", "what": "assumed apint contracts of shim/apint*.rs vs real apint 0.2.0, all operand values at widths 8/16/32/64"}
    res.append(summary)
    return res
