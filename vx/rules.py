"""Rewrite rules of the extractor.  Every application is logged (rule id, function, site)."""
import re

from . import rustlex as rl

BINOPS = {"+", "-", "*", "/", "%", "|", "^", "&", "+=", "-=", "*=", "/=", "%=", "|=", "^=", "&="}
ASSIGN_OPS = {"+=", "-=", "*=", "/=", "%=", "|=", "^=", "&="}


def _sig_indices(toks):
    return [i for i, t in enumerate(toks) if t.kind not in ("ws", "comment", "doc")]


def _ends_expr(t):
    return t.kind in ("ident", "num", "str", "char") and t.text not in ("return", "in", "if", "else", "match", "let", "mut", "as") \
        or (t.kind == "punct" and t.text in (")", "]", "?", "}"))


def split_top_commas(toks):
    """split a token list at top-level commas; returns list of token lists"""
    parts, cur, depth = [], [], 0
    for t in toks:
        if t.kind == "punct":
            if t.text in rl.OPEN:
                depth += 1
            elif t.text in rl.CLOSE:
                depth -= 1
            elif t.text == "," and depth == 0:
                parts.append(cur)
                cur = []
                continue
        cur.append(t)
    if rl.sig(cur):
        parts.append(cur)
    return parts


def apply_token_rules(toks, strips, where, log, body=True):
    toks = list(toks)
    # ---- R11: path prefix stripping -------------------------------------------------
    for pre in strips:
        want = [t.text for t in rl.sig(rl.lex(pre))]
        changed = True
        while changed:
            changed = False
            si = _sig_indices(toks)
            texts = [toks[i].text for i in si]
            for s in range(len(texts) - len(want) + 1):
                if texts[s:s + len(want)] == want:
                    # do not strip when it is the tail of a longer path  (x::apint::)
                    if s > 0 and texts[s - 1] == "::":
                        continue
                    a, b = si[s], si[s + len(want) - 1]
                    del toks[a:b + 1]
                    log.append({"rule": "R11", "where": where, "prefix": pre})
                    changed = True
                    break
    # ---- R8: Arc is transparent (copy-on-write sharing is unobservable to a value-level contract) ----
    if any(t.kind == "ident" and t.text == "Arc" for t in toks):
        toks = apply_r8(toks, where, log, body)
    if not body:
        return toks
    # ---- macro rules R4 / R5 -----------------------------------------------------------
    out = []
    i = 0
    n = len(toks)
    while i < n:
        t = toks[i]
        if t.kind == "ident" and i + 2 < n and toks[i + 1].text == "!" and toks[i + 1].kind == "punct":
            # macro invocation NAME ! ( ... )
            j = i + 2
            while j < n and toks[j].kind == "ws":
                j += 1
            if j < n and toks[j].kind == "punct" and toks[j].text in ("(", "[", "{"):
                close = rl.match_close(toks, j)
                inner = toks[j + 1:close]
                name = t.text
                rep = None
                if name == "anyhow":
                    rep = "verif_error()"
                    rule = "R4"
                elif name in ("assert", "debug_assert"):
                    args = split_top_commas(inner)
                    rep = "verif_assume_or_diverge(%s)" % rl.text_of(args[0]).strip()
                    rule = "R5"
                elif name in ("assert_eq", "debug_assert_eq", "assert_ne", "debug_assert_ne"):
                    args = split_top_commas(inner)
                    op = "==" if "eq" in name else "!="
                    rep = "verif_assume_or_diverge((%s) %s (%s))" % (rl.text_of(args[0]).strip(), op, rl.text_of(args[1]).strip())
                    rule = "R5"
                elif name in ("panic", "unreachable", "unimplemented", "todo"):
                    rep = "verif_diverge()"
                    rule = "R5"
                if rep is not None:
                    log.append({"rule": rule, "where": where, "macro": name})
                    out.append(rl.Tok("ident", rep, t.pos))
                    i = close + 1
                    continue
        # .expect("..") -> .unwrap()
        if t.kind == "ident" and t.text == "expect" and out and _prev_sig(out) == ".":
            j = i + 1
            while j < n and toks[j].kind == "ws":
                j += 1
            if j < n and toks[j].text == "(":
                close = rl.match_close(toks, j)
                log.append({"rule": "R5", "where": where, "macro": "expect"})
                out.append(rl.Tok("ident", "unwrap()", t.pos))
                i = close + 1
                continue
        out.append(t)
        i += 1
    toks = out
    # ---- R6: std::cmp::{min,max}(a,b) -> verif_min/max(a,b) ------------------------------
    si = _sig_indices(toks)
    k = 0
    dele = set()
    while k < len(si):
        texts = [toks[i].text for i in si[k:k + 6]]
        for pre in (["std", "::", "cmp", "::"], ["core", "::", "cmp", "::"], ["cmp", "::"]):
            L = len(pre)
            if texts[:L] == pre and len(texts) > L and texts[L] in ("min", "max") and len(texts) > L + 1 and texts[L + 1] == "(":
                if k > 0 and toks[si[k - 1]].text == "::":
                    continue
                for m in range(L):
                    dele.add(si[k + m])
                toks[si[k + L]] = rl.Tok("ident", "verif_" + texts[L], toks[si[k + L]].pos)
                log.append({"rule": "R6", "where": where, "fn": texts[L]})
                k += L
                break
        k += 1
    toks = [t for i, t in enumerate(toks) if i not in dele]
    # ---- R3: `OP &expr` -> `OP *&expr` --------------------------------------------------
    si = _sig_indices(toks)
    ins = []
    for k in range(2, len(si)):
        t = toks[si[k]]
        if t.kind == "punct" and t.text == "&":
            op = toks[si[k - 1]]
            lhs = toks[si[k - 2]]
            if op.kind == "punct" and op.text in BINOPS and (op.text in ASSIGN_OPS or _ends_expr(lhs)):
                # `&mut x` is not an operand of an arithmetic operator
                nxt = toks[si[k + 1]] if k + 1 < len(si) else None
                if nxt is not None and nxt.text == "mut":
                    continue
                ins.append(si[k])
    for idx in reversed(ins):
        toks.insert(idx, rl.Tok("punct", "*", toks[idx].pos))
        log.append({"rule": "R3", "where": where})
    return toks


def _r8_arc_at(toks, si, k):
    """si[k] is the ident `Arc` (optionally written `std::sync::Arc` / `sync::Arc`); returns the sig position where
    the whole path starts, or None when `Arc` is the tail of some other path."""
    start = k
    for pre in (["std", "::", "sync", "::"], ["sync", "::"]):
        L = len(pre)
        if k - L >= 0 and [toks[si[m]].text for m in range(k - L, k)] == pre:
            start = k - L
            break
    if start > 0 and toks[si[start - 1]].text == "::":
        return None
    return start


def apply_r8(toks, where, log, body):
    """R8: `Arc<T>` is replaced by `T`.  Copy-on-write sharing (`Arc::make_mut`) is unobservable to a
    value-level contract: `Arc::make_mut(&mut E)` yields a unique `&mut` to (a private copy of) the value of E
    and E owns that value afterwards, i.e. it behaves like `&mut E` on a plain field.
      (a) type `Arc<T>`                              -> `T`
      (b) `Arc::new(x)`                              -> `x`
      (c) `let X = Arc::make_mut(&mut E);`           -> deleted, `X` replaced by `E` in the rest of the block
      (d) `Arc::make_mut(&mut E)` as an expression   -> `E` when a field/method access follows, else `(&mut E)`
    Every application is logged."""
    toks = list(toks)
    # ---- (c) let X = Arc::make_mut(&mut E);
    while body:
        si = _sig_indices(toks)
        texts = [toks[i].text for i in si]
        hit = None
        for k in range(len(si)):
            if texts[k] != "let" or toks[si[k]].kind != "ident":
                continue
            if k + 3 >= len(si) or toks[si[k + 1]].kind != "ident" or texts[k + 2] != "=":
                continue
            a = k + 3
            # optional path prefix
            while a < len(si) and texts[a] in ("std", "sync", "::") and texts[a] != "Arc":
                a += 1
            if a + 6 < len(si) and texts[a:a + 6] == ["Arc", "::", "make_mut", "(", "&", "mut"]:
                close = rl.match_close(toks, si[a + 3])
                kc = si.index(close)
                if kc + 1 < len(si) and texts[kc + 1] == ";":
                    hit = (k, a, kc)
                    break
        if hit is None:
            break
        k, a, kc = hit
        var = texts[k + 1]
        expr = rl.text_of(toks[si[a + 6]:si[kc - 1] + 1]).strip()
        # rest of the enclosing block
        end = len(toks)
        depth = 0
        for j in range(si[kc + 1] + 1, len(toks)):
            t = toks[j]
            if t.kind != "punct":
                continue
            if t.text in rl.OPEN:
                depth += 1
            elif t.text in rl.CLOSE:
                depth -= 1
                if depth < 0:
                    end = j
                    break
        count = 0
        depth = 0
        kk = kc + 2
        while kk < len(si) and si[kk] < end:
            t = toks[si[kk]]
            if t.kind == "punct" and t.text in rl.OPEN:
                depth += 1
            elif t.kind == "punct" and t.text in rl.CLOSE:
                depth -= 1
            elif t.kind == "ident" and t.text == var:
                prev = texts[kk - 1]
                prev2 = texts[kk - 2] if kk >= 2 else ""
                nxt = texts[kk + 1] if kk + 1 < len(si) else ""
                if prev == "let" or (prev == "mut" and prev2 == "let"):
                    if depth == 0:
                        break          # shadowed from here on
                    raise ValueError("R8: `%s` is re-bound in a nested block of %s" % (var, where))
                if prev not in (".", "::") and nxt != ":":
                    toks[si[kk]] = rl.Tok("ident", expr, t.pos)
                    count += 1
            kk += 1
        # delete the let statement (and the whitespace that follows it up to the end of line)
        a0, b0 = si[k], si[kc + 1]
        while b0 + 1 < len(toks) and toks[b0 + 1].kind == "ws" and "\n" not in toks[b0 + 1].text:
            b0 += 1
        del toks[a0:b0 + 1]
        log.append({"rule": "R8", "where": where, "what": "let %s = Arc::make_mut(&mut %s); deleted" % (var, expr),
                    "replaced": count})
    # ---- (d) / (b) / (a)
    changed = True
    while changed:
        changed = False
        si = _sig_indices(toks)
        texts = [toks[i].text for i in si]
        for k in range(len(si)):
            if texts[k] != "Arc" or toks[si[k]].kind != "ident":
                continue
            start = _r8_arc_at(toks, si, k)
            if start is None:
                continue
            if body and texts[k + 1:k + 6] == ["::", "make_mut", "(", "&", "mut"]:
                close = rl.match_close(toks, si[k + 3])
                kc = si.index(close)
                expr = rl.text_of(toks[si[k + 6]:si[kc - 1] + 1]).strip()
                nxt = texts[kc + 1] if kc + 1 < len(si) else ""
                rep = expr if nxt == "." else "(&mut %s)" % expr
                toks[si[start]:close + 1] = [rl.Tok("ident", rep, toks[si[start]].pos)]
                log.append({"rule": "R8", "where": where, "what": "Arc::make_mut(&mut %s) -> %s" % (expr, rep)})
                changed = True
                break
            if body and texts[k + 1:k + 4] == ["::", "new", "("]:
                close = rl.match_close(toks, si[k + 3])
                kc = si.index(close)
                inner = toks[si[k + 3] + 1:close]
                expr = rl.text_of(inner).strip()
                rep = expr if len(rl.sig(inner)) == 1 else "(%s)" % expr
                toks[si[start]:close + 1] = [rl.Tok("ident", rep, toks[si[start]].pos)]
                log.append({"rule": "R8", "where": where, "what": "Arc::new(%s) -> %s" % (expr, rep)})
                changed = True
                break
            if k + 1 < len(si) and texts[k + 1] == "<":
                depth = 0
                m = k + 1
                while m < len(si):
                    tx = texts[m]
                    if tx == "<":
                        depth += 1
                    elif tx == ">":
                        depth -= 1
                    elif tx == ">>":
                        depth -= 2
                    if depth <= 0:
                        break
                    m += 1
                if m >= len(si):
                    raise ValueError("R8: unbalanced `Arc<` in %s" % where)
                if texts[m] == ">>":
                    toks[si[m]] = rl.Tok("punct", ">", toks[si[m]].pos)
                    del toks[si[start]:si[k + 1] + 1]
                else:
                    del toks[si[m]]
                    del toks[si[start]:si[k + 1] + 1]
                log.append({"rule": "R8", "where": where, "what": "Arc<T> -> T"})
                changed = True
                break
    # inserted expressions become ordinary tokens again (hint anchors are matched token by token)
    return rl.lex(rl.text_of(toks))


def _prev_sig(out):
    for t in reversed(out):
        if t.kind not in ("ws", "comment", "doc"):
            return t.text
    return None


def drop_attributes(toks):
    """remove `#[...]` attributes (used for field attributes inside type definitions)"""
    out = []
    i = 0
    while i < len(toks):
        t = toks[i]
        if t.kind == "punct" and t.text == "#":
            j = i + 1
            while toks[j].kind == "ws":
                j += 1
            if toks[j].text == "[":
                i = rl.match_close(toks, j) + 1
                continue
        out.append(t)
        i += 1
    return rl.text_of(out)


def make_fields_pub(text):
    """struct fields without visibility get `pub` (specs need to read them); R1b"""
    toks = rl.lex(text)
    si = _sig_indices(toks)
    # find the struct body
    try:
        b = next(i for i in si if toks[i].text == "{")
    except StopIteration:
        return text
    close = rl.match_close(toks, b)
    out = []
    # a private struct (`struct Inner<T> {..}` of mem_region.rs) becomes `pub` as well: Verus rejects field
    # expressions of a non-visible datatype in the contract of a `pub fn`; visibility does not change meaning
    if si and toks[si[0]].kind == "ident" and toks[si[0]].text in ("struct", "enum"):
        out.append("pub ")
    depth = 0
    expect_field = True
    for i, t in enumerate(toks):
        if b < i < close:
            if t.kind == "punct" and t.text in rl.OPEN:
                depth += 1
            elif t.kind == "punct" and t.text in rl.CLOSE:
                depth -= 1
            # generic arguments of a field type (`FnvHashMap<K, V>`): their commas do not end the field
            elif t.kind == "punct" and t.text == "<" and not expect_field:
                depth += 1
            elif t.kind == "punct" and t.text in (">", ">>") and not expect_field:
                depth -= len(t.text)
            if depth == 0 and expect_field and t.kind == "ident":
                if t.text != "pub":
                    out.append("pub ")
                expect_field = False
            if depth == 0 and t.kind == "punct" and t.text == ",":
                expect_field = True
        out.append(t.text)
    return "".join(out)


def subst(text, pattern, replacement):
    """R9: replace occurrences of a token pattern with holes $1..$9 (balanced token runs)."""
    ptoks = [t for t in rl.sig(rl.lex(pattern))]
    # merge `$` `1` into hole markers
    pat = []
    i = 0
    while i < len(ptoks):
        if ptoks[i].text == "$" and i + 1 < len(ptoks) and ptoks[i + 1].kind == "num":
            pat.append(("hole", int(ptoks[i + 1].text)))
            i += 2
        else:
            pat.append(("lit", ptoks[i].text))
            i += 1
    toks = rl.lex(text)
    si = _sig_indices(toks)

    def match_at(s):
        binds = {}
        k = s
        for pi, (kind, val) in enumerate(pat):
            if kind == "lit":
                if k >= len(si) or toks[si[k]].text != val:
                    return None
                k += 1
            else:
                # hole: consume balanced tokens until next literal at depth 0
                nxt = pat[pi + 1][1] if pi + 1 < len(pat) and pat[pi + 1][0] == "lit" else None
                start = k
                depth = 0
                while k < len(si):
                    tx = toks[si[k]]
                    if depth == 0 and nxt is not None and tx.text == nxt and k > start:
                        break
                    if tx.kind == "punct" and tx.text in rl.OPEN:
                        depth += 1
                    elif tx.kind == "punct" and tx.text in rl.CLOSE:
                        if depth == 0:
                            break
                        depth -= 1
                    k += 1
                if k == start:
                    return None
                binds[val] = rl.text_of(toks[si[start]:si[k - 1] + 1])
        return k, binds

    count = 0
    out = []
    pos = 0  # token index up to which text has been emitted
    s = 0
    while s < len(si):
        m = match_at(s)
        if m:
            k, binds = m
            out.append(rl.text_of(toks[pos:si[s]]))
            rep = replacement
            for h, v in binds.items():
                rep = rep.replace("$%d" % h, v)
            out.append(rep.strip("\n"))
            pos = si[k - 1] + 1
            s = k
            count += 1
        else:
            s += 1
    out.append(rl.text_of(toks[pos:]))
    return "".join(out), count


def probe_spec(spec):
    """vacuity probe: keep requires/decreases, replace the ensures clauses by `false`."""
    # split at top-level keywords
    m = re.search(r"(?m)^\s*ensures\b", spec)
    if not m:
        return spec + "\n    ensures false,"
    head = spec[:m.start()]
    tail = spec[m.end():]
    m2 = re.search(r"(?m)^\s*(decreases|opens_invariants|no_unwind)\b", tail)
    rest = tail[m2.start():] if m2 else ""
    return head + "\n    ensures false,\n" + rest


def add_requires(spec, cond):
    """diagnosis: add one more precondition (case split of a failing obligation)"""
    m = re.search(r"(?m)^\s*requires\b", spec)
    if m:
        return spec[:m.end()] + " " + cond + "," + spec[m.end():]
    return "    requires " + cond + ",\n" + spec
