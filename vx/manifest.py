"""Regenerates MANIFEST.json from vx/props.py (claimed checks) and the not-applicable table below.
python3 -m vx.manifest"""
import json
import os

from . import props as P

VERIF = os.path.dirname(os.path.dirname(os.path.abspath(__file__)))

NA = {
    "C02": "unit not closed yet in this build (interval transfer functions; planned, DESIGN.md section 3)",
    "C03": "unit not closed yet in this build (merge of bitvector/interval kinds; planned)",
    "C04": "unit not closed yet in this build (conditional refinement of intervals; planned)",
    "C05": "stretch unit (memory regions over BTreeMap) not closed; not replaced by testing",
    "C07": "unit not closed yet in this build (worklist solver; planned)",
    "C18": "unit not closed yet in this build (threshold predicate; planned)",
    "C19": "unit not closed yet in this build (memory image queries; planned)",
    "C24": "stretch unit (call-graph DFS) not closed; not replaced by testing",
    "C06": "brick / character-inclusion domains are Vec<String>/BTreeSet<String>/BTreeSet<char> driven by string slicing, permutation generation and iterator adapters: Verus has no str byte reasoning and rejects the adapters, CBMC cannot afford one BTreeMap; language preservation would need bounded concretisation, i.e. enumeration, which is another family",
    "C08": "exact edge-set equality of a petgraph graph built through HashMap<(Tid,Tid),_> from borrowed Terms: needs the whole IR data model and string-keyed hashing under contract; no per-function postcondition short of re-specifying the builder",
    "C09": "four IR passes over BTreeMap<Tid,Term<Sub>> with HashSet<Tid> and string-built identifiers; the property is the joint invariant after all passes on arbitrary malformed input, not a per-call contract",
    "C10": "behavioural equivalence under five rewriting passes needs an operational IR semantics and a simulation proof; the one per-call piece (Expression::substitute_trivial_operations) ICEs Verus (`if let .. = self { *self = .. }`) and a single Kani template did not finish in 10 min",
    "C11": "lifting equivalence w.r.t. the P-Code reference semantics is translation validation of a deserialised JSON program with register aliasing; no function-level contract carries it",
    "C12": "quantifies over programs and ALL lifting and normalisation passes: 'every expression of the fully normalized program is well-sized' needs an establishment argument for the lifted IR plus preservation by every pass. Preservation is proved for two passes as a by-product of other units (the expression rewriter, unit exprsubst under C10; the sub-register substitution, unit subreg under C11: both keep well-sizedness and byte size) and Expression::bytesize is proved in unit bitvector, but establishment (JSON deserialisation, mnemonic mapping), expression propagation, stack alignment substitution and the Def / Jmp level clauses (assignment size, pointer-sized addresses) are under no contract; claiming C12 on two of five steps would overstate",
    "C13": "soundness of the pointer-inference fixpoint w.r.t. a concrete semantics is a whole-analysis proof (states of BTreeMaps of abstract objects, widening, interprocedural flow); C07 covers the solver it runs on, not its transfer functions",
    "C14": "same for the function-signature fixpoint; 'on some path' is CFG reachability over the whole program",
    "C15": "if-and-only-if characterisation of a taint fixpoint's warnings by CFG paths: whole-analysis, whole-program",
    "C16": "checkers are iterator / HashMap<&Tid,&str> / String pipelines fed from serde_json::Value; set equality over programs and configurations, no verifiable per-function core",
    "C17": "DFS over the CFG of C08 with HashSet<NodeIndex>; exact reachability needs the CFG model first",
    "C20": "the grammar lives in a regex::Regex literal; neither verifier can execute or reason about the regex engine",
    "C21": "termination and output well-formedness of the CLI process on every input: process level, file system, JSON printing",
    "C22": "module selection is inline in the CLI driver of a binary crate (retain closures, HashSet<&str> over split(',')); no callable function with a stateable contract",
    "C23": "independence from per-process hash seeds and thread scheduling is a hyper-property over runs",
    "C25": "all interleavings of sender threads with the collector: Kani has no threads, Verus would need its own permission-typed channel instead of crossbeam",
}


def main():
    checks = []
    for pid in sorted(P.PROPS):
        cfg = P.PROPS[pid]
        checks.append({
            "property_id": pid,
            "quick_cmd": "./check %s --tier quick" % pid,
            "thorough_cmd": "./check %s --tier thorough" % pid,
            "evidence_file": "/verif/evidence/%s.json" % pid,
            "replay_cmd_template": "./check %s --replay {path}" % pid,
            "engine": "vx",
            "technique": "contract-based deductive verification (Verus) of functions extracted mechanically from /repo",
            "level_claimed": {"category": "proof", "text": cfg["level_text"], "design_ref": cfg.get("design_ref", "DESIGN.md section 3")},
            "level_note": cfg["level_note"],
        })
    claimed = set(P.PROPS)
    na = [{"property_id": k, "reason": v} for k, v in sorted(NA.items()) if k not in claimed]
    ids = [json.loads(l)["id"] for l in open(os.path.join(VERIF, "properties.jsonl"))]
    missing = [i for i in ids if i not in claimed and i not in NA]
    assert not missing, missing
    m = {
        "version": 1,
        "setup_cmd": "cd /verif && python3 shim/gen_apint_ops.py && mkdir -p build replays evidence && cp -f /repo/Cargo.lock replay/Cargo.lock && (cd replay && CARGO_NET_OFFLINE=true cargo build --offline -q 2>/dev/null; true)",
        "hooks": {
            "guard": "none",
            "enable": "no source hooks: Verus reads functions extracted from the unmodified /repo sources on every run; the replay/kani crates use the real crate as a path dependency",
            "baseline_off_cmd": "cd /repo && cargo test --workspace --no-fail-fast --offline",
            "source_commits": [],
            "add_only": True,
        },
        "engines": [
            {"name": "vx", "path": "vx/", "serves_properties": sorted(claimed),
             "kind_free_text": "mechanical extractor (rules R1-R11) + assembler + Verus runner + verdict classifier"},
            {"name": "replay", "path": "replay/", "serves_properties": sorted(claimed),
             "kind_free_text": "executable twins of the public contracts against the real crate: counterexample search for a failed obligation, replay, thorough-tier assumption sweep (bounded; never counted as proof)"},
            {"name": "kani", "path": "kani/", "serves_properties": ["C01"],
             "kind_free_text": "Kani/CBMC cross-check of the assumed apint contracts on loop-free operations over full operand domains (thorough tier; assumption check)"},
        ],
        "checks": checks,
        "not_applicable": na,
        "notes": "fix: commits in /repo: 83305e8, ac05f01, 7da668d, 7080e9e, 2dfa36f, 0d74ce8, f4bf81a, 85fb258 (rounds 1-2: bitvector / interval / memory image), b82ac12 (CWE-243 panic), 8a58ccd (brick normalization: non-termination and u32 overflow), 85876a6 (format strings: escaped percent sign), e127fe6 (`1 == x - y` rewrite), 19618dc (sub-register substitution: cast to a same-name smaller register), 1a158f4 (interval arithmetic of two constants wrapping around); open findings: C16/F1, C09/F1; see known_findings.txt and DESIGN.md sections 11-13.",
    }
    json.dump(m, open(os.path.join(VERIF, "MANIFEST.json"), "w"), indent=1)
    print("MANIFEST.json: %d checks, %d not applicable" % (len(checks), len(na)))


if __name__ == "__main__":
    main()
