"""Small Rust lexer + item finder used by the mechanical extractor.

Only what extraction needs: exact-text tokens (so a body can be reproduced
byte for byte), bracket matching that ignores strings / chars / lifetimes /
nested comments, and a shallow item parser (struct / enum / fn / impl / trait /
const / type) for files and impl bodies.
"""
import re

PUNCT3 = ("<<=", ">>=", "...", "..=")
PUNCT2 = ("::", "->", "=>", "==", "!=", "<=", ">=", "&&", "||", "+=", "-=", "*=", "/=",
          "%=", "^=", "&=", "|=", "<<", ">>", "..")

IDENT_RE = re.compile(r"[A-Za-z_][A-Za-z0-9_]*")
NUM_RE = re.compile(r"[0-9][0-9A-Za-z_]*(\.[0-9][0-9A-Za-z_]*)?")


class Tok:
    __slots__ = ("kind", "text", "pos")

    def __init__(self, kind, text, pos):
        self.kind = kind   # ws | comment | doc | str | char | life | ident | num | punct
        self.text = text
        self.pos = pos

    def __repr__(self):
        return "Tok(%s,%r)" % (self.kind, self.text)


def lex(src):
    toks = []
    i, n = 0, len(src)
    while i < n:
        c = src[i]
        if c.isspace():
            j = i
            while j < n and src[j].isspace():
                j += 1
            toks.append(Tok("ws", src[i:j], i))
            i = j
        elif src.startswith("//", i):
            j = src.find("\n", i)
            if j < 0:
                j = n
            text = src[i:j]
            kind = "doc" if (text.startswith("///") and not text.startswith("////")) or text.startswith("//!") else "comment"
            toks.append(Tok(kind, text, i))
            i = j
        elif src.startswith("/*", i):
            depth, j = 1, i + 2
            while j < n and depth:
                if src.startswith("/*", j):
                    depth += 1
                    j += 2
                elif src.startswith("*/", j):
                    depth -= 1
                    j += 2
                else:
                    j += 1
            text = src[i:j]
            kind = "doc" if text.startswith("/**") and not text.startswith("/***") else "comment"
            toks.append(Tok(kind, text, i))
            i = j
        elif c == '"' or (c in "br" and _is_str_start(src, i)):
            j = _scan_string(src, i)
            toks.append(Tok("str", src[i:j], i))
            i = j
        elif c == "'":
            # char literal or lifetime
            m = re.match(r"'(\\.[^']*|[^\\'])'", src[i:])
            if m:
                toks.append(Tok("char", m.group(0), i))
                i += len(m.group(0))
            else:
                m = IDENT_RE.match(src, i + 1)
                j = m.end() if m else i + 1
                toks.append(Tok("life", src[i:j], i))
                i = j
        elif c.isalpha() or c == "_":
            m = IDENT_RE.match(src, i)
            toks.append(Tok("ident", m.group(0), i))
            i = m.end()
        elif c.isdigit():
            m = NUM_RE.match(src, i)
            text = m.group(0)
            # do not swallow a range operator or a method call: `0..n`, `1.max(2)`
            if "." in text:
                k = text.index(".")
                after = text[k + 1:k + 2]
                if not after.isdigit():
                    text = text[:k]
            toks.append(Tok("num", text, i))
            i += len(text)
        else:
            for p in PUNCT3 + PUNCT2:
                if src.startswith(p, i):
                    toks.append(Tok("punct", p, i))
                    i += len(p)
                    break
            else:
                toks.append(Tok("punct", c, i))
                i += 1
    return toks


def _is_str_start(src, i):
    return re.match(r'(b?r#*"|b")', src[i:i + 8]) is not None


def _scan_string(src, i):
    m = re.match(r'b?r(#*)"', src[i:])
    if m:
        hashes = m.group(1)
        end = src.find('"' + hashes, i + len(m.group(0)))
        return end + 1 + len(hashes)
    j = i + (2 if src[i] == "b" else 1)
    while src[j] != '"':
        if src[j] == "\\":
            j += 1
        j += 1
    return j + 1


OPEN = {"(": ")", "[": "]", "{": "}"}
CLOSE = {v: k for k, v in OPEN.items()}


def match_close(toks, i):
    """toks[i] is an opening bracket; return index of the matching closer."""
    depth = 0
    for j in range(i, len(toks)):
        t = toks[j]
        if t.kind != "punct":
            continue
        if t.text in OPEN:
            depth += 1
        elif t.text in CLOSE:
            depth -= 1
            if depth == 0:
                return j
    raise ValueError("unbalanced bracket at token %d" % i)


def text_of(toks):
    return "".join(t.text for t in toks)


def sig(toks):
    """Significant tokens (no whitespace/comments)."""
    return [t for t in toks if t.kind not in ("ws", "comment", "doc")]


def norm(toks_or_text):
    """Whitespace-free normal form used to compare headers and anchors."""
    if isinstance(toks_or_text, str):
        toks_or_text = lex(toks_or_text)
    return " ".join(t.text for t in sig(toks_or_text))


ITEM_KW = ("struct", "enum", "fn", "impl", "trait", "const", "type", "mod", "use", "static", "macro_rules")


class Item:
    def __init__(self, kind, name, header, attrs, toks, start, end, body=None):
        self.kind = kind      # struct/enum/fn/impl/trait/const/type/...
        self.name = name      # identifier, or normalised header for impl
        self.header = header  # normalised header text (up to body / ';')
        self.attrs = attrs    # list of attribute texts (normalised)
        self.toks = toks      # the shared token list
        self.start = start    # index of first token of the item proper (after attrs/docs)
        self.end = end        # index one past the last token
        self.body = body      # (open_idx, close_idx) or None

    def text(self):
        return text_of(self.toks[self.start:self.end])

    def body_toks(self):
        return self.toks[self.body[0] + 1:self.body[1]]

    def head_toks(self):
        return self.toks[self.start:self.body[0]] if self.body else self.toks[self.start:self.end]


def parse_items(toks, lo=0, hi=None):
    """Shallow item parser over toks[lo:hi]."""
    if hi is None:
        hi = len(toks)
    items = []
    i = lo
    attrs = []
    while i < hi:
        t = toks[i]
        if t.kind in ("ws", "comment", "doc"):
            i += 1
            continue
        if t.kind == "punct" and t.text == "#":
            # attribute  #[...]  or #![...]
            j = i + 1
            while toks[j].kind == "ws" or (toks[j].kind == "punct" and toks[j].text == "!"):
                j += 1
            if toks[j].text == "[":
                k = match_close(toks, j)
                attrs.append(norm(toks[i:k + 1]))
                i = k + 1
                continue
        # an item: collect qualifiers until a keyword
        start = i
        j = i
        kw = None
        while j < hi:
            tj = toks[j]
            if tj.kind == "ident" and tj.text in ITEM_KW:
                # `const fn`, `unsafe fn`: keep scanning if next significant is `fn`
                if tj.text == "const":
                    nxt = _next_sig(toks, j + 1, hi)
                    if nxt is not None and toks[nxt].text in ("fn", "unsafe"):
                        j += 1
                        continue
                kw = tj.text
                break
            if tj.kind == "punct" and tj.text == "(":
                j = match_close(toks, j) + 1   # pub(crate)
                continue
            if tj.kind == "punct" and tj.text in (";", "{", "}"):
                break
            j += 1
        if kw is None:
            # not an item we understand (e.g. macro invocation); skip to ';' or matching brace
            j = i
            while j < hi and not (toks[j].kind == "punct" and toks[j].text in (";", "{")):
                j += 1
            if j < hi and toks[j].text == "{":
                j = match_close(toks, j)
            i = j + 1
            attrs = []
            continue
        kwi = j
        # find end of header: '{' or ';' at bracket depth 0 (angle brackets ignored)
        k = kwi + 1
        body = None
        while k < hi:
            tk = toks[k]
            if tk.kind == "punct":
                if tk.text in ("(", "["):
                    k = match_close(toks, k) + 1
                    continue
                if tk.text == "{":
                    close = match_close(toks, k)
                    body = (k, close)
                    end = close + 1
                    break
                if tk.text == ";":
                    end = k + 1
                    break
            k += 1
        else:
            end = hi
        header_toks = toks[start:(body[0] if body else end)]
        header = norm(header_toks)
        if kw == "impl" or kw == "trait" and False:
            name = norm(toks[kwi:(body[0] if body else end)])
        else:
            nm = _next_sig(toks, kwi + 1, hi)
            name = toks[nm].text if nm is not None else ""
        if kw == "struct" and body is not None:
            pass
        if kw == "struct" and body is None:
            # tuple struct `struct X(u64);` handled by ';' termination above
            pass
        items.append(Item(kw, name, header, attrs, toks, start, end, body))
        attrs = []
        i = end
    return items


def _next_sig(toks, i, hi):
    while i < hi:
        if toks[i].kind not in ("ws", "comment", "doc"):
            return i
        i += 1
    return None
