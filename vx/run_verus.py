"""Run Verus on an assembled unit and turn its output into a ledger + classified failures."""
import json
import os
import re
import subprocess
import time

VERUS = os.environ.get("VERIF_VERUS", "verus")

# stderr message heads that are *proof obligations failing* (candidates for a violation)
OBLIGATION_KINDS = [
    ("postcondition not satisfied", "postcondition"),
    ("precondition not satisfied", "precondition"),
    ("assertion failed", "assertion"),
    ("invariant not satisfied", "invariant"),
    ("possible arithmetic underflow/overflow", "overflow"),
    ("possible arithmetic overflow", "overflow"),
    ("possible division by zero", "div-by-zero"),
    ("could not prove termination", "termination"),
    ("decreases not satisfied", "termination"),
    ("possible bit shift underflow/overflow", "overflow"),
    ("recommendation not met", None),
    ("index out of bounds", "bounds"),
    ("possible out of bounds", "bounds"),
    ("unreachable code may be reached", "assertion"),
    ("unable to prove post-condition of closure", "postcondition"),
    ("unable to prove assertion", "assertion"),
    ("unable to prove precondition", "precondition"),
]
# anything else at `error` level means the verifier could not process the text: undecided
RESOURCE = ("Resource limit (rlimit) exceeded", "rlimit", "timed out", "Timeout")


class VerusResult:
    def __init__(self):
        self.ok = False
        self.undecided = None      # reason string
        self.functions = {}        # name -> {success, rlimit, time_us, mode}
        self.failures = []         # {kind, message, line, text}
        self.verified = 0
        self.errors = 0
        self.wall_s = 0.0
        self.smt_ms = 0
        self.cmd = ""
        self.raw_err = ""
        self.resource = []         # resource-limit hits: {kind, message, line}


def run(path, extra=(), rlimit=None, timeout=1500):
    res = VerusResult()
    cmd = [VERUS, path, "--output-json", "--time", "--multiple-errors", "6"]
    if rlimit:
        cmd += ["--rlimit", str(rlimit)]
    cmd += list(extra)
    res.cmd = " ".join(cmd)
    t0 = time.time()
    try:
        p = subprocess.run(cmd, capture_output=True, text=True, timeout=timeout)
    except subprocess.TimeoutExpired:
        res.undecided = "verus timed out after %ds" % timeout
        return res
    res.wall_s = time.time() - t0
    res.raw_err = p.stderr
    try:
        d = json.loads(p.stdout)
    except Exception:
        res.undecided = "verus produced no JSON (crash?): " + p.stderr[-600:]
        return res
    vr = d.get("verification-results", {})
    res.verified = vr.get("verified", 0)
    res.errors = vr.get("errors", 0)
    tm = d.get("times-ms", {})
    smt = tm.get("smt", {})
    res.smt_ms = smt.get("smt-run", 0)
    for m in smt.get("smt-run-module-times", []):
        for f in m.get("function-breakdown", []):
            name = f["function"].split("::", 1)[1] if "::" in f["function"] else f["function"]
            res.functions[name] = {"success": f["success"], "rlimit": f.get("rlimit", 0),
                                   "time_us": f.get("time-micros", 0), "mode": f.get("mode:", "")}
    # classify stderr
    blocks = re.split(r"\n(?=(?:error|warning|note)(?:\[|:| ))", "\n" + p.stderr)
    hard = []
    for b in blocks:
        b = b.strip("\n")
        if not b.startswith("error"):
            continue
        head = b.split("\n", 1)[0]
        if head.startswith("error: aborting due to"):
            continue
        kind = None
        matched = False
        for msg, k in OBLIGATION_KINDS:
            if msg in head:
                kind, matched = k, True
                break
        is_resource = any(r in b for r in RESOURCE)
        m = re.search(r"-->\s*([^\s:]+):(\d+):(\d+)", b)
        # the first location inside the assembled file
        line = None
        for mm in re.finditer(r"(?:-->|:::)\s*([^\s:]+):(\d+):(\d+)", b):
            if os.path.basename(mm.group(1)) == os.path.basename(path):
                line = int(mm.group(2))
                # prefer the *last* location in our file for precondition failures (the call site),
                # the first one otherwise
                if kind != "precondition":
                    break
        if is_resource:
            # undecided, unless the caller expects this item to fail anyway (vacuity probe twins)
            res.resource.append({"kind": "rlimit", "message": head, "line": line, "text": b[:600]})
            continue
        if not matched:
            hard.append(head)
            continue
        if kind is None:
            continue
        res.failures.append({"kind": kind, "message": head, "line": line, "text": b[:1500]})
    if hard:
        res.undecided = "verifier could not process the unit: " + " | ".join(hard[:3])
    if vr.get("encountered-vir-error"):
        res.undecided = res.undecided or "VIR error"
    if not vr and not res.undecided:
        res.undecided = "no verification results"
    res.resource_unresolved = list(res.resource)
    res.ok = (not res.undecided) and not res.resource and res.errors == 0 and not vr.get("encountered-error", True) and res.verified > 0
    if not res.ok and not res.undecided and not res.failures:
        res.undecided = "verus reported errors that could not be classified: " + p.stderr[-400:]
    return res


def map_lines_to_fns(text):
    """assembled text -> list of (start_line, end_line, label) for extracted fns and proof fns"""
    spans = []
    lines = text.split("\n")
    cur = None
    for i, ln in enumerate(lines, 1):
        mp = re.match(r"// ---- probe twin (.*) ----", ln)
        if mp:
            if cur:
                spans.append((cur[0], i - 1, cur[1]))
            cur = (i, "probe:" + mp.group(1))
            continue
        if ln.startswith("// ---- end probe twin"):
            if cur:
                spans.append((cur[0], i - 1, cur[1]))
            cur = None
            continue
        m = re.match(r"// ---- extracted fn (.*) ----", ln)
        if m:
            if cur:
                spans.append((cur[0], i - 1, cur[1]))
            cur = (i, m.group(1))
            continue
        m = re.match(r"// ---- extracted (fragment .*) ----", ln)     # R15: label `fragment NAME of ALIAS::-::FN`
        if m:
            if cur:
                spans.append((cur[0], i - 1, cur[1]))
            cur = (i, m.group(1))
            continue
        m2 = re.match(r"\s*pub (?:broadcast )?proof fn (\w+)", ln)
        if m2 or ln.startswith("// ======== include") or ln.startswith("// ---- extracted type") or ln.startswith("// ---- imported fn"):
            if cur:
                spans.append((cur[0], i - 1, cur[1]))
                cur = None
            if m2:
                cur = (i, "lemma:" + m2.group(1))
    if cur:
        spans.append((cur[0], len(lines), cur[1]))
    return spans


def fn_at(spans, line):
    if line is None:
        return None
    for a, b, label in spans:
        if a <= line <= b:
            return label
    return None
