"""thorough tier: assumption checks -- replay sweeps of the executable twins and the Kani cross-check
of the assumed apint contracts.  Results are reported under assumptions_checked, never as obligations."""
import json
import os
import subprocess

from . import check as C


def run(prop, cfg, seed):
    report = {"twin_sweeps": [], "kani": []}
    violations = []
    undecided = []
    ok, err = C.build_replay_crate()
    if not ok:
        undecided.append("replay crate does not build: " + err[-300:])
        return {"report": report, "violations": violations, "undecided": undecided}
    for twin in cfg.get("sweep_twins", []):
        try:
            p = subprocess.run([C.REPLAY_BIN, "sweep", twin, "--seed", str(seed)], capture_output=True, text=True, timeout=3600)
            v = json.loads(p.stdout.strip().split("\n")[-1])
        except Exception:
            undecided.append("sweep %s produced no result" % twin)
            continue
        n_bad = v.get("disagreements", 0)
        entry = {"twin": twin, "disagreements": n_bad, "bounded": True}
        for k in ("evaluations", "member_checks", "kinds"):
            if k in v:
                entry[k] = v[k]
        report["twin_sweeps"].append(entry)
        if n_bad:
            first = v.get("first") or {}
            rp = os.path.join(C.REPLAYS, "%s-sweep-%s.json" % (prop, twin.replace(".", "_")))
            rec = {"property": prop, "twin": twin, "bounded": True, "decided_by": "BOUNDED twin sweep (thorough tier)",
                   "obligation": ["executable twin of the contract disagrees with the real code"],
                   "input": first.get("input"), "observed": first.get("observed"), "expected": first.get("expected")}
            json.dump(rec, open(rp, "w"), indent=1)
            violations.append((twin, rp))
    from . import kani
    report["kani"] = kani.run(prop, cfg)
    for k in report["kani"]:
        if k.get("harness") == "summary" and (k.get("failures") or k.get("verified") is None):
            undecided.append("Kani cross-check of the trusted apint contracts did not succeed: %s" % k)
        if k.get("result") in ("FAILED", "timeout"):
            undecided.append("Kani harness %s: %s (trusted shim contract refuted or not decided)" % (k["harness"], k["result"]))
    return {"report": report, "violations": violations, "undecided": undecided}
