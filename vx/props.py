"""Property table: which units decide a property, which extracted functions carry its claim,
and which executable twin searches for a counterexample when an obligation in a function fails."""

# label (as in contracts/*.vc @fn path) -> twin name ; prefix match on the function label
TWINS = {
    "bitvector": [
        ("Bitvector::bin_op", "c01.bin_op"),
        ("Bitvector::un_op", "c01.un_op"),
        ("Bitvector::cast", "c01.cast"),
        ("Bitvector::subpiece", "c01.subpiece"),
        ("Bitvector::into_resize", "c01.cast"),
        ("Bitvector::signed_add_overflow_checked", "c01.add_ovf"),
        ("Bitvector::signed_sub_overflow_checked", "c01.sub_ovf"),
        ("Bitvector::signed_mult_with_overflow_flag", "c01.mul_flag"),
        ("BitvectorDomain::bin_op", "c01.bin_op"),
        ("BitvectorDomain::un_op", "c01.un_op"),
        ("BitvectorDomain::cast", "c01.cast"),
        ("BitvectorDomain::subpiece", "c01.subpiece"),
    ],
}

PROPS = {
    "C01": {
        "units": ["bitvector"],
        "level_text": "Every function of BitvectorExtended for Bitvector (cast, subpiece, un_op, bin_op with all 34 operations, the three overflow helpers, resize helpers, bytesize), BitvectorDomain's RegisterDomain/AbstractDomain/SizedDomain/HasTop impls and Expression::bytesize is extracted verbatim from /repo on each run and verified by Verus against a P-Code oracle written over mathematical integers: Ok(v) implies v is exactly the P-Code value, Err exactly for float / >8-byte mult,div / division by zero. Unbounded in operand values and widths (1 bit .. 2^28 bits).",
        "level_note": "Trusted: the apint 0.2.0 contracts in shim/apint*.rs (external_body; the thorough tier cross-checks them against the real crate with Kani and a twin sweep), derive-generated code restated in shim/bytesize.rs and unit glue, rule R5 (failed assert diverges), 64-bit usize, widths <= 2^28 bits. Floating point is only proved to answer 'unknown'. Bool* operations are specified as bitwise on their operands. signed_mult_with_overflow_flag needs width >= 2 bits.",
        "design_ref": "DESIGN.md section 3 (C01)",
        "default_twins": ["c01.bin_op", "c01.un_op", "c01.cast", "c01.subpiece", "c01.add_ovf", "c01.sub_ovf", "c01.mul_flag"],
        "sweep_twins": ["c01.bin_op", "c01.un_op", "c01.cast", "c01.subpiece", "c01.add_ovf", "c01.sub_ovf", "c01.mul_flag"],
        "kani": ["c01"],
        "not_covered": [],
        "assumptions": [
            "apint 0.2.0 contracts in shim/apint.rs and shim/apint_ops.rs (external_body, written from the apint source; cross-checked by kani/ and replay sweep in the thorough tier)",
            "derive/derive_more generated code of ByteSize, BitvectorDomain (PartialEq, Clone, From, Add, Sub) restated in shim/bytesize.rs and @raw glue",
            "bit widths <= 2^28 and byte sizes <= 2^25 (usize/u64 width arithmetic is then overflow free); ByteSize -> BitWidth conversion diverges beyond that (assume_entry)",
            "rule R5: a failing assert!/assert_eq!/expect diverges; panic freedom is proved for unwrap() sites only",
            "64-bit target (usize = u64)",
            "floating point operations are only proved to yield 'unknown'",
        ],
    },
}


def twin_for(unit, label):
    for frag, twin in TWINS.get(unit, []):
        if frag in label.replace("impl BitvectorExtended for ", "").replace("impl RegisterDomain for ", "").replace("impl ", ""):
            return twin
    return None
