"""Property table: which units decide a property, which extracted functions carry its claim,
and which executable twin searches for a counterexample when an obligation in a function fails."""

# label (as in contracts/*.vc @fn path) -> twin name ; prefix match on the function label
TWINS = {
    "bitvector": [
        ("Bitvector::bin_op", "c01.bin_op"),
        ("Bitvector::un_op", "c01.un_op"),
        ("Bitvector::cast", "c01.cast"),
        ("Bitvector::subpiece", "c01.subpiece"),
        ("Bitvector::into_resize", "c01.cast"),
        ("Bitvector::signed_add_overflow_checked", "c01.add_ovf"),
        ("Bitvector::signed_sub_overflow_checked", "c01.sub_ovf"),
        ("Bitvector::signed_mult_with_overflow_flag", "c01.mul_flag"),
        ("BitvectorDomain::bin_op", "c01.domain_bin_op"),
        ("BitvectorDomain::un_op", "c01.domain_un_op"),
        ("BitvectorDomain::cast", "c01.domain_cast"),
        ("BitvectorDomain::subpiece", "c01.domain_subpiece"),
    ],
}

TWINS["memimage"] = [
    ("RuntimeMemoryImage::read_string_until_null_terminator", "c19.read_string"),
    ("RuntimeMemoryImage::read", "c19.read"),
    ("RuntimeMemoryImage::is_global_memory_address", "c19.read"),
    ("RuntimeMemoryImage::is_interval_readable", "c19.flags"),
    ("RuntimeMemoryImage::is_interval_writeable", "c19.flags"),
    ("RuntimeMemoryImage::is_address_writeable", "c19.flags"),
    ("RuntimeMemoryImage::get_ro_data_pointer_at_address", "c19.flags"),
]

TWINS["fixpoint"] = [("Computation", "c07.closure")]

TWINS["callgraph"] = [("find_call_sequences", "c24.calls")]

TWINS["mem_region"] = [("MemRegion", "c05.ops"), ("merge_or_merge_with_top", "c05.ops"), ("compute_range_end", "c05.ops"), ("Inner", "c05.ops")]

TWINS["interval_base"] = [("Interval::add", "c02.add"), ("Interval::contains", "c02.contains"), ("Interval::is_top", "c02.new"), ("Interval::new_top", "c02.new")]
TWINS["interval_arith"] = [("Interval::sub", "c02.sub"), ("Interval::signed_mul", "c02.signed_mul"), ("Interval::int_2_comp", "c02.int_2_comp"), ("Interval::bitwise_not", "c02.bitwise_not"),
    ("Interval::adjust_end_to_value_in_stride", "c02.adjust_end"), ("Interval::adjust_start_to_value_in_stride", "c02.adjust_start"), ("Interval::new", "c02.new"), ("Interval::signed_merge", "c03.interval_merge")]
TWINS["interval_bits"] = [("Interval::adjust_to_stride_and_remainder", "c02.adjust_to_stride_and_remainder"), ("Interval::zero_extend", "c02.zero_extend"), ("Interval::subpiece_higher", "c02.subpiece_higher"),
    ("Interval::subpiece_lower", "c02.subpiece_lower"), ("Interval::subpiece", "c02.subpiece"), ("Interval::piece", "c02.piece")]
TWINS["interval_intersect"] = [("extended_gcd", "c04.interval_intersect"), ("compute_intersection_residue_class", "c04.interval_intersect"), ("Interval::signed_intersect", "c04.interval_intersect")]
TWINS["interval_domain"] = [("IntervalDomain::add_signed_less_equal_bound", "c04.sle"), ("IntervalDomain::add_signed_greater_equal_bound", "c04.sge"), ("IntervalDomain::add_unsigned_less_equal_bound", "c04.ule"),
    ("IntervalDomain::add_unsigned_greater_equal_bound", "c04.uge"), ("IntervalDomain::add_not_equal_bound", "c04.ne"), ("IntervalDomain::intersect", "c04.intersect"),
    ("Bitvector::round_up_to_stride_of", "c04.sge"), ("Bitvector::round_down_to_stride_of", "c04.sle"),
    ("IntervalDomain::signed_merge", "c03.domain_merge"), ("IntervalDomain::merge", "c03.domain_merge"), ("IntervalDomain::update_widening", "c03.domain_merge"), ("IntervalDomain::new", "c02.domain_cast")]
TWINS["interval_domain_ops"] = [("IntervalDomain::bin_op", "c02.domain_bin_op"), ("IntervalDomain::un_op", "c02.domain_un_op"), ("IntervalDomain::cast", "c02.domain_cast"), ("IntervalDomain::subpiece", "c02.domain_subpiece"),
    ("IntervalDomain::add", "c02.domain_bin_op"), ("IntervalDomain::sub", "c02.domain_bin_op"), ("IntervalDomain::signed_mul", "c02.domain_bin_op"), ("IntervalDomain::shift_left", "c02.domain_bin_op"),
    ("IntervalDomain::piece", "c02.domain_bin_op"), ("IntervalDomain::zero_extend", "c02.domain_cast"), ("IntervalDomain::sign_extend", "c02.domain_cast")]

PROPS = {
    "C01": {
        "units": ["bitvector"],
        "level_text": "Every function of BitvectorExtended for Bitvector (cast, subpiece, un_op, bin_op with all 34 operations, the three overflow helpers, resize helpers, bytesize), BitvectorDomain's RegisterDomain/AbstractDomain/SizedDomain/HasTop impls and Expression::bytesize is extracted verbatim from /repo on each run and verified by Verus against a P-Code oracle written over mathematical integers: Ok(v) implies v is exactly the P-Code value, Err exactly for float / >8-byte mult,div / division by zero. Unbounded in operand values and widths (1 bit .. 2^28 bits).",
        "level_note": "Trusted: the apint 0.2.0 contracts in shim/apint*.rs (external_body; the thorough tier cross-checks them against the real crate with Kani and a twin sweep), derive-generated code restated in shim/bytesize.rs and unit glue, rule R5 (failed assert diverges), 64-bit usize, widths <= 2^28 bits. Floating point is only proved to answer 'unknown'. Bool* operations are specified as bitwise on their operands. signed_mult_with_overflow_flag needs width >= 2 bits.",
        "design_ref": "DESIGN.md section 3 (C01)",
        "default_twins": ["c01.bin_op", "c01.domain_bin_op", "c01.un_op", "c01.cast", "c01.subpiece", "c01.add_ovf", "c01.sub_ovf", "c01.mul_flag", "c01.domain_cast", "c01.domain_un_op", "c01.domain_subpiece"],
        "sweep_twins": ["c01.apint_err", "c01.bin_op", "c01.domain_bin_op", "c01.un_op", "c01.cast", "c01.subpiece", "c01.add_ovf", "c01.sub_ovf", "c01.mul_flag", "c01.domain_cast", "c01.domain_un_op", "c01.domain_subpiece"],
        "kani": ["c01"],
        "not_covered": [],
        "assumptions": [
            "apint 0.2.0 contracts in shim/apint.rs and shim/apint_ops.rs (external_body, written from the apint source; cross-checked by kani/ and replay sweep in the thorough tier)",
            "derive/derive_more generated code of ByteSize, BitvectorDomain (PartialEq, Clone, From, Add, Sub) restated in shim/bytesize.rs and @raw glue",
            "bit widths <= 2^28 and byte sizes <= 2^25 (usize/u64 width arithmetic is then overflow free); ByteSize -> BitWidth conversion diverges beyond that (assume_entry)",
            "rule R5: a failing assert!/assert_eq!/expect diverges; panic freedom is proved for unwrap() sites only",
            "64-bit target (usize = u64)",
            "floating point operations are only proved to yield 'unknown'",
        ],
    },
    "C18": {
        "units": ["cwe560", "cwe467"],
        "level_text": "Both decision functions of the property are extracted verbatim from /repo and verified. cwe_560::is_chmod_style_arg (with the two constants it reads) is proved for every u64 argument against the property's own numbers: true exactly when the argument exceeds 0o177 and differs from 0o777. cwe_467::check_for_pointer_sized_arg is proved for every project, block and extern symbol (any number of parameters, any pointer size, parameter values of any bit width): it returns true exactly when some parameter of the symbol evaluates successfully to a single known bitvector whose unsigned numeric value, independent of its bit width, fits a u64 and equals project.stack_pointer_register.size. Only the decisions are proved: how a parameter value is computed from the call block (a pointer-inference State folded over the block, State::eval_parameter_arg, DataDomain::try_to_bitvec) is an uninterpreted deterministic function of the call arguments.",
        "level_note": "Not covered: get_umask_permission_arg / compute_block_end_state bodies (pointer-inference State), State::eval_parameter_arg, State::handle_load/handle_store, DataDomain::try_to_bitvec, check_cwe of both modules (symbol map, call sites, warning generation). Trusted: rule R13 (immutable static emitted as exec static with its initialiser as ensures); shim/cwe467.rs (opaque types RuntimeMemoryImage/Program/CallingConvention/DatatypeProperties/Blk/State/Data; uninterpreted c467_block_end_state / c467_param_value / c467_known_value; Data::try_to_bitvec; spec-less PartialEq for Error; axiom_c467_result_eq_ok_left = std's derived PartialEq of Result<u64, Error> with an Ok left operand); @nobody contracts of cwe_467::compute_block_end_state and State::eval_parameter_arg (real signatures, bodies dropped); apint contract of Bitvector::try_to_u64. Project, ExternSymbol, Arg, Datatype, Term, Tid, Variable are extracted types, not models.",
        "design_ref": "DESIGN.md section 3 (C18)",
        "default_twins": [], "sweep_twins": [],
        "not_covered": ["cwe_560::get_umask_permission_arg (pointer-inference State over a block)", "cwe_560::check_cwe / generate_cwe_warning", "cwe_467::compute_block_end_state body (pointer-inference State folded over the block defs)", "pointer_inference::State::eval_parameter_arg / handle_load / handle_store bodies", "DataDomain::try_to_bitvec (which abstract values are a single known value)", "cwe_467::check_cwe / generate_cwe_warning (get_symbol_map, get_callsites)"],
        "assumptions": [
            "only the two decisions are decided; the computation of the argument / parameter values is out of reach of this technique (C13's reasons) and enters as uninterpreted deterministic functions c467_block_end_state, c467_param_value, c467_known_value",
            "try_to_bitvec returns Ok(v) exactly for the single known value v, and v is a well-formed bitvector (shim/cwe467.rs)",
            "std derived PartialEq on Result<u64, apint::Error>: Ok(a) == b iff b is Ok(a) (axiom_c467_result_eq_ok_left)",
            "apint contract Bitvector::try_to_u64: Ok iff the unsigned value < 2^64, then equal to it (shim/apint.rs); u64::from(ByteSize) is the wrapped number (shim/bytesize.rs)",
        ],
    },
    "C19": {
        "units": ["memimage"],
        "level_text": "RuntimeMemoryImage::{read, read_string_until_null_terminator, is_global_memory_address, is_interval_readable, is_interval_writeable, is_address_writeable, get_ro_data_pointer_at_address} are extracted from /repo and verified for every image whose segments are pairwise disjoint (adjacent segments included) with no bound on the number or size of segments: flag queries return the flags of the unique segment containing the address, read is Ok(None) exactly for a range inside one writable segment, Err exactly when no single segment contains the range, otherwise exactly the stored bytes assembled in the image's byte order; the string read returns exactly the bytes up to the first NUL of the containing segment.",
        "level_note": "Trusted (contracts = std documentation): for the string read, two R9 substitutions -- position of the first zero byte in a slice tail, CStr::from_bytes_with_nul / to_str (UTF-8 validity uninterpreted); for `read`, NO substitution: only an assume_specification of <[T]>::to_vec (same length, element-wise clone) in shim/memimage.rs -- slicing, into_iter/rev/collect, next/unwrap and the for loop over the vec::IntoIter are vstd's own specifications, and the byte-order assembly (the Piece fold) is verified from the real text with a loop invariant (value after k steps = big-endian value of the first k+1 bytes in read order) against the contract of Bitvector::bin_op(Piece), which is proved in unit bitvector (imported by @use, verified in the same run); the `?` on bin_op is proved unreachable. 'read-only' is read as 'not writable' (the code never consults read_flag in read). Addresses >= 2^64 and size 0 are outside the contract (the code panics). Not covered: ELF/PE/bare-metal constructors.",
        "design_ref": "DESIGN.md section 3 (C19)",
        "default_twins": ["c19.read", "c19.read_string", "c19.flags"],
        "sweep_twins": ["c19.read", "c19.read_string", "c19.flags"],
        "not_covered": ["RuntimeMemoryImage::new / from_elf_segments / from_elf_sections / new_from_bare_metal / get_base_address (goblin, string parsing, iterator adapters)", "add_global_memory_offset (iter_mut)", "MemorySegment constructors"],
        "assumptions": [
            "segments pairwise disjoint as half-open address ranges, base + len <= u64::MAX (the property's 'disjoint segments')",
            "R9: std contracts for slice position / CStr::from_bytes_with_nul / to_str (string read only); assume_specification of <[T]>::to_vec (shim/memimage.rs); the byte order of `read` is PROVED (Piece fold with loop invariant against unit bitvector's bin_op contract)",
            "address values < 2^64 and 1 <= size <= 2^25 (otherwise the real code panics)",
            "apint contracts (shim/apint.rs), rule R4/R5",
        ],
    },
    "C07": {'units': ['fixpoint'],
     'level_text': 'Computation::{from_node_priority_list, get_node_value, set_node_value, merge_node_value, update_edge, update_node, take_next_node_from_worklist, compute_with_max_steps, compute, '
                   'has_stabilized, get_graph, get_context, node_values} of analysis/fixpoint.rs are extracted verbatim from /repo on each run and verified by Verus for every graph, every well-formed '
                   'priority permutation and every Context whose merge is associative/commutative/idempotent: after compute(), and after compute_with_max_steps() when has_stabilized(), every edge '
                   'transfer is absorbed by the target value (closure); node values only grow (start values are below the results); steps[n] counts the processings of n and never exceeds max_steps; '
                   'compute_with_max_steps terminates.',
     'level_note': 'Not decided: termination of compute(), leastness of the result, independence of the result from the priority order (sampled by the bounded twin c07.closure only). Trusted: '
                   'shim/fixpoint.rs (petgraph DiGraph/NodeIndex/EdgeIndex, FnvHashMap, BTreeSet<usize> views), five R9 substitutions, the restated Context trait with spec functions. Hypotheses on the '
                   'Context: merge associative, commutative, idempotent; == on node values is spec equality; merge/update_edge/get_graph are functions of their arguments.',
     'design_ref': 'DESIGN.md section 3 (C07)',
     'default_twins': ['c07.closure'],
     'sweep_twins': ['c07.closure'],
     'kani': [],
     'not_covered': ['Computation::new (petgraph::algo::kosaraju_scc(..).into_iter().flatten().collect(): must yield a permutation of the nodes -- petgraph contract, not verified)',
                     'Computation::node_values_mut (returns impl Iterator<Item=&mut V>; HashMap::keys / values_mut iterators)',
                     'Computation::get_worklist (BTreeSet::iter().map(closure).collect())',
                     'create_bottom_up_worklist / create_top_down_worklist are not in fixpoint.rs'],
     'assumptions': ['HYPOTHESIS (join lattice): Context::merge is associative, commutative, idempotent (merge_laws)',
                     'HYPOTHESIS: == / != on NodeValue decide specification equality (eq_is_spec_eq)',
                     'HYPOTHESIS (transfer system): Context::merge, ::update_edge, ::get_graph are deterministic functions of their arguments (ensures r == *_spec(..) in the restated trait); they '
                     'terminate or diverge, no side effect on the Computation',
                     'shim/fixpoint.rs contracts of petgraph 0.6 / fnv / std BTreeSet (external_body), written from their documentation',
                     'rule R5: .expect(..) -> .unwrap() with proved precondition',
                     '64-bit target (usize = u64)']},
    "C24": {'units': ['callgraph', 'callgraph_build'],
     'level_text': 'find_call_sequences_from_node_to_target and find_call_sequences_to_target of analysis/callgraph.rs (and the types Tid, Term<T> of intermediate_representation/term.rs) are extracted '
                   'verbatim from /repo on each run and verified by Verus for every call graph and, through unit callgraph_build, for every program (any number of nodes and edges, cycles, self-calls, parallel calls) and every pair of nodes: the returned '
                   'set is exactly { tid(e) : the call edge e lies on some path of head-to-tail edges from the source node to the target node } (path-based specification written from the property '
                   'statement; the reading "source reaches the caller of e and the callee of e reaches target" is proved equivalent), the graph is never indexed with a non-existing edge, and both '
                   'depth-first searches terminate (measure: unvisited nodes, then stack length). The wrapper find_call_sequences_to_target returns that set for the first nodes labelled with the two '
                   'function tids.',
     'level_note': 'Claim is "for every call graph", not "for every program": get_program_callgraph (Term<Program> -> graph through a HashMap<Tid, NodeIndex>) is not verified; the bounded twin c24.calls '
                   'runs it on generated programs (cycles, self-calls, extern targets, CallInd) for all (source, target) pairs. Of "exactly", one step is assumed, not proved: the final '
                   '`.iter().filter_map(..).collect()` is an R9 substitution whose contract is "the tids of the edges contained in both edge sets". Trusted: shim/callgraph.rs (petgraph DiGraph seen as '
                   'an edge sequence, neighbors_directed / edges_directed / EdgeReference::id / Direction from the petgraph documentation, u32 index bounds, std BTreeSet::new/insert as a Set), the '
                   'restated type alias CallGraph, four R9 substitutions. find_call_sequences_to_target panics when a tid labels no node: not claimed.',
     'design_ref': 'DESIGN.md section 4 (C24)',
     'default_twins': ['c24.calls'],
     'sweep_twins': ['c24.calls'],
     'kani': [],
     'not_covered': ['get_program_callgraph (builds the graph from Term<Program>: BTreeMap::keys()/values() iterators, HashMap<Tid, NodeIndex>, nested for loops over &Vec fields with `if let Jmp::Call '
                     '{..}`; only exercised by the bounded twin c24.calls)'],
     'assumptions': ['shim/callgraph.rs contracts of petgraph 0.6 (neighbors_directed, edges_directed: every entry is an edge at the node in the given direction and every such edge has an entry; no '
                     'order, no multiplicity assumed; EdgeReference::id; Index<EdgeIndex> panics iff the edge does not exist; node/edge indices are u32; edges connect existing nodes) and std '
                     'BTreeSet::{new, insert} (external_body), written from their documentation',
                     'R9: the final `A.iter().filter_map(|edge| if B.contains(edge) { Some(GRAPH[*edge].tid.clone()) } else { None }).collect()` yields { tid(e) : e in A and e in B } (the assumed part '
                     'of "exactly")',
                     'R9: `callgraph.node_indices().find(|node| callgraph[*node] == *TID).unwrap_or_else(|| panic!(..))` yields the first node labelled TID and diverges when there is none; derived == on '
                     'Tid read as specification equality',
                     "the type alias CallGraph<'a> = DiGraph<Tid, &'a Term<Jmp>> is restated in the unit (the extractor does not pull type aliases); Jmp is extracted",
                     '64-bit target (usize = u64)']},
    "C05": {'units': ['mem_region'],
     'level_text': 'MemRegion<T>::{new, get_address_bytesize, clear_interval, insert_at_byte_index, add, get, get_unsized, remove, merge_write_top, mark_interval_values_as_top, '
                   'merge_values_intersecting_range_with_top, add_offset_to_all_indices, merge_inner, merge, is_top, top, entry_map}, Inner::into and the helpers merge_or_merge_with_top / '
                   'compute_range_end of abstract_domain/mem_region.rs are extracted verbatim from /repo on each run and verified by Verus for every value domain T satisfying the listed hypotheses, '
                   'every region and every offset (no bound on the number of cells): every mutator keeps the invariant "no stored cell is the unknown value or empty, no two stored cells overlap"; each '
                   'contract states the WHOLE resulting cell map: clear_interval/remove = the cells not meeting [p,p+s); insert/add = that plus {p -> v} unless v is the unknown value; get = the cell '
                   'with exactly that offset and size, else new_top(size); merge_write_top / mark_interval_values_as_top = cells meeting the range replaced by merge(cell, top) or dropped; '
                   'add_offset_to_all_indices = the same cells at shifted offsets; merge/merge_inner = exactly the cells both inputs hold at the same offset with the same size (merged, non-top) or that '
                   'one input holds and that meet no cell of the other (merged with top, non-top). Three verified client functions compose these into the read-after-write clause (write;read, '
                   'write;write;read, write;remove;read).',
     'level_note': "Trusted: vstd's specifications of std BTreeMap (new/insert/get/remove/contains_key/is_empty/iter with ascending ghost sequence), three R9 shim contracts for BTreeMap::range "
                   '(shim/mem_region.rs), rule R8 (Arc is transparent), the restated traits AbstractDomain/SizedDomain/HasTop with spec functions, the restated derive(PartialEq, Clone) of MemRegion (2 '
                   'external_body), apint/ByteSize shims. Hypotheses on T are assumed, not checked against BitvectorDomain/IntervalDomain/DataDomain. Not covered: mark_all_values_as_top, '
                   "clear_top_values, values_mut, iter, values, to_json_compact (values_mut()/retain(closure)/iterator-returning functions). Offsets are read as the two's-complement value of a position "
                   'of at most 64 bits.',
     'design_ref': 'DESIGN.md section 4 (C05)',
     'default_twins': ['c05.ops'],
     'sweep_twins': ['c05.ops'],
     'kani': [],
     'not_covered': ['MemRegion::values_mut (returns btree_map::ValuesMut: no vstd specification; clear_top_values states what re-establishes the invariant afterwards)',
                     'MemRegion::values: partial contract only (one item per cell, every stored value occurs; order / nothing-else not stated)',
                     'ToJsonCompact for MemRegion::to_json_compact (iterator chain into serde_json)',
                     'AbstractDomain::merge_with (trait default method, not used by mem_region.rs)'],
     'assumptions': ['HYPOTHESIS on T (mr_domain_ok): bytesize() <= 2^25 for every value (so `u64::from(bytesize) as i64` is exact)',
                     'HYPOTHESIS on T: merge of two values of equal bytesize has that bytesize',
                     'HYPOTHESIS on T: v.top() is a top value of the bytesize of v; T::new_top(s) is a top value of bytesize s',
                     'HYPOTHESIS on T: clone() returns its argument',
                     'HYPOTHESIS on T, MemRegion::merge only (mr_eq_is_spec_eq, mr_merge_idem): == decides specification equality; merge(v, v) == v',
                     'HYPOTHESIS on T (restated traits): bytesize / is_top / merge / top / new_top are deterministic functions of their arguments (ensures r == *_spec(..))',
                     'machine arithmetic (i64), stated as preconditions: position + size <= i64::MAX in clear_interval / insert_at_byte_index / add / remove / merge_write_top; end + elem_size <= '
                     'i64::MAX and elem_size < 2^63 in mark_interval_values_as_top; index + offset within i64 (and the shifted cell ends <= i64::MAX) for every stored cell in add_offset_to_all_indices; '
                     '0 < size < 2^63 in merge_write_top. `prev_pos + prev_size`, `index + size`, `index + 1` never overflow because every stored cell ends at or below i64::MAX (mr_in_range: established '
                     'by new(), kept by every operation)',
                     'BTreeMap::range panics when start > end: start <= end is a precondition of merge_values_intersecting_range_with_top (start <= end + elem_size for mark_interval_values_as_top); size '
                     '> 0 in clear_interval',
                     'positions are well-formed bitvectors of at most 64 bits (otherwise try_to_i64().unwrap() may panic)',
                     'rule R5: a failing assert!/assert_eq! diverges (width asserts of add/get/get_unsized/remove, size > 0 asserts, address_bytesize assert of merge_inner)',
                     'rule R8: Arc<Inner<T>> is treated as Inner<T>; Arc::make_mut(&mut x) as &mut x (copy-on-write sharing is unobservable to a value-level contract)',
                     'R9: contracts of BTreeMap::range(..hi).last(), range(lo..hi) front to back, range(lo..).next() in shim/mem_region.rs (std documentation); vstd BTreeMap specifications',
                     'derive(PartialEq, Eq, Clone) of MemRegion restated as external_body glue in contracts/mem_region.vc',
                     '64-bit target (usize = u64)']},
    "C02": {
        "units": ["bitvector", "interval_base", "interval_arith", "interval_bits", "interval_domain", "interval_domain_ops"],
        "level_text": "Every Interval transfer function of simple_interval.rs (new, new_top, is_top, add, sub, signed_mul, int_2_comp, bitwise_not, zero_extend, subpiece_higher, subpiece_lower, subpiece, piece, adjust_end/start_to_value_in_stride, adjust_to_stride_and_remainder, contains) and the IntervalDomain layer (interval.rs, bin_ops.rs) is extracted verbatim from /repo on each run and verified by Verus against gamma/inv written from the property: the result is well-formed (start <= end, end on the stride, stride 0 exactly for singletons, widths as P-Code prescribes) and contains op(x, y) for all members x, y of the inputs, for every value and every stride with no enumeration. Unbounded in values; widths as stated per function (all widths for add/sub/neg/not/subpiece/piece/zero_extend, <= 8 bytes where the code itself switches to i64/i128 arithmetic).",
        "level_note": "Machine-arithmetic preconditions (listed per function in the evidence): `(end - start) as u64` computed on i64 in adjust_* needs stride >= 2 ==> end - start <= i64::MAX (8-byte intervals with stride >= 2 spanning more than half the range; panics in debug builds, wraps correctly in release); new/adjust_* exactness only for widths <= 64 bit. Trusted: apint and gcd contracts, vstd bit-count specs, restated derives. IntervalDomain-level functions are in unit interval_domain_ops; functions it does not cover are listed under not_covered in the evidence.",
        "design_ref": "DESIGN.md section 3 (C02)",
        "default_twins": ["c02.add", "c02.sub", "c02.signed_mul", "c02.zero_extend", "c02.piece", "c02.domain_bin_op"],
        "sweep_twins": ["c02.add", "c02.sub", "c02.signed_mul", "c02.int_2_comp", "c02.bitwise_not", "c02.zero_extend", "c02.subpiece_higher", "c02.subpiece_lower", "c02.subpiece", "c02.piece", "c02.new", "c02.adjust_end", "c02.adjust_start", "c02.adjust_to_stride_and_remainder", "c02.contains", "c02.domain_bin_op", "c02.domain_un_op", "c02.domain_cast", "c02.domain_subpiece"],
        "not_covered": ["Display / serde impls", "std::ops::{Add,Sub,Neg} wrappers of IntervalDomain (one-line delegations to bin_op/un_op; the extractor pulls single functions and loses `type Output`)", "IntervalDomain::cast(PopCount|LzCount) is claimed for result widths <= 8 bytes and operand widths below 2^(8*width-1) bits only (observation: a 1-byte PopCount/LzCount of a non-constant 16-byte value yields start > end)"],
        "assumptions": ['apint 0.2.0 contracts (shim/apint.rs, shim/apint_ops.rs) and the gcd crate contract (shim/gcd.rs: returns the mathematical gcd; its divisibility properties are proved)', "vstd's specifications of u64::trailing_zeros / leading_zeros (assume_specification + axioms shipped with vstd)", 'derive-generated PartialEq/Clone of Interval, IntervalDomain, BitvectorDomain restated as structural equality / copy', 'rule R5 (a failing assert!/expect diverges); 64-bit usize; bit widths multiples of 8 (byte_w)'] + ["machine arithmetic: stride >= 2 ==> end - start <= i64::MAX in adjust_end/adjust_start/new (i64 subtraction); exactness of new/adjust_* for widths <= 64 bit"],
    },
    "C03": {
        "units": ["bitvector", "interval_arith", "interval_domain", "mem_region", "taint", "data_domain", "domain_map"],
        "level_text": "BitvectorDomain::merge, Interval::signed_merge, IntervalDomain::{signed_merge, signed_merge_and_widen, merge} are extracted verbatim and verified: the merge is well-formed, represents every value represented by either input, and is stable -- when one input's value set contains the other's, the result represents exactly that input (for the widening merge: no widening happens, proved via canonicity of intervals), for every pair of values of the same width (<= 8 bytes for the stability clauses). MemRegion::merge/merge_inner is verified against the property's cell rule (unit mem_region, see C05). Taint::{merge, merge_with} are verified: tainted iff either input is, stable, idempotent, merge_with agrees with merge. DataDomain<T>::merge (pointer/value sets; with is_top, bytesize, new_top, top, is_empty, new_empty, From<T>) is extracted verbatim and verified for every value domain T satisfying the listed hypotheses and any number of targets: the whole result is stated (targets = union with merged offsets for common targets, absolute part, Top flag, size) and from it: represents every concrete value (absolute bitvector or target+offset) represented by either input; stable when the other input is already absorbed; merging with itself represents the same set. DomainMap<K,V,S> (keyed maps): the three strategies' merge_map_with (Union, Intersect, MergeTop), the trait default merge_map and DomainMap::{merge, merge_with, is_top, new, default, from, deref, deref_mut} are extracted verbatim and verified for every key type, value domain and number of keys: the whole resulting map is stated per strategy, DomainMap::merge returns self when the maps are equal and otherwise exactly the strategy's result (no other shortcut is accepted), merge_with agrees with merge; under each strategy's reading of a missing key (bottom / maximal Top / default Top) every key/value pair represented by either input is represented by the merge, merging with something already absorbed does not enlarge the represented set, and merging a map with itself returns it.",
        "level_note": "DomainMap part: relative to hypotheses on V (merge over-approximates / is stable under V's merge precondition; clone and == are structural; V::merge_with leaves merge(x,y) in x; Intersect stability: is_top() values represent everything; MergeTop: all is_top() values represent the same default set and top() is_top()) -- satisfiable (toy domain in the unit), instantiation for IntervalDomain/DataDomain/Taint not performed -- and on K (lawful Ord, identity clone); trusted: R9 `entry(k).and_modify(F).or_insert_with(G)` -> contains_key/get_mut/insert and `retain(F)` -> loop over the keys with get_mut/remove (all closure texts kept verbatim and verified), `self != other` (&mut Self vs &Self) -> `*self != *other`, shim verif_dm_keys, derive(PartialEq, Clone) of DomainMap restated. Observations: MergeTopStrategy re-inserts a common key whose merged value is Top as merge(top(b), b) when that is not Top (its doc comment says removed; unreachable for DataDomain; C03 is proved for the code's rule); DomainMap::is_top is true for the empty map also under the Union reading where the empty map is the least element. Not covered: the trait default AbstractDomain::merge_with (compares &mut Self with &Self through core's reference PartialEq impl, no vstd spec). The claim is for the bitvector, interval, taint, pointer/value-set (DataDomain) and memory-region kinds. DataDomain: relative to hypotheses on T (merge over-approximates / is stable / clone is identity / keeps byte size, under T's own merge precondition) -- exactly the clauses proved for IntervalDomain in unit interval_domain, but the instantiation is not performed; trusted: R9 `entry(k).and_modify(F).or_insert_with(G)` -> contains_key/get_mut/insert with BOTH closure texts kept verbatim and verified under R10 headers (no shim function), vstd BTreeMap specs under obeys_cmp::<AbstractIdentifier>, opaque AbstractIdentifier with identity clone, restated traits. Widening needs the machine-arithmetic side conditions merge_span <= i64::MAX when the merged stride is >= 2 and widening_delay <= i64::MAX (8-byte values only). Observation outside the quantifier: Interval::signed_merge is not stable for widths above 64 bit (start distance >= 2^64 resets the stride to 1).",
        "design_ref": "DESIGN.md section 3 (C03)",
        "default_twins": ["c03.interval_merge", "c03.domain_merge", "c03.bitvector_merge"],
        "sweep_twins": ["c03.interval_merge", "c03.domain_merge", "c03.bitvector_merge"],
        "not_covered": ["DomainMap FromIterator::from_iter (collect into BTreeMap, not a merge)", "AbstractDomain::merge_with (trait default; &mut Self vs &Self comparison has no vstd spec)"],
        "assumptions": ['apint 0.2.0 contracts (shim/apint.rs, shim/apint_ops.rs) and the gcd crate contract (shim/gcd.rs: returns the mathematical gcd; its divisibility properties are proved)', "vstd's specifications of u64::trailing_zeros / leading_zeros (assume_specification + axioms shipped with vstd)", 'derive-generated PartialEq/Clone of Interval, IntervalDomain, BitvectorDomain restated as structural equality / copy', 'rule R5 (a failing assert!/expect diverges); 64-bit usize; bit widths multiples of 8 (byte_w)'] + ["machine arithmetic in signed_merge_and_widen: merged stride >= 2 ==> span of bounds and hints <= i64::MAX; widening_delay <= i64::MAX", "stability clauses of the interval merges for widths <= 64 bit", "domain_map: hypotheses dm_key_ok / dm_clone_ok / dm_eq_ok / dm_merge_hyp / dm_top_is_max (Intersect stability) / dm_top_default (MergeTop) on K and V; V's merge precondition on every pair a strategy merges", "data_domain: hypotheses dd_merge_hyp / dd_id_ok on T and AbstractIdentifier"],
    },
    "C04": {
        "units": ["interval_bits", "interval_intersect", "interval_domain", "data_domain"],
        "level_text": "SpecializeByConditional for IntervalDomain (add_signed_less_equal_bound, add_signed_greater_equal_bound, add_unsigned_less_equal_bound, add_unsigned_greater_equal_bound, add_not_equal_bound, intersect, without_widening_hints), StrideRounding::{round_up_to_stride_of, round_down_to_stride_of}, Interval::signed_intersect, compute_intersection_residue_class (Chinese remainder computation), extended_gcd and adjust_to_stride_and_remainder are extracted verbatim and verified for every value, bound and stride of widths up to 8 bytes: Ok(r) keeps every member of the input that satisfies the condition (and adds none), Err is returned only when no member satisfies it. SpecializeByConditional for DataDomain<T> (the five add_*_bound wrappers, without_widening_hints, intersect_relative_values, intersect) is extracted verbatim and verified for every T satisfying the listed hypotheses: Ok(r) keeps targets, Top flag, size and every absolute member satisfying the comparison (and adds none); Err only when self has no targets, no Top values and no absolute member satisfies it; intersect keeps every common concrete value.",
        "level_note": "Machine-arithmetic preconditions: `narrow` (stride >= 2 ==> end - start <= i64::MAX) for the bound functions; for intersect of 33..64 bit wide values lcm(stride_left, stride_right) <= u64::MAX (otherwise the i128 CRT arithmetic overflows and the code returns an error that callers read as 'unsatisfiable' -- observation, outside the precondition). The DataDomain part is relative to hypotheses on T (each add_*_bound / intersect of T satisfies the C04 clauses under T's own precondition: exactly the contracts proved for IntervalDomain; instantiation not performed) and to the model in which different identifiers denote different values. Trusted R9: `values_mut()` loop rewritten to keys + get_mut (body kept), `filter_map(..).collect()` rewritten to an insert loop (body kept), `x.into()` -> `DataDomain::from(x)`.",
        "design_ref": "DESIGN.md section 3 (C04)",
        "default_twins": ["c04.sle", "c04.sge", "c04.ule", "c04.uge", "c04.ne", "c04.intersect", "c04.interval_intersect"],
        "sweep_twins": ["c04.sle", "c04.sge", "c04.ule", "c04.uge", "c04.ne", "c04.intersect", "c04.interval_intersect"],
        "not_covered": ["data.rs helpers that are not refinements (replace_*, remove_ids, from_target, TryToBitvec/TryToInterval)"],
        "assumptions": ['apint 0.2.0 contracts (shim/apint.rs, shim/apint_ops.rs) and the gcd crate contract (shim/gcd.rs: returns the mathematical gcd; its divisibility properties are proved)', "vstd's specifications of u64::trailing_zeros / leading_zeros (assume_specification + axioms shipped with vstd)", 'derive-generated PartialEq/Clone of Interval, IntervalDomain, BitvectorDomain restated as structural equality / copy', 'rule R5 (a failing assert!/expect diverges); 64-bit usize; bit widths multiples of 8 (byte_w)'] + ["machine arithmetic: narrow() on the refined value; lcm of the strides <= u64::MAX for 33..64 bit wide intersections", "widths <= 64 bit"],
    },
}

# ---- C24 extended to whole programs by unit callgraph_build (overrides of the entry above) -------------------------
TWINS["callgraph_build"] = [("get_program_callgraph", "c24.calls"), ("cgb_query_program", "c24.calls")]
PROPS["C24"]["units"] = ["callgraph", "callgraph_build"]
PROPS["C24"]["level_text"] = (
    "find_call_sequences_from_node_to_target, find_call_sequences_to_target and get_program_callgraph of analysis/callgraph.rs (with the types Tid, Term, "
    "Program, Sub, Blk, Def, ExternSymbol, Arg, Datatype) are extracted verbatim from /repo on each run and verified by Verus. Query: for EVERY call graph (any "
    "number of nodes and edges, cycles, self-calls, parallel calls) and every pair of nodes the returned set is exactly { tid(e) : the call edge e lies on some "
    "path of head-to-tail edges from the source node to the target node } (path-based specification written from the property statement), the graph is never "
    "indexed with a non-existing edge, and both depth-first searches terminate. Build: for EVERY program whose sub terms carry a tid that is a key of "
    "program.term.subs the graph has exactly one node per function, and its edges are in one-to-one correspondence with the positions (function, block, jump) "
    "holding a direct call whose target is a function of the program, each edge from the caller's node to the callee's node carrying that jump; nothing else is "
    "an edge. A verified client composes both: find_call_sequences_to_target(&get_program_callgraph(p), s, t) returns exactly the tids of the direct calls "
    "between internal functions that lie on some chain of such calls from function s to function t -- stated over subs/blocks/jmps only.")
PROPS["C24"]["level_note"] = (
    "Claim is for every program under two hypotheses on Tid (vstd obeys_cmp and obeys_key_model: the derived Ord/Hash/Eq are lawful) and the precondition that "
    "every sub term's tid is a key of subs (implied by subs[k].tid == k; otherwise the code panics or attributes calls to another function). Jmp is the real extracted enum and "
    "the test `if let Jmp::Call { target, .. }` is verified verbatim. BTreeMap::keys()/values() are "
    "substituted by iter(). Of 'exactly', one step of the query is assumed, not proved: the final `.iter().filter_map(..).collect()` is an R9 substitution whose "
    "contract is 'the tids of the edges contained in both edge sets'. Trusted: shim/callgraph.rs and shim/callgraph_build.rs (petgraph DiGraph seen as an edge "
    "sequence: new / add_node / add_edge / neighbors_directed / edges_directed / EdgeReference::id / Direction from the petgraph documentation, u32 index bounds "
    "and capacity panics read as divergence, std BTreeSet::new/insert as a Set), vstd's HashMap/BTreeMap specifications, the restated type alias CallGraph. "
    "find_call_sequences_to_target panics when a tid labels no node: not claimed. The composition client is unit text (@raw): verified, probed by hand.")
PROPS["C24"]["not_covered"] = ["ordering of nodes/edges (BTreeMap iteration order) is not specified", "petgraph capacity panics (>= 2^32-1 nodes or edges)",
                               "panic of find_call_sequences_to_target for a tid that is no function"]
PROPS["C24"]["assumptions"] = PROPS["C24"]["assumptions"] + [
    "shim/callgraph_build.rs: petgraph DiGraph::new (empty), add_node (appends, returns old node count), add_edge (requires existing endpoints, appends, returns old edge count)",
    "HYPOTHESES vstd::laws_cmp::obeys_cmp::<Tid>() and vstd::std_specs::hash::obeys_key_model::<Tid>()",
    "R9: BTreeMap keys() / values() -> iter()",
    "PRECONDITION cgb_pre: forall k in subs: subs[k].tid is a key of subs",
]


# C18: the argument computation is outside the deductive claim (not_covered); an end-to-end bounded twin stands in for it.
PROPS["C18"]["standins"] = [
    ("c18.umask", "random call blocks (<= 7 definitions: copies, constants, add/sub/and/or/xor/mult, extensions, 4/8-byte stack stores and loads) through the "
                  "public cwe_560::check_cwe, compared with a concrete interpreter written from the property statement: known constant not chmod-style => no "
                  "warning; exactly followed constant > 0o177 and != 0o777 => one warning at the call"),
    ("c18.sizeof", "the same blocks through the public cwe_467::check_cwe with a two-parameter symbol: a parameter exactly 8 => one warning; all parameters known "
                   "constants != 8 => none"),
]

PROPS["C18"]["level_text"] = PROPS["C18"]["level_text"] + (
    " BOUNDED stand-in for that uncovered part (run on every check, labelled bounded, never counted as proved): random call blocks of up to 7 "
    "definitions (copies, constants, add/sub/and/or/xor/mult, zero/sign extension, 4- and 8-byte stack stores and loads) are run end to end through the "
    "public check_cwe of CWE-560 and CWE-467 of the real crate and compared with a concrete interpreter written from the property statement.")
PROPS["C18"]["level_note"] = PROPS["C18"]["level_note"] + (
    " The stand-in twins c18.umask / c18.sizeof (replay/src/c18.rs) decide only blocks whose outcome the property statement determines: a parameter that is a "
    "known constant outside the warning range must not warn (whatever the analysis knows); a constant that reached the parameter through steps the value "
    "analysis follows exactly (no multi-store loads) must warn. The stand-in found one defect on the pinned tree (class K1: a constant produced by an "
    "IntAdd/IntSub/IntMult that overflows the signed range was lost, Interval::add/sub/signed_mul answering Top also for two constants, so the warning was missing) "
    "-- repaired (fix: 1a158f4); a disagreement of that class is a plain violation again.")

# ---- C25 (unit logcollect, round 3) ------------------------------------------------------------------------------
TWINS["logcollect"] = [("collect_and_deduplicate", "c25.collect"), ("LogThread::collect", "c25.collect"), ("spawn", "c25.threads"),
                       ("get_msg_sender", "c25.threads"), ("lc_collect_standard", "c25.collect")]
PROPS["C25"] = {
    "units": ["logcollect"],
    "level_text": (
        "LogThread::{collect_and_deduplicate, spawn, collect, get_msg_sender} and Drop::drop of utils/log.rs (types Tid, LogLevel, LogMessage, CweWarning, "
        "LogThreadMsg, LogThread) are extracted verbatim on each run and verified by Verus against a ghost delivery history of the channel, for EVERY history of "
        "any length: with h = the history up to the first Terminate (or all of it on disconnect), the collector returns the addressed logs of h deduplicated by "
        "location.address (last one wins, one per address, ascending) followed by exactly the address-less logs of h in their order; the warnings returned are "
        "exactly the last warning of h per first address; every message of h is accounted for; the loop terminates (measure: history length minus cursor). spawn "
        "ties the thread's result to the collector's postcondition on the SAME channel its sender feeds; collect returns exactly the thread's result after having "
        "sent Terminate into that channel; a verified client composes spawn(collect_and_deduplicate) and collect(). The part of the property that quantifies over "
        "thread interleavings (a send that completed before collect() precedes collect's Terminate in the delivery order; per-sender FIFO; no loss) is the "
        "semantics of crossbeam-channel: assumed, not proved; the bounded twin c25.threads exercises it with real threads."),
    "level_note": (
        "Decided: the code against the delivery order of the channel (sequential content of the property: send order of address-less logs, last warning per "
        "address, nothing lost by the collector). NOT decided: the interleaving quantifier itself (channel linearisation, per-sender order, no loss/duplication, no "
        "foreign Terminate) -- trusted crossbeam semantics; blocking/liveness of recv and join beyond a finite history. The panic on a warning without address is "
        "divergence (R5): the collector thread panics, collect() panics in unwrap; the contract exports 'no such warning in h' for returning runs. 'Is returned' is "
        "read as 'accounted for' (deduplication drops earlier same-key messages, as the property's last clause demands). Trusted: shim/logcollect.rs (crossbeam "
        "Receiver::recv over a ghost history with ghost cursor, Sender::send/clone, unbounded; std::thread spawn/JoinHandle::join with an uninterpreted result "
        "predicate), six R9 substitutions (recv with ghost cursor; slice-pattern match -> len()==0 / &v[0]; values().cloned().chain(v).collect() and "
        "into_values().collect() -> values in ascending key order; thread::spawn(move || f(a)); send + ghost trace and join().unwrap() with the obligation "
        "'Terminate sent before'), hypothesis vstd obeys_cmp::<String>(), derive(Clone) of LogMessage yields an equal value. The composition clients are @raw text, "
        "verified and hand-probed. Renaming the collector's three state variables makes the unit undecided (invariants name them), never an alarm."),
    "design_ref": "DESIGN.md section 13 (C25)",
    "default_twins": ["c25.collect", "c25.threads"],
    "sweep_twins": ["c25.collect", "c25.threads"],
    "not_covered": [
        "channel semantics (linearisation of sends vs. collect's Terminate, per-sender order, loss or duplication, foreign Terminate): trusted",
        "blocking / liveness of recv and join beyond the finite-history model",
        "LogThread::create_disconnected_sender, print_all_messages, add_debug_log_statistics, the Display impls and the builder methods",
    ],
    "assumptions": [
        "shim/logcollect.rs contracts of crossbeam-channel (Receiver::recv over a ghost history with ghost cursor, Sender::send/clone, unbounded) and std::thread (JoinHandle predicate, join, spawn)",
        "R9: recv -> verif_recv(&mut ghost cursor); slice-pattern match -> len()==0 / &v[0]; values().cloned().chain(v).collect() and into_values().collect() -> values in ascending key order (then the vector)",
        "R9: thread::spawn(move || f(a)) -> join yields f(a); send -> send + ghost trace; .join().unwrap() -> join-unwrap with the 'Terminate sent before' obligation (Err = panic = divergence)",
        "HYPOTHESIS vstd::laws_cmp::obeys_cmp::<String>()",
        "derive(Clone) of LogMessage yields an equal value; R5 panic = divergence; fields of Tid and LogThread made pub",
        "64-bit target (usize = u64)",
    ],
}

TWINS["cwe560"] = [("is_chmod_style_arg", "c18.umask")]
TWINS["cwe467"] = [("check_for_pointer_sized_arg", "c18.sizeof")]
PROPS["C18"]["default_twins"] = ["c18.umask", "c18.sizeof"]
PROPS["C18"]["sweep_twins"] = ["c18.umask", "c18.sizeof"]

# ---- C16 (units callsites*, round 3) -----------------------------------------------------------------------------
TWINS["callsites"] = [("get_calls_to_symbols", "c16.dangerous"), ("find_symbol", "c16.ioctl")]
TWINS["callsites_676"] = [("", "c16.dangerous")]
TWINS["callsites_782"] = [("", "c16.ioctl")]
TWINS["callsites_426"] = [("", "c16.searchpath")]
TWINS["callsites_332"] = [("", "c16.prng")]
PROPS["C16"] = {
    "units": ["callsites", "callsites_676", "callsites_782", "callsites_426", "callsites_332"],
    "level_text": (
        "The four check_cwe functions of CWE-676 / 782 / 426 / 332 and their helpers (symbol_utils::get_calls_to_symbols, find_symbol; cwe_676::resolve_symbols, "
        "get_calls, generate_cwe_warnings; cwe_782::handle_sub, generate_cwe_warning; the CweWarning builder of utils/log.rs) are extracted verbatim from /repo on "
        "each run (with the real Project / Program / Sub / Blk / Jmp / ExternSymbol / AnalysisResults types) and verified by Verus for EVERY program and "
        "configuration: 676 reports, in program order, exactly one warning per position (function, block, jump) holding a direct call to an extern symbol whose "
        "name is on the configured list, carrying that call's address, tid and function name; 782 the same for the symbol found for \"ioctl\"; 426 reports exactly "
        "the functions that contain a direct call to the symbol found for \"system\" and a direct call to a symbol found for some configured name (none when "
        "either is absent); 332 reports as many warnings as there are configured pairs, in order and with multiplicity, whose generator is imported while the "
        "initializer is not. find_symbol is proved to return the first (least key) extern symbol with the given name, None iff there is none."),
    "level_note": (
        "'Imported symbol' is read as the code reads it, stated exactly: the BTreeMap key in 676, the tid field of the FIRST symbol with that name in 782 / 426. "
        "For programs whose extern symbols have pairwise different names this is the property's reading; for two symbols with the same name 782 and 426 look "
        "only at the first one -- open findings F1 (known_findings.txt; the two failing programs are re-run on every check and printed as KNOWN-FINDING). 332: only "
        "the NUMBER of warnings is proved (the pair's names occur only in the format! text, which is unspecified); the bounded twin c16.prng compares the texts. "
        "Not decided: name / version / description text of the warnings; a configuration that fails to deserialize diverges (R5-style). Trusted: vstd's HashMap / "
        "BTreeMap specifications under obeys_cmp::<Tid>, obeys_key_model::<&Tid>, obeys_key_model::<&String>; four reference-key lookup axioms (a HashMap<&K, V> / "
        "HashSet<&K> looked up with a &K finds the equal key), String extensionality, &str == String and String::from(&str) specifications, determinism of "
        "format!(tid) and of serde deserialisation (uninterpreted functions), the R9 substitutions listed in the unit headers (named ghost iterators; values() -> "
        "iter(); find(closure with side effect) -> flag loop evaluating the closure body verbatim up to the first true; collect chains -> explicit loops with the "
        "closure bodies verbatim), CweModule / CWE_MODULE restated without the function pointer."),
    "design_ref": "DESIGN.md section 13 (C16)",
    "default_twins": ["c16.dangerous", "c16.ioctl", "c16.searchpath", "c16.prng"],
    "sweep_twins": ["c16.dangerous", "c16.ioctl", "c16.searchpath", "c16.prng"],
    "not_covered": [
        "warning name / version / description text",
        "cwe_332: identity of the reported pair (only in the text); bounded twin c16.prng",
        "panic on a malformed configuration",
        "symbol_utils::get_symbol_map, get_symbol_map_fast, get_callsites",
        "CweModule.run / module registration",
    ],
    "assumptions": [
        "HYPOTHESES obeys_cmp::<Tid>(), obeys_key_model::<&Tid>(), obeys_key_model::<&String>()",
        "shim/callsites.rs: axiom_cs_{contains_ref_key, maps_ref_key_to_value, set_contains_ref_key, sets_ref_key_to_key}, axiom_cs_string_ext",
        "assume_specification for <&str as PartialEq<String>>::eq and <String as From<&str>>::from; ToString::to_string without postcondition",
        "cs_tid_fmt / verif_format_tid (format! of a Tid is a deterministic function of it); cs_parsed / verif_from_value_or_panic (serde)",
        "R9 substitutions listed in the unit headers; CweModule and the four CWE_MODULE statics restated",
        "everything imported with units callgraph_build / callgraph / bitvector (IR data model)",
        "64-bit target (usize = u64)",
    ],
}

# ---- C08 (unit cfgbuild, round 3) ---------------------------------------------------------------------------------
TWINS["cfgbuild"] = [("get_program_cfg", "c08.cfg"), ("build", "c08.cfg"), ("add_", "c08.cfg"), ("get_entry_nodes_of_subs", "c08.cfg"), ("GraphBuilder", "c08.cfg")]
PROPS["C08"] = {
    "units": ["cfgbuild"],
    "level_text": (
        "GraphBuilder::{new, add_block, add_program_blocks, add_subs_to_call_targets, add_intraprocedural_edge, add_indirect_jumps, add_jump_edge, "
        "add_outgoing_edges, add_call_return_node_and_edges, add_return_edges, add_jump_and_call_edges, build}, get_program_cfg, get_program_cfg_with_logs, "
        "get_entry_nodes_of_subs and Node::{get_block, get_sub} of analysis/graph.rs are extracted verbatim from /repo on each run (with the real Node / Edge "
        "enums and the IR types) and verified by Verus for every program satisfying the stated well-formedness preconditions. The builder is viewed through a "
        "ghost state (node weights and labelled edges in index order, the four maps, the worklist); every function's contract states the WHOLE change: "
        "final state == step(old state, args) where step lists exactly the added nodes and edges (frame included). Per step this is the property's clause list: "
        "add_block: one start node, one end node, one Block edge per (block, function) pair; Branch / CBranch: one Jump edge (second jump of a block carries the "
        "untaken conditional); BranchInd: one Jump edge per target hint; direct call to an extern symbol or indirect call: one ExternCallStub edge iff there is a "
        "return target; direct call to an internal function: CallSource node, CallCombine and Call edges to the callee's entry, and -- per returning block of the "
        "callee and call site with a return target -- a CallReturn node with CrCallStub / CrReturnStub / ReturnCombine edges; CallOther / Return / unknown "
        "targets: nothing. build is proved to be the chain of these steps, and a verified client composes 50 lemmas into the global statement: one node pair and "
        "one Block edge per registered pair, every (block, function listing it) registered, every BlkEnd node processed by exactly one round, nothing changed "
        "afterwards, call targets = functions with a first block, return linkage added last. All panic sites (node-kind matches, map indexing, find_block "
        "unwrap, more than two jumps) are proved unreachable from the invariant and the preconditions."),
    "level_note": (
        "Partial correctness: termination of the worklist loop add_jump_and_call_edges is NOT proved (exec_allows_no_decreases_clause). The global statement is "
        "cfg_global (unique pairs; final edge sequence = Block edges of program positions ++ the per-round contributions, each BlkEnd in exactly one round, ++ "
        "return linkage), NOT a closed-form multiset comprehension over (pair, jump index, hint index): that flattening lemma is missing; the bounded twin "
        "c08.cfg compares the labelled node/edge multisets of the real get_program_cfg with a declarative reference (6006 programs). Preconditions read from "
        "'well-formed normalized program': sub tids and block tids identify a term (W1, W2), at most two jumps per block and every block tid a jump names "
        "exists (W3), positions unique (W4, global statement only). Trusted: shim/cfgbuild.rs (11 external_body: Index<NodeIndex> for DiGraph with 'node "
        "exists' as proved precondition, DiGraph::clone, node_indices, HashMap::get_mut on a present key, find(first Call), any(Return), keys().cloned()."
        "collect(), LogMessage opaque), Program::find_block a VERIFIED body since round 4 (first block with the tid in key order / list order; the former axiom_cfg_find_block is the proved lemma_cfg_find_block_ok), R9 substitutions (panic! -> requires-false call: an obligation, "
        "not an assumption; slice patterns -> len tests; m[&k] -> m.get(&k).unwrap(); entry().and_modify().or_insert_with() -> contains_key / get_mut / insert "
        "with both closures verbatim; named ghost iterators), hypotheses obeys_key_model::<Tid>, ::<(Tid, Tid)>, obeys_cmp::<Tid>, and everything imported "
        "with callgraph_build (petgraph DiGraph as an edge sequence, u32 index bound). Node / edge ORDER only up to the unspecified BTreeMap order."),
    "design_ref": "DESIGN.md section 13 (C08)",
    "default_twins": ["c08.cfg"],
    "sweep_twins": ["c08.cfg"],
    "not_covered": [
        "termination of GraphBuilder::add_jump_and_call_edges (worklist)",
        "closed-form edge multiset of the final graph (flattening of the per-round contributions); bounded twin c08.cfg",
        "node / edge order (BTreeMap iteration order unspecified)",
        "petgraph u32 capacity panics",
        "ToJsonCompact, Display, HasCfg",
    ],
    "assumptions": [
        "shim/cfgbuild.rs: 10 external_body items (DiGraph indexing / clone / node_indices, HashMap::get_mut on a present key, find(Call), any(Return), key set, LogMessage)",
        "R9 in Program::find_block: `subs.iter().flat_map(|(_, s)| A).find(|b| B)` -> nested for loops over the entries in key order and the blocks in list order with A and B verbatim, return at the first hit (std documentation of BTreeMap::iter / flat_map / find); alias Graph restated",
        "R9 substitutions of the unit header (panic! -> cfg_panic() requires false; slice patterns; map indexing; entry chain; ghost iterators; node_indices -> Vec)",
        "HYPOTHESES obeys_key_model::<Tid>(), obeys_key_model::<(Tid, Tid)>(), obeys_cmp::<Tid>()",
        "PRECONDITIONS W1-W4 (well-formed normalized program): unique sub / block tids, <= 2 jumps per block, named block tids exist, unique positions",
        "imported with callgraph_build: petgraph DiGraph::{new, add_node, add_edge}, axiom_cg_digraph_bounds, Tid::clone",
        "64-bit target (usize = u64)",
    ],
}

# ---- C17 (units reachcheck*, round 3) -----------------------------------------------------------------------------
TWINS["reachcheck"] = [("is_sink_call_reachable_from_source_call", "c17.reach")]
TWINS["reachcheck_243"] = [("blk_calls_tid", "c17.chroot"), ("sub_calls_chdir", "c17.chroot"), ("check_cwe", "c17.chroot")]
TWINS["reachcheck_367"] = [("check_cwe", "c17.toctou")]
PROPS["C17"] = {
    "units": ["reachcheck", "reachcheck_243", "reachcheck_367"],
    "level_text": (
        "graph_utils::is_sink_call_reachable_from_source_call, cwe_243::{blk_calls_tid, sub_calls_chdir_and_priviledge_dropping_func, check_cwe}, "
        "cwe_367::check_cwe and Node::get_block are extracted verbatim from /repo on each run (with the real Node / Edge enums, Jmp, Project, AnalysisResults) and "
        "verified by Verus for EVERY control flow graph (the graph is an arbitrary input; how it is built from a program is C08). The search is proved exact in "
        "both directions: the result is Some iff an ExternCallStub edge that is a direct call to the use symbol leaves a node reachable from the start node along "
        "intraprocedural edges (every kind except Call and CrReturnStub) without traversing an ExternCallStub edge that is a direct call to the check symbol; "
        "Some(tid) is the tid of such a call; nothing is indexed out of range; both loops terminate (measure: unvisited nodes, then worklist length). "
        "cwe_367::check_cwe reports exactly one warning per (configured pair with both symbols imported, ExternCallStub edge of a direct call to the check "
        "symbol) for which a use call is reachable from the edge's target. cwe_243::check_cwe (no precondition on the graph, no panic site left) reports exactly "
        "one warning per BlkEnd node whose block calls chroot when chdir is not imported, or when no chdir call is reachable from the return site of the chroot "
        "call (target of the call's own ExternCallStub edge; none when the call does not return) and the function does not call both chdir and an imported "
        "configured privilege-dropping function."),
    "level_note": (
        "'It handles every program without failing' was REFUTED for the chroot check on the pinned tree (two programs panicked) and repaired (fix: b82ac12); it is "
        "now proved unconditionally for cwe_243::check_cwe. cwe_367::check_cwe keeps one graph precondition (rc367_pre: the target of every reporting edge is a "
        "BlkStart node -- a fact about the CFG builder, C08; its `_ => panic!` arm is a proved obligation under it). Corner use == check: the use test comes first, "
        "so a reachable second call to the symbol is a hit, never a barrier (the property text is silent; the spec reads 'reaching the call is not passing it'). Not "
        "decided: which of several hits' tids is returned; which of several return edges of one call site is used (arbitrary graphs only); warning texts; config "
        "parsing (a malformed config diverges); which symbol wins when several extern symbols share a name. Trusted: shim/reachcheck.rs (petgraph graph.edges(a) = "
        "exactly the outgoing edges with index, endpoints, weight; key model for NodeIndex so that vstd's HashSet specs apply), shim/reachcheck_checks.rs "
        "(Index<NodeIndex> with 'node exists' as proved precondition, node_indices / edge_references as Vecs, Iterator::any through the closure's ensures, "
        "deterministic config parse, symbol map chain), the two generate_cwe_warning as @nobody; find_symbol is extracted and PROVED in unit reachcheck_243 since round 4 (first, least key, extern symbol with the name; cwe_367 does not call it), "
        "R9 substitutions (`for` with `continue` -> `while let Some(x) = it.next()` over a verified iterator; filter_map/collect -> explicit loop with the closure "
        "body verbatim; panic! -> requires-false call), everything imported with callgraph_build."),
    "design_ref": "DESIGN.md section 13 (C17)",
    "default_twins": ["c17.reach", "c17.chroot", "c17.toctou"],
    "sweep_twins": ["c17.reach", "c17.chroot", "c17.toctou"],
    "not_covered": [
        "CFG construction (C08): that a built graph satisfies rc367_pre and that the return edge exists iff the call has a return target",
        "which hit's tid is reported; which of several return edges of one call site (arbitrary graphs only)",
        "warning text and configuration parsing",
        "several extern symbols with the same name",
        "petgraph u32 capacity",
    ],
    "assumptions": [
        "shim/reachcheck.rs: verif_rc_edges (graph.edges), axiom_rc_node_index_key_model, Hash for NodeIndex",
        "shim/reachcheck_checks.rs: DiGraph Index<NodeIndex>, node_indices / edge_references as Vecs, verif_rc_any, verif_rc_parse_config, verif_rc_never (requires false), RcSymbolMap",
        "@nobody: both generate_cwe_warning (uninterpreted functions of their arguments; format! / to_string have no vstd postcondition)",
        "HYPOTHESIS rc_tid_ord_hyp() = vstd::laws_cmp::obeys_cmp::<Tid>() on find_symbol and cwe_243::check_cwe (vstd states BTreeMap::iter under it)",
        "shim/reachcheck_findsym.rs: assume_specification of <&str as PartialEq<String>>::eq (equality of the characters); R9 in find_symbol: `M.iter().find(|(A, B)| BODY)` -> flag loop with BODY verbatim (as in unit callsites)",
        "R9 substitutions listed in the unit headers",
        "HYPOTHESIS rc367_pre (cwe_367 only): the target of every reporting ExternCallStub edge is a BlkStart node",
        "everything imported with callgraph_build / callgraph / bitvector",
        "64-bit target (usize = u64)",
    ],
}

# ---- C06 (units charincl, bricks, round 3) ------------------------------------------------------------------------
TWINS["charincl"] = [("CharacterInclusionDomain::merge", "c06.ci_merge"), ("CharacterInclusionDomain::append_string_domain", "c06.ci_append"),
                     ("CharacterSet", "c06.ci_merge"), ("CharacterInclusionDomain", "c06.ci_append")]
TWINS["bricks"] = [("BricksDomain::normalize", "c06.br_normalize"), ("BricksDomain::merge", "c06.br_merge"), ("BricksDomain::widen", "c06.br_widen"),
                   ("BricksDomain::pad_list", "c06.br_widen"), ("BricksDomain::append_string_domain", "c06.br_append"), ("BrickDomain::", "c06.br_brick"),
                   ("Brick::", "c06.br_normalize"), ("BricksDomain", "c06.br_loop")]
PROPS["C06"] = {
    "units": ["charincl", "bricks"],
    "level_text": (
        "CharacterInclusionDomain::{merge, append_string_domain, From<String>, the constructors} and CharacterSet::{union, intersection, ..} of "
        "character_inclusion.rs, and BricksDomain::{pad_list, widen, merge, append_string_domain, normalize}, BrickDomain::{widen, merge} and the brick "
        "transforms of bricks/brick.rs (rules 1, 3, 4, 5, generate_permutations_of_fixed_length) are extracted verbatim from /repo on each run and verified by "
        "Verus against a concretisation written from the module documentation and Costantini et al. (character inclusion: certain <= chars(s) <= possible; "
        "bricks: concatenation of one member of each brick, a brick = between min and max strings of its set), for every value -- any number of bricks, any "
        "strings, any bounds: gamma(a) u gamma(b) <= gamma(merge(a, b)); s in gamma(a), t in gamma(b) ==> s + t in gamma(append(a, b)); gamma(normalize(x)) == "
        "gamma(x) (both inclusions); normalize terminates (measure: bricks outside the normal form Top / {1,1} / {0,max} weigh 3, others 1; every rule "
        "application decreases the sum). No enumeration, no bound on alphabet, sequence length or repetition bounds."),
    "level_note": (
        "On the pinned tree the brick clauses could NOT be claimed: normalize / merge did not terminate on inputs reachable through the public API and rule 4's u32 "
        "sums overflowed (unsound in release builds) -- both repaired (fix: 8a58ccd, known_findings.txt); the proof is for the repaired text and has no arithmetic "
        "precondition left (rule 4's sums are discharged from its guard). Preconditions: min <= max for BrickDomain::widen and BricksDomain::widen / merge (u32 "
        "subtraction in the threshold test); non-Top operands where the code calls unwrap_value (documented). Rule 2 (Brick::merge_bricks_with_bound_one) is a VERIFIED body since round 4 (only itertools' cartesian_product is behind a shim contract: exactly the pairs, no order; "
        "the concatenation loop with the closure body verbatim is proved). Trusted: BricksDomain::is_less_or_equal / all_bricks_are_top "
        "assumed to return (widen is proved sound whatever they answer), hypothesis obeys_cmp::<String>(), shim/charincl.rs (3 collect chains as set operations), "
        "shim/bricks.rs (5 items + u32 min/max), 10 restated derives, the R9 substitutions listed in the units (for-with-continue -> while; zip loop -> index loop; "
        "collect chains; set ==), R5 (a panic diverges). Observation, not repaired: CharacterInclusionDomain::merge panics when a certain set is CharacterSet::Top "
        "(reachable only through deserialisation)."),
    "design_ref": "DESIGN.md section 13 (C06)",
    "default_twins": ["c06.ci_merge", "c06.ci_append", "c06.br_brick", "c06.br_append", "c06.br_widen", "c06.br_normalize", "c06.br_merge"],
    "sweep_twins": ["c06.ci_merge", "c06.ci_append", "c06.br_brick", "c06.br_append", "c06.br_widen", "c06.br_normalize", "c06.br_merge", "c06.br_loop"],
    "not_covered": [
        "BrickDomain / BricksDomain::is_less_or_equal, all_bricks_are_top (the partial order)",
        "create_float / create_integer / create_char placeholder domains, Display impls",
        "whether widen enforces a finite ascending chain",
    ],
    "assumptions": [
        "HYPOTHESIS vstd::laws_cmp::obeys_cmp::<String>()",
        "shim/charincl.rs: intersection / union / chars collect chains as set operations (std documentation)",
        "shim/bricks.rs: verif_br_union_collect, verif_br_concat (String + &String), verif_br_vec_to_set, verif_br_set_eq, verif_br_cartesian_product (itertools cartesian_product + collect_vec: exactly the pairs of the two sets, no order or multiplicity assumed); u32 min / max restated and verified",
        "@nobody: BricksDomain::is_less_or_equal, all_bricks_are_top (NO postcondition assumed)",
        "R9 in merge_bricks_with_bound_one: `.iter().map(|&(a, b)| BODY).collect()` -> explicit insert loop with BODY verbatim; `String + &String` -> verif_br_concat; the cartesian product chain -> verif_br_cartesian_product",
        "restated derives (PartialEq / Eq / Clone) of CharacterSet, CharacterInclusionDomain, Brick, BrickDomain, BricksDomain",
        "R9 substitutions listed in the unit headers; R5 (panic = divergence); vstd specifications of BTreeSet, Vec, String, u32::checked_add",
        "64-bit target (usize = u64)",
    ],
}

# ---- C07 extension (units fwd_fixpoint, bwd_fixpoint, round 3) ----------------------------------------------------
TWINS["fwd_fixpoint"] = [("GeneralizedContext", "c07b.adapter"), ("create_", "c07b.adapter"), ("merge_option", "c07b.adapter"), ("unwrap_value", "c07b.adapter")]
TWINS["bwd_fixpoint"] = [("GeneralizedContext", "c07b.backward"), ("create_", "c07b.backward"), ("BfFns", "c07b.backward")]
PROPS["C07"]["units"] = ["fixpoint", "fwd_fixpoint", "bwd_fixpoint"]
PROPS["C07"]["default_twins"] = PROPS["C07"]["default_twins"] + ["c07b.adapter", "c07b.backward"]
PROPS["C07"]["sweep_twins"] = PROPS["C07"]["sweep_twins"] + ["c07b.adapter", "c07b.backward"]
PROPS["C07"]["level_text"] = PROPS["C07"]["level_text"] + (
    " The adapters GeneralizedContext of forward_interprocedural_fixpoint.rs and backward_interprocedural_fixpoint/mod.rs (which turn an analysis' "
    "interprocedural Context into the solver's transfer system) are extracted verbatim and verified too: for every graph, context and node value update_edge "
    "equals a per-edge-kind specification written from the module documentation (forward: Block = short-circuiting fold of update_def; Jump = "
    "specialize_conditional, then update_jump, an unsatisfiable condition blocks the edge; CallCombine / Call / CrCallStub / CrReturnStub / ReturnCombine / "
    "ExternCallStub as documented; backward: defs folded last to first, call/return slots as documented), merge is slot-wise, the adapter is a checked instance "
    "of the solver-level Context trait, create_bottom_up_worklist / create_top_down_worklist return a permutation of all nodes (what from_node_priority_list "
    "requires, discharged at the real call sites), and no panic site is reachable under node-kind / value-variant preconditions that are proved to be an "
    "inductive invariant of a solver run.")
PROPS["C07"]["level_note"] = PROPS["C07"]["level_note"] + (
    " Adapter units: the interprocedural Context traits are restated with one uninterpreted (deterministic) spec function per method; the solver's "
    "Computation is opaque here with the contracts of new / from_node_priority_list copied from unit fixpoint (the two units sit on different petgraph shims, so "
    "the composition solver + adapter is by matching contract text, not mechanical). Trusted: shim/fwd_fixpoint.rs (edge_endpoints, edge / node weight lookup, "
    "retain_edges keeps the node count, kosaraju_scc partitions the node indices, flatten), R9 substitutions (panic! -> requires-false call; try_fold -> explicit "
    "loop stopping at the first None with the closure body verbatim; .map(Constructor) -> closure; retain_edges predicate dropped; scc/flatten/collect chain), "
    "hypothesis clone yields an equal value. Not decided: that graphs built by get_program_cfg satisfy the edge-kind preconditions (sampled by the twins "
    "c07b.adapter / c07b.backward on built CFGs); lattice laws and monotonicity of the resulting system (hypotheses of C07).")
PROPS["C07"]["not_covered"] = PROPS["C07"]["not_covered"] + [
    "that CFGs built by get_program_cfg satisfy the adapters' edge-kind preconditions (C08 / bounded twins)",
    "mechanical composition of unit fixpoint with the adapter units (different petgraph shims); the retain_edges predicates of the worklist constructors",
]
PROPS["C07"]["assumptions"] = PROPS["C07"]["assumptions"] + [
    "adapter units: interprocedural Context traits restated (uninterpreted deterministic spec per method); Computation opaque with contracts copied from unit fixpoint",
    "shim/fwd_fixpoint.rs: edge_endpoints, edge/node weight lookup, retain_edges, kosaraju_scc (partition of the node indices), flatten; R9 substitutions of the unit headers",
]

# ---- C20 (unit formatstr, round 3) --------------------------------------------------------------------------------
TWINS["formatstr"] = [("parse_format_string_parameters", "c20.parse"), ("Datatype::from", "c20.parse"), ("get_size_from_data_type", "c20.parse")]
PROPS["C20"] = {
    "units": ["formatstr"],
    "level_text": (
        "utils::arguments::parse_format_string_parameters, Datatype::from(String) and DatatypeProperties::get_size_from_data_type are extracted verbatim from "
        "/repo on each run and verified by Verus for every format string and every DatatypeProperties, RELATIVE TO A TRUSTED MODEL of the one regular expression "
        "(the regex engine cannot be executed or reasoned about by the verifier): the match sequence of the regex is the spec function fs_captures, written from "
        "the regex literal. Against that model the property is proved as stated: for every sequence of grammar items (literal text without '%', the escape '%%', "
        "conversions with an optional flag from + - # 0, ASCII-digit width, '.' plus optional digits as precision, and the 45 conversion / length forms) the "
        "rendered string yields, in order, exactly one (type, size) entry per conversion with the documented type (c / C promoted to the integer size; d i u o p x "
        "X hi hd hu Integer; s S n Pointer; the float forms Double) and is rejected (Err) exactly when some conversion is a long / long long / long double form "
        "(lemma_fs_groups_of_render covers literal text ending in a digit, 'l' / 'h' / 'L' or '.', a bare '.', '%%' directly before a conversion letter). The 50-literal "
        "match of Datatype::from is verified verbatim and its panic arm is proved unreachable for every specifier the model can produce from ANY string."),
    "level_note": (
        "On the pinned tree the property was violated: '%%x' yielded one Integer parameter (the escape's second % and the letter matched the regex); repaired "
        "(fix: 85876a6, known_findings.txt). The regex MODEL is an assumption about the regex crate, kept honest in two ways: the R9 pattern that replaces the "
        "regex head contains the regex LITERAL, so any edit of the regex leaves the run undecided and the bounded twins decide (c20.parse generates strings from the "
        "grammar and never re-parses them; on the pre-fix tree it reports '%%x'); the twin c20.regex_model compares an executable copy of fs_captures with the "
        "real regex crate on all 39 million strings of length <= 7 over a 12-character alphabet plus random longer ones (thorough tier). Modelled semantics: "
        "leftmost-first, non-overlapping matches, greedy = backtracking for this expression, \\d = Unicode Nd. Not covered: the callers (get_variable_parameters, "
        "get_input_format_string), format strings outside the grammar (observations: '%lx' / '%hhd' / '%zu' are silently skipped, not rejected; '%5%d' yields a "
        "parameter; '%p' is typed Integer as the property's table says). Trusted also: str extensionality axiom, Clone for Datatype restated, R4 / R2, the flag-loop "
        "substitution for any()."),
    "design_ref": "DESIGN.md section 13 (C20)",
    "default_twins": ["c20.parse"],
    "sweep_twins": ["c20.parse", "c20.regex_model"],
    "not_covered": [
        "the regex crate itself (model cross-checked by the bounded twin c20.regex_model only)",
        "callers: get_variable_parameters, get_input_format_string, calculate_parameter_locations",
        "format strings outside the grammar (other length modifiers, several flags, '*', positional arguments, non-ASCII digits)",
        "error payload",
    ],
    "assumptions": [
        "verif_fs_regex_captures == fs_captures (leftmost-first, non-overlapping, greedy == backtracking for this expression, \\d = Unicode Nd, Regex::new succeeds)",
        "axiom_fs_str_ext (a str is determined by its characters); axiom_fs_unicode_nd_not_ascii",
        "Clone for Datatype restated; fs_panic requires false (the panic arm is an obligation)",
        "R9 substitutions a / b / c of contracts/formatstr.vc (regex head incl. the literal -> shim call + loop with the closure body verbatim; any() -> flag loop; panic!)",
        "R4 (error payload dropped), R2; shim/prelude.rs, shim/bytesize.rs",
        "64-bit target (usize = u64)",
    ],
}

# ---- C08 / C17 / C07 after the shape-invariant follow-up of unit cfgbuild -----------------------------------------
PROPS["C08"]["units"] = ["cfgbuild", "cfgbuild_rc367"]
PROPS["C08"]["level_note"] = PROPS["C08"]["level_note"] + (
    " Follow-up: the SHAPE INVARIANT cfg_graph_shape (every edge connects the node kinds of its label: Block BlkStart->BlkEnd of the same pair, Jump "
    "BlkEnd->BlkStart with a CBranch as untaken jump, CallCombine BlkEnd->CallSource, Call CallSource->BlkStart, ExternCallStub BlkEnd->BlkStart, CrCallStub "
    "CallSource->CallReturn, CrReturnStub BlkEnd->CallReturn, ReturnCombine CallReturn->BlkStart; call / return blocks of artificial nodes have their jump) is a "
    "conjunct of the builder invariant and exported by get_program_cfg; units cfgbuild_rc367, fwd_fixpoint and bwd_fixpoint derive from it the graph hypotheses "
    "of cwe_367::check_cwe and of the fixpoint adapters. W3 was strengthened for that: of two jumps of a block the first is a conditional branch (graph.rs module "
    "documentation; what the P-Code extractor emits).")
PROPS["C17"]["units"] = ["reachcheck", "reachcheck_243", "reachcheck_367", "cfgbuild_rc367"]
PROPS["C17"]["level_note"] = PROPS["C17"]["level_note"].replace(
    "cwe_367::check_cwe keeps one graph precondition (rc367_pre: the target of every reporting edge is a BlkStart node -- a fact about the CFG builder, C08; its `_ => panic!` arm is a proved obligation under it).",
    "cwe_367::check_cwe has one graph precondition (rc367_pre: the target of every reporting edge is a BlkStart node; its `_ => panic!` arm is a proved obligation "
    "under it), which unit cfgbuild_rc367 PROVES for every graph returned by get_program_cfg on a well-formed program (from the builder's shape invariant; the "
    "composition includes the reachcheck definition files verbatim, check_cwe itself is not called in that Verus run).")
PROPS["C17"]["assumptions"] = [a for a in PROPS["C17"]["assumptions"] if not a.startswith("HYPOTHESIS rc367_pre")] + [
    "rc367_pre (cwe_367): proved for graphs returned by get_program_cfg under cfg_prog_wf (unit cfgbuild_rc367); a precondition for arbitrary graphs"]
PROPS["C07"]["not_covered"] = [n for n in PROPS["C07"]["not_covered"] if not n.startswith("that CFGs built by get_program_cfg satisfy")] + [
    "start values of the analyses have the NodeValue variant of their node; petgraph `reverse` (backward adapter: relative to bf_is_reversal)"]
PROPS["C07"]["level_note"] = PROPS["C07"]["level_note"].replace(
    "Not decided: that graphs built by get_program_cfg satisfy the edge-kind preconditions (sampled by the twins c07b.adapter / c07b.backward on built CFGs);",
    "The edge-kind preconditions are proved for graphs returned by get_program_cfg (forward: verified client on top of unit cfgbuild's shape invariant; backward: "
    "lemma relative to the meaning of petgraph's reverse) under cfg_prog_wf incl. 'of two jumps the first is a CBranch'. Not decided:")

# ---- C22 (unit modsel, round 3) -------------------------------------------------------------------------------------
TWINS["modsel"] = [("get_modules", "c22.modules"), ("lemma_ms_lkm", "c22.modules"), ("lemma_ms_list19", "c22.modules"), ("filter_modules_for_partial_run", "c22.split")]
PROPS["C22"] = {
    "units": ["modsel"],
    "level_text": (
        "get_modules (lib.rs) with the 19 CWE_MODULE statics and 3 VERSION constants, MODULES_LKM (checkers.rs) and filter_modules_for_partial_run (main.rs of the "
        "caller crate) are extracted verbatim from /repo on each run and verified by Verus: the module list names every known check exactly once (its names are "
        "pairwise different and are exactly one per `pub mod cwe_N` of checkers.rs plus \"Memory\") and exactly one entry is CWE78; for EVERY module list and EVERY "
        "--partial string the filter yields exactly the modules whose name is a comma-separated piece of the string, each once, ignores empty pieces, and "
        "panics exactly when a non-empty piece names no module; every MODULES_LKM entry occurs once and, except the dangling CWE457, names exactly one module."),
    "level_note": (
        "PARTIAL decision of the property, said plainly. Decided: 'a partial run executes exactly the listed checks' (the filter function, for every input) and the "
        "list / constant side of the other clauses ('names every known check once'; the default run's excluded name CWE78 exists exactly once; the kernel-module "
        "subset is a set of existing names but for CWE457). NOT decided: the default filter `name != \"CWE78\"`, the LKM `retain` and the --module-versions loop are "
        "INLINE statements of run_with_ghidra (file IO, Ghidra subprocess): the extractor pulls whole functions, and no look-alike was typed -- a mutant "
        "\"CWE78\" -> \"CWE87\" there still verifies; which `run` function a module carries and that only selected modules are called (function pointers are "
        "outside Verus: two statics with swapped names still verify); completeness of get_modules against the source tree; the order of a partial run (HashSet "
        "iteration order: observation for C23). No bounded stand-in exists for the filter (private fn of a binary crate). Observation: MODULES_LKM lists CWE457, "
        "for which no module exists. Trusted: CweModule restated without its fn-pointer field (R13b drops the field initialiser), shim/modsel.rs (split(c).collect "
        "into a HashSet = the set of maximal c-free substrings, cross-checked against std by twin c22.split; HashSet into_iter yields each element once; "
        "Iterator::find through the closure's contract), four R9 substitutions with the closure bodies verbatim, rules R13 / R13b / R14 / R11."),
    "design_ref": "DESIGN.md section 13 (C22)",
    "default_twins": ["c22.modules", "c22.split"],
    "sweep_twins": ["c22.modules", "c22.split"],
    "not_covered": [
        "default filter, LKM filter and --module-versions loop (inline statements of run_with_ghidra) and the branch selecting between them",
        "CweModule::run (function pointer) and the loop that calls the selected modules: 'warnings of a check appear only when that check was selected'",
        "completeness of get_modules against the source tree; the order of a partial run",
        "no bounded stand-in for filter_modules_for_partial_run (binary crate)",
    ],
    "assumptions": [
        "CweModule restated without `run`; R13 / R13b (drop-field) / R14 (elided lifetime in a const type) / R11",
        "shim/modsel.rs: verif_split_collect, verif_hs_into_vec, verif_iter_find, ms_panic_only_if, str::starts_with / contains without postcondition",
        "R9 substitutions 1-4 of contracts/modsel.vc (closure bodies verbatim)",
        "64-bit target (usize = u64)",
    ],
}

# ---- C09 (unit normalize, round 3) ----------------------------------------------------------------------------------
TWINS["normalize"] = [("normalize_basic", "c09.basic"), ("remove_duplicate_tids", "c09.basic"), ("remove_references", "c09.basic"), ("retarget_non", "c09.basic"),
                      ("make_block", "c09.basic"), ("duplicate_blocks", "c09.basic"), ("append_jump", "c09.basic"), ("generate_", "c09.basic"), ("", "c09.basic")]
PROPS["C09"] = {
    "units": ["normalize"],
    "level_text": (
        "The five passes of Project::normalize_basic -- remove_duplicate_tids, add_artifical_sink, remove_references_to_nonexisting_tids (with find_all_jump_targets, "
        "retarget_nonexisting_jump_targets_to_artificial_sink, remove_nonexisting_indirect_jump_targets), make_block_to_sub_mapping_unique (with its seven helpers of "
        "block_duplication_normalization.rs) and retarget_non_returning_calls_to_artificial_sink (with find_non_returning_subs) -- 25 functions in all, are extracted "
        "verbatim from /repo on each run and verified by Verus, each against a relational postcondition that names the WHOLE change of the program (what is removed, "
        "what is retargeted to which sink, what is copied with which suffix, and the frame), for every program satisfying the stated input hypotheses; "
        "normalize_basic is proved to be the chain of the five and panic-free (every panic! / unwrap is a discharged obligation), and a verified client derives from "
        "the chain: every function whose entry block's tid occurs nowhere else still starts with its original entry block; after the block pass every "
        "intraprocedural target is a block of the same function (modulo the sink block); every direct jump and return target exists (unknown ones point to the "
        "artificial sink); calls to non-returning functions return to the caller's artificial sink; all term identifiers are pairwise different after passes 1-3."),
    "level_note": (
        "PARTIAL decision, said plainly. NOT decided: uniqueness of identifiers after the block-copying and non-returning passes (it depends on the freshness of "
        "names built by string concatenation, which is uninterpreted here -- no injectivity is assumed, it would be false); hence the well-formedness preconditions of "
        "unit cfgbuild are not established and 'building the control flow graph of the result never fails' is not composed with C08; 'every direct call target "
        "exists' is proved for pass 3 but not threaded through passes 4-5. The bounded twin c09.basic checks ALL clauses incl. get_program_cfg on the result (4007 "
        "malformed programs) and is the stand-in for these. OPEN FINDING F1 (known_findings.txt, re-run on every check): remove_duplicate_tids deletes the entry "
        "block of a function when its tid occurred earlier (sub_0 = [blk_0 -> blk_1, blk_1], sub_1 = [blk_1] leaves sub_1 without blocks), contradicting 'every "
        "function still starts with its original entry block'; the contract states exactly when the entry survives. Input hypotheses (requires of normalize_basic): "
        "function tids are used by no other term (otherwise pass 1 panics), map key == tid, no artificial-sink names in the input, a tid named by a block is never a "
        "function / extern tid (otherwise pass 4 panics: replay file seeded/findings/C09-branch-to-function.json). Trusted: shim/normalize.rs (uninterpreted name "
        "functions for sink / suffixed tids with two axioms, Clone of Term, LogMessage opaque), six @nobody Tid helpers returning those name functions, R9 "
        "substitutions (values_mut() -> loop over keys with get_mut; guarded / or-pattern arms with &mut bindings split per alternative; iter_mut with continue -> "
        "index loop; filter_map / any / map collect chains -> explicit loops with the closure bodies verbatim; panic! -> requires-false call), vstd HashMap / HashSet / "
        "BTreeMap specifications under the key hypotheses of unit cfgbuild."),
    "design_ref": "DESIGN.md section 13 (C09)",
    "default_twins": ["c09.basic"],
    "sweep_twins": ["c09.basic"],
    "not_covered": [
        "uniqueness of term identifiers after passes 4 and 5 (freshness of concatenated names); bounded twin c09.basic",
        "composition with C08: that normalize_basic establishes cfg_prog_wf, i.e. 'building the control flow graph of the result never fails'; bounded twin",
        "'every direct call target exists' after passes 4-5; the bound of at most two jumps per block; termination of the worklist loop; log messages",
        "programs outside the input hypotheses (function tid reused by another term, branch to a function tid, pre-existing sink-shaped names)",
    ],
    "assumptions": [
        "HYPOTHESES of normalize_basic: cfg_key_hyp(), nz_sub_tids_alone, nz_keys_are_tids, nz_no_sink_names, nz_namespace",
        "shim/normalize.rs: uninterpreted nz_sink_sub / nz_sink_blk / nz_is_sink_blk / nz_with / nz_sfx with axiom_nz_sink_blk_is, axiom_nz_sink_names_differ; Clone for Term<T>; LogMessage without specification; nz_panic requires false",
        "@nobody: Tid::{artificial_sink_sub, artificial_sink_block, is_artificial_sink_block, is_artificial_sink_sub, with_id_suffix}, Term<Sub>::id_suffix",
        "R9 substitutions listed in contracts/normalize.vc",
        "everything imported with the IR data model units",
        "64-bit target (usize = u64)",
    ],
}

# ---- C22 after the fragment rule (R15) --------------------------------------------------------------------------------
TWINS["modsel"] = TWINS["modsel"] + [("ms_select_modules", "c22.modules"), ("ms_print_versions", "c22.modules")]
PROPS["C22"]["level_text"] = PROPS["C22"]["level_text"] + (
    " The selection statement (`if let Some(ref ..) = args.partial {..} else if project.runtime_memory_image.is_lkm {..} else {..}`) and the --module-versions loop of "
    "run_with_ghidra are extracted as FRAGMENTS (rule R15: a statement matched by a pattern inside the named function becomes the body of a wrapper with declared "
    "parameters; the matched text is emitted verbatim apart from three declared substitutions for the free variables) and verified for every list, every "
    "Option<String> and both values of is_lkm: partial given -> exactly the listed checks; kernel module -> exactly the modules whose name is an ENTRY of "
    "MODULES_LKM (element equality); otherwise -> every module except CWE78; the listing prints each entry of the list once, in order. Verified clients state the "
    "three selection clauses and the listing clause over get_modules().")
PROPS["C22"]["level_note"] = (
    "Decided: all four selection / listing clauses as far as they are statements about lists of modules. NOT decided: which `run` function a module carries and "
    "that exactly the selected modules are called ('warnings of a check appear only when that check was selected': function pointers are outside Verus; two statics "
    "with swapped names still verify); when and with which values run_with_ghidra executes the two statements (that `modules` is still the list of get_modules(), "
    "that args.partial / is_lkm / args.module_versions are what the command line and the binary say); completeness of get_modules against the source tree; the "
    "order of a partial run (HashSet iteration order: observation for C23); the text printed per module. No bounded stand-in exists for the binary crate's "
    "functions; twin c22.modules covers the library facts incl. the caller's expression MODULES_LKM.contains(&name) evaluated per module (it turns a type change "
    "of MODULES_LKM into a bounded violation). Observation: MODULES_LKM lists CWE457, for which no module exists. Trusted: CweModule restated without its "
    "fn-pointer field (R13b), the two R15 fragments with their substitutions, shim/modsel.rs (split(c).collect into a HashSet, HashSet into_iter, Iterator::find "
    "through the closure's contract, Vec::retain through the predicate's contract, println! of a module as a ghost trace), assume_specification of <[T]>::contains "
    "(element equality), R9 substitutions with the closure bodies verbatim, rules R13 / R13b / R14 / R11.")
PROPS["C22"]["not_covered"] = [
    "CweModule::run (function pointer) and the loop that calls the selected modules: 'warnings of a check appear only when that check was selected'",
    "when and with which values run_with_ghidra executes the selection statement and the listing loop",
    "completeness of get_modules against the source tree; the order of a partial run; the text printed per module",
    "no bounded stand-in for the functions of the binary crate",
]
PROPS["C22"]["assumptions"] = PROPS["C22"]["assumptions"] + [
    "R15 fragments ms_select_modules / ms_print_versions of run_with_ghidra with their declared substitutions (args.partial -> *partial, project.runtime_memory_image.is_lkm -> is_lkm, &mut modules -> modules)",
    "shim: verif_vec_retain (std documentation, through the predicate's contract), verif_print_module (ghost trace); assume_specification of <[T]>::contains",
]

# ---- C10 (unit exprsubst, round 3) -- PARTIAL -------------------------------------------------------------------------
TWINS["exprsubst"] = [("substitute_", "c10.subst"), ("unpack_", "c10.subst"), ("", "c10.subst")]
PROPS["C10"] = {
    "units": ["exprsubst", "trivpass"],
    "level_text": (
        "PARTIAL: the expression-level core of the optimizing normalization. All ten functions of intermediate_representation/expression/"
        "trivial_operation_substitution.rs (Expression::substitute_trivial_operations, recursive over the expression tree, and its helpers substitute_trivial_binops, "
        "substitute_binop_for_lhs_equal_rhs, substitute_and_xor_or_with_constant, substitute_equivalent_comparison_ops, substitute_complicated_a_less_than_b, "
        "substitute_arithmetics_with_constants, the two unpack_* matchers) are extracted verbatim from /repo on each run and verified by Verus: for EVERY well-sized "
        "expression (trees of any depth, all widths) the rewritten expression is well-sized, has the same byte size, and has, under every valuation of its variables "
        "under which the original has a P-Code value, the SAME value (P-Code oracle of C01 over mathematical integers); every panic! / unreachable! / unwrap site is "
        "proved unreachable. This is the statement 'every read of the rewritten expression yields what the original yielded' -- the per-expression part of "
        "'the optimized program behaves like the unoptimized one'. Round 4, unit trivpass: Project::substitute_trivial_expressions (the loop applying the rewriter to every Def and Jmp) "
        "is extracted verbatim and verified for every program whose expressions are well-sized: nothing outside the function map changes; functions, blocks, indirect-jump targets, "
        "number and order of defs and jumps, every def's tid / variant / assigned variable and every jump's tid / variant / targets / return targets are unchanged; every expression "
        "field of the IR data model (Assign.value, Load.address, Store.address, Store.value, BranchInd, CBranch.condition, CallInd.target, Return -- listed from def.rs / jmp.rs, not "
        "from the pass) has been handed to the rewriter and holds a well-sized expression of the same size and value under every valuation; from this it is PROVED that every prefix of "
        "every block body has the same effect on variables and abstract memory with the same sequence of memory reads and writes (addresses, sizes, values) and every jump the same "
        "condition / target value, from every state in which the original has defined values; all loops terminate, no panic site."),
    "level_note": (
        "On the pinned tree this postcondition FAILED for one arm: `1 == x - y` was rewritten to `x != y` (8 bit, x = 3, y = 1) -- repaired (fix: e127fe6, "
        "known_findings.txt); with the guard reduced to is_zero() the function verifies, and 59 million random trees of the bounded twin c10.subst showed no "
        "other class. NOT decided (the larger part of C10): the other four optimizing passes (expression propagation, dead variable elimination, control flow "
        "propagation, stack alignment substitution), and the link from "
        "'same value per expression' to C10's observables (memory accesses, call sequence, register state at exits): there is no program semantics behind this "
        "unit. The size clause is this rewriter's share of C12 (preservation, not establishment); C12 is not claimed. Boolean operations are read as P-Code defines "
        "them (operands 0 / 1): `x BoolAnd 1 -> x` is value-preserving only for boolean x. Trusted: restated derives (Clone / PartialEq of Expression and the "
        "operation enums, Box equality compares contents), five R9 substitutions forced by bisected Verus limitations (`= self {` -> `= &*self {`: rustc inside "
        "Verus panics only for a binding named lhs taken by &mut from the scrutinee self; or-patterns with a guard split per alternative; `*self = E` in guarded arms "
        "-> `verif_new = Some(E)` with one assignment after the match, right-hand sides verbatim; unreachable!/panic! -> requires-false call), the assumptions of unit "
        "bitvector (apint shim)."),
    "design_ref": "DESIGN.md section 13 (C10)",
    "default_twins": ["c10.subst"],
    "sweep_twins": ["c10.subst"],
    "not_covered": [
        "expression propagation, dead variable elimination, control flow propagation, stack alignment substitution (four of the five optimizing passes)",
        "the calls of the rewriter from expression_propagation; composition of block effects along paths / across calls and with the other passes of normalize_optimize",
        "trivpass: states in which an expression has no P-Code value (Unknown, float, division by zero); sub-register aliasing between variables (aliasing-free cells)",
        "the link from per-expression value preservation to the property's observables (no program semantics in this unit)",
        "that the program's expressions are well-sized before the rewrite; Def / Jmp level sizing (C12)",
        "values of float operations and Unknown (only the size clauses hold for them)",
    ],
    "assumptions": [
        "shim/exprsubst.rs: Expression::clone / eq restated (structural), axiom_es_box_eq, PartialEqSpecImpl of BinOpType / CastOpType / UnOpType, es_unreachable requires false",
        "R9 substitutions S1-S5 of contracts/exprsubst.vc (right-hand sides verbatim)",
        "HYPOTHESIS es_wf of the input expression (P-Code sizing rules; sizes <= 32 MiB)",
        "everything assumed by unit bitvector (apint contracts, derives, R5)",
        "64-bit target (usize = u64)",
        "trivpass: PRECONDITION tp_prog_wf (es_wf at every expression position; establishing it is C12); cfg_key_hyp (vstd key / cmp model for Tid)",
        "trivpass: axiom_tp_mark (uninterpreted 'visited' marker produced only by the verified wrapper tp_rewrite around the rewriter call; no semantic content); TpMem / tp_mem_load / tp_mem_store uninterpreted",
        "trivpass: R9 values_mut -> keys + get_mut (as unit normalize); or-pattern arms with &mut bindings split per alternative; `.substitute_trivial_operations()` -> `.tp_rewrite()`; everything imported with units normalize / exprsubst",
    ],
}

# ---- C11 (unit subreg, round 3) -- PARTIAL ----------------------------------------------------------------------------
TWINS["subreg"] = [("replace_subregister_in_block", "c11.subreg"), ("SubregisterSubstitutionBuilder", "c11.subreg"), ("is_next_def_cast_to_base_register", "c11.castsmall"),
                   ("replace_output_subregister", "c11.castsmall"), ("replace_input_subregister", "c11.subreg"), ("replace_subregister_in_jump", "c11.subreg"),
                   ("piece_base_register_assignment_expression_together", "c11.subreg"), ("create_subpiece_from_sub_register", "c11.subreg"),
                   ("substitute_input_var", "c11.subreg"), ("input_vars", "c11.subreg"), ("", "c11.subreg")]
PROPS["C11"] = {
    "units": ["subreg"],
    "level_text": (
        "PARTIAL: the sub-register substitution step of the P-Code lifting. All 13 functions of pcode/subregister_substitution/mod.rs (with Expression::input_vars / "
        "substitute_input_var and From<&RegisterProperties> for Variable) are extracted verbatim from /repo on each run and verified by Verus: for every register "
        "table, block, register and memory content, the block after the substitution executed with plain variables and the block before it executed with "
        "sub-registers ALIASING bytes of their base register end with the same contents of all base registers, the same memory and sequence of memory writes, and "
        "the same values of all jump conditions / indirect targets; afterwards only base registers at full size and temporaries occur. The merge of 'sub-register "
        "write + cast into its base register' is proved for every cast operation and fires only when the cast writes the whole base register; the builder loop "
        "terminates; both panic!() sites are unreachable. Expressions are evaluated with the C01 P-Code oracle; the proof depends only on the meaning of SUBPIECE, "
        "PIECE and variable access (other operators and memory are black boxes)."),
    "level_note": (
        "On the pinned tree the block-level statement needed a hypothesis that real input violates: a cast into the base register's NAME at a smaller size "
        "(`R8_hi:1 = ..; R8:2 = INT_ZEXT R8_hi:1`, the property's 'same-name smaller registers and cast-to-base idioms') was merged and a sub-register write survived "
        "-- repaired (fix: 19618dc, known_findings.txt); it is now a failing postcondition of is_next_def_cast_to_base_register when reintroduced. NOT decided (the "
        "larger part of C11): JSON deserialisation of the P-Code project, pcode::Project::normalize and the implicit RAM access defs, the mnemonic tables of "
        "pcode/expressions.rs, Def::into_ir_def / jump and call translation, Project::into_ir_project (the twins c11.subreg / c11.castsmall drive the public "
        "into_ir_project and exercise these in bounded form, flat P-Code only). Hypotheses: well-formed register table (entries under their own name, a base "
        "register is its own base at byte 0, lsb + size <= base size, a differently named register is strictly smaller than its base -- a full-size alias register is "
        "excluded: observation, seeded/findings/C11-fullsize-alias.json), register variables lie inside their base, assignments to registers are well-sized (the "
        "code's own debug_assert), nothing is named `loaded_value` (freshness of the builder's temporary). Trusted: restated derives, two borrowed-key axioms for "
        "HashMap<&K, V>, String extensionality, the (slice, index) model of Peekable<slice::Iter> with verified bodies, Tid::with_id_suffix without contract, the R9 "
        "substitutions of contracts/subreg.vc, everything assumed by unit bitvector."),
    "design_ref": "DESIGN.md section 13 (C11)",
    "default_twins": ["c11.subreg", "c11.castsmall"],
    "sweep_twins": ["c11.subreg", "c11.castsmall"],
    "not_covered": [
        "JSON deserialisation of the P-Code project; pcode::Project::normalize and the implicit RAM access defs",
        "the mnemonic tables of pcode/expressions.rs; Def::into_ir_def, From<Jmp> for IrJmp, call translation (exercised by the twins, bounded)",
        "Project::into_ir_project: loop over blocks, extern-symbol and calling-convention arguments, block order repair",
        "identifiers (tids) of the emitted defs; whether the cast merge is applied whenever possible",
        "register tables with a register that covers its whole base register under another name",
    ],
    "assumptions": [
        "HYPOTHESES obeys_key_model::<&String>(), sr_table_ok(register_map), sr_block_ok(block)",
        "shim/subreg.rs: Clone / PartialEq restated; axiom_sr_contains_ref_key; axiom_sr_maps_ref_key_to_value; axiom_sr_string_ext; Peekable / Iter model; sr_unreachable requires false",
        "@nobody Tid::with_id_suffix; R11 on the builder's field type; 13 R9 substitutions in 8 functions (unit header)",
        "everything assumed by unit bitvector (apint contracts, derives, R5)",
        "64-bit target (usize = u64)",
    ],
}

# ---- C08 after follow-up 2 of unit cfgbuild: termination + closed form ----------------------------------------------
PROPS["C08"]["level_text"] = PROPS["C08"]["level_text"] + (
    " Follow-up: TERMINATION of the worklist loop add_jump_and_call_edges is proved (measure: number of (block, function) pairs of the finite universe blocks x "
    "functions not yet registered, then worklist length; every loop of the 17 extracted functions now has a decreases). CLOSED FORM of the final graph, from the "
    "program alone: the registered pairs are exactly the least set P containing every (block, function listing it) and closed under 'target / hint / return "
    "target named by a jump of the pair's block, same function'; the graph has one BlkStart node, one BlkEnd node and one Block edge per pair of P and no other "
    "block nodes or Block edges; its non-Block edges, as labelled edges (node weights at both ends, independent of numbering), are exactly the property's edges "
    "of each pair of P -- each pair enumerated once -- followed by the return linkage (per returning BlkEnd node and registered return address of its function "
    "a CallReturn node with CrCallStub, CrReturnStub, ReturnCombine), and nothing else.")
PROPS["C08"]["level_note"] = PROPS["C08"]["level_note"].replace(
    "Partial correctness: termination of the worklist loop add_jump_and_call_edges is NOT proved (exec_allows_no_decreases_clause). The global statement is "
    "cfg_global (unique pairs; final edge sequence = Block edges of program positions ++ the per-round contributions, each BlkEnd in exactly one round, ++ "
    "return linkage), NOT a closed-form multiset comprehension over (pair, jump index, hint index): that flattening lemma is missing; the bounded twin "
    "c08.cfg compares the labelled node/edge multisets of the real get_program_cfg with a declarative reference (6006 programs).",
    "Total correctness up to the trusted shims. The closed form is stated over SEQUENCES in the builder's enumeration order (processing order of P, node order of "
    "returning blocks), not as a Seq::to_multiset equation; the return addresses inside the return-linkage part are those of the state after the rounds, not yet "
    "re-expressed from the program ('one per processed direct call with a return target to a function with a first block'); CallSource / CallReturn nodes are "
    "characterised through the labelled edges they occur in. The bounded twin c08.cfg compares the labelled node / edge multisets of the real get_program_cfg "
    "with a declarative reference (6006 programs) and covers these last steps in bounded form.")
PROPS["C08"]["not_covered"] = [
    "closed form stated over sequences in enumeration order, not as a multiset equation; return addresses of the return linkage not re-expressed from the program; multiset of CallSource / CallReturn nodes only via the labelled edges (bounded twin c08.cfg)",
    "node / edge order (BTreeMap iteration order unspecified)",
    "petgraph u32 capacity panics",
    "body of Program::find_block (iterator chain; @nobody)",
    "ToJsonCompact, Display, HasCfg",
]

# ---- C24 after the trust reduction of unit callgraph (final chain and node lookup verified) --------------------------
PROPS["C24"]["assumptions"] = [
    "shim/callgraph.rs contracts of petgraph 0.6 (neighbors_directed, edges_directed: every entry is an edge at the node in the given direction and every such edge has an entry; no order, no multiplicity assumed; EdgeReference::id; Index<EdgeIndex> / Index<NodeIndex> return the edge / node weight, 'the edge / node exists' is a PROVED precondition at every `callgraph[..]`; node_indices yields 0..node_count ascending; node / edge indices are u32; edges connect existing nodes) and std BTreeSet::{new, insert, contains, iter} (iter: every visited item is an element, every element is visited; no order, no multiplicity assumed), written from their documentation",
    "R9: the final `A.iter().filter_map(CLOSURE).collect()` -> the closure kept as a closure (verbatim body, verified header), called once per element of A, its Some results inserted into a new BTreeSet; what the chain computes is proved, not assumed",
    "R9: `callgraph.node_indices().find(|node| BODY).unwrap_or_else(|| panic!(..))` -> a flag loop over the node indices in ascending order evaluating BODY verbatim up to the first true; the panic for a tid that labels no node diverges (R5), not claimed",
    "derive(PartialEq, Eq, Clone) of Tid restated in contracts/callgraph.vc: == is specification equality, clone returns an equal Tid",
] + [a for a in PROPS["C24"]["assumptions"] if a.startswith(("the type alias CallGraph", "64-bit target", "shim/callgraph_build.rs", "HYPOTHESES vstd", "R9: BTreeMap keys()", "PRECONDITION cgb_pre"))]
PROPS["C24"]["level_note"] = PROPS["C24"]["level_note"].replace(
    "Of 'exactly', one step of the query is assumed, not proved: the final `.iter().filter_map(..).collect()` is an R9 substitution whose "
    "contract is 'the tids of the edges contained in both edge sets'. ",
    "The final filter_map chain and the node lookup of the query are VERIFIED (their closures are extracted verbatim; `callgraph[*edge]` / `callgraph[*node]` are "
    "proved to index existing edges / nodes): nothing of the property's word 'exactly' is assumed any more. ").replace(
    "std BTreeSet::new/insert as a Set", "std BTreeSet::new/insert/contains/iter as a Set")

# ---- C03 / C04 / C05 after the instantiation units (round 3) ----------------------------------------------------------
PROPS["C03"]["units"] = PROPS["C03"]["units"] + ["instantiate_data_domain", "instantiate_domain_map", "instantiate_domain_map_data", "instantiate_mem_region"]
PROPS["C04"]["units"] = PROPS["C04"]["units"] + ["instantiate_data_domain"]
PROPS["C05"]["units"] = PROPS["C05"]["units"] + ["instantiate_mem_region"]
_INST_NOTE_C03 = (
    " INSTANTIATIONS (round 3): the generic units are proved relative to named hypotheses on their value domains; these hypotheses are now PROVED for the "
    "instantiations the real code uses, by units that import both the generic and the concrete unit (a verified witness calls each imported concrete function, so "
    "'concrete contract ==> hypothesis' is re-checked on every run): DataDomain<T> at T = IntervalDomain (dd_merge_hyp with merge_pre = inv, equal widths <= 64 bit, "
    "merged stride >= 2 ==> merge_span <= i64::MAX, both widening delays <= i64::MAX; a verified client states C03 for Data = DataDomain<IntervalDomain> under "
    "exactly these conditions on common targets and absolute parts; for widths <= 32 bit only the delay bounds remain); DomainMap<K, V, S> at V = BitvectorDomain "
    "(cwe_119 bounds maps; needs equal byte size of the operands), V = Taint, V = Data (pointer-inference register map, MergeTop; the trait default merge_with is "
    "extracted and verified at Self = Data); MemRegion<T> at T = BitvectorDomain and T = Data. dm_top_is_max is REFUTED for BitvectorDomain and Taint (Intersect "
    "strategy; no DomainMap in /repo uses it). Trusted for this: 12 wrappers 'the exec function is a function of its arguments' (determinism only), 'a BTreeMap is "
    "its entries' (2 axioms), derive(PartialEq) of Taint / DataDomain restated; hypotheses on the opaque key types (AbstractIdentifier, K) remain.")
PROPS["C03"]["level_note"] = PROPS["C03"]["level_note"].replace("instantiation for IntervalDomain/DataDomain/Taint not performed", "instantiation: see INSTANTIATIONS below").replace(
    "but the instantiation is not performed", "and the instantiation IS performed (see INSTANTIATIONS below)") + _INST_NOTE_C03
PROPS["C04"]["level_note"] = PROPS["C04"]["level_note"] + (
    " INSTANTIATION (round 3): DataDomain's five bound wrappers and intersect at T = IntervalDomain: dd_refine_hyp and dd_intersect_hyp are proved for "
    "IntervalDomain (refine_pre = inv, narrow, bound of equal width <= 64 bit; intersect_pre = inv, equal widths <= 64 bit, lcm(strides) <= u64::MAX above 32 bit) and "
    "verified clients cover add_*_bound and intersect of Data = DataDomain<IntervalDomain>.")
PROPS["C05"]["level_note"] = PROPS["C05"]["level_note"] + (
    " MACHINERY FINDING M6 (2026-09-22, repaired): the hypothesis mr_domain_ok on T was UNSATISFIABLE for every T (new_top(s) was given size s for every u64 s while "
    "every value was bounded by 2^25 bytes), so every contract requiring it -- all of C05 but new / top / is_top / clear_top_values -- was vacuously true although "
    "the vacuity probe, the seeds and the mutation tests looked healthy (the contradiction needs a ground term no trigger produces). Found by the instantiation "
    "unit (a three-line lemma proved !mr_domain_ok::<T>()). Repair: the hypotheses are now RELATIVE to T's value invariant inv_spec and to T's preconditions "
    "merge_pre_spec / bytesize_pre_spec / top_pre_spec; values handed to a region must satisfy inv_spec, stored cells do (part of the region invariant); merge_inner "
    "and merge need T's merge precondition on equally sized cells at a common offset; the property-level postconditions are unchanged; all 113 obligations of the "
    "unit were re-proved. The hypotheses are PROVED for a toy domain inside the unit and for T = BitvectorDomain (inv = wf) and T = DataDomain<IntervalDomain> (inv = "
    "size <= 2^25; merge precondition = DataDomain::merge's) in unit instantiate_mem_region, which also verifies read-after-write and merge clients at "
    "MemRegion<Data>. RULE since: every generic unit carries a machine-checked witness of its hypothesis set. MemRegion::merge on equal regions returns the region "
    "itself; the merge-rule form of that case holds whenever T's merge is idempotent (BitvectorDomain; not derivable for Data).")
PROPS["C05"]["assumptions"] = PROPS["C05"]["assumptions"] + [
    "instantiation units: 'a BTreeMap is its finite set of entries' (2 axioms), derive(PartialEq) of DataDomain restated, dd_id_ok / inst_id_eq_ok on AbstractIdentifier, 12 determinism wrappers for IntervalDomain's functions",
]
PROPS["C03"]["assumptions"] = PROPS["C03"]["assumptions"] + [
    "instantiation units: 12 determinism wrappers (the exec function is a function of its arguments), 2 BTreeMap axioms, derive(PartialEq) of Taint / DataDomain restated, R9 `self != other` in the Data merge_with",
]

PROPS["C04"]["not_covered"] = PROPS["C04"]["not_covered"] + [
    "DataDomain::intersect with both targets and absolute parts at T = IntervalDomain for values of 5..8 bytes: the merge_span side condition of the widening merge on the intersected / merged absolute part is a side condition, not discharged (closed for widths <= 32 bit)",
]
PROPS["C04"]["level_note"] = PROPS["C04"]["level_note"] + (
    " DataDomain::without_widening_hints at T = IntervalDomain: dd_hints_hyp::<IntervalDomain>() is proved unconditionally (IntervalDomain::without_widening_hints has "
    "no precondition any more) and a client requires only the identifier hypothesis. DataDomain::intersect at T = IntervalDomain is closed for values of at most 4 "
    "bytes in all cases, incl. targets and absolute parts on both sides (this needed the widening delays of IntervalDomain::intersect and ::merge exported); for "
    "5..8-byte values in the mixed pointer / absolute case the machine-arithmetic side condition of the widening merge on the intermediate results stays a side "
    "condition of the client.")
PROPS["C04"]["assumptions"] = PROPS["C04"]["assumptions"] + ["8-byte values, mixed pointer / absolute intersect of DataDomain<IntervalDomain>: merge_span <= i64::MAX on the intermediate absolute parts"]

# ---- twins for DataDomain / DomainMap (replay/src/c03b.rs) ------------------------------------------------------------
TWINS["data_domain"] = [("DataDomain<T>::merge", "c03.data_merge"), ("DataDomain<T>::add_", "c04.data_bounds"), ("DataDomain<T>::is_empty", "c04.data_bounds"),
    ("intersect_relative_values", "c04.data_intersect"), ("DataDomain<T>::intersect", "c04.data_intersect"), ("DataDomain<T>::from", "c04.data_intersect"),
    ("DataDomain<T>::is_top", "c03.domain_map"), ("DataDomain<T>::new_top", "c03.domain_map"), ("DataDomain<T>::top", "c03.domain_map")]
TWINS["domain_map"] = [("", "c03.domain_map")]
TWINS["instantiate_domain_map_data"] = [("AbstractDomain::merge_with", "c03.domain_map")]
TWINS["instantiate_data_domain"] = [("", "c03.data_merge")]
TWINS["instantiate_domain_map"] = [("", "c03.domain_map")]
TWINS["taint"] = TWINS.get("taint", []) + [("Taint::merge", "c03.domain_map"), ("Taint::is_top", "c03.domain_map")]
PROPS["C03"]["default_twins"] = PROPS["C03"]["default_twins"] + ["c03.data_merge", "c03.domain_map"]
PROPS["C03"]["sweep_twins"] = PROPS["C03"]["sweep_twins"] + ["c03.data_merge", "c03.domain_map"]
PROPS["C04"]["default_twins"] = PROPS["C04"]["default_twins"] + ["c04.data_bounds", "c04.data_intersect"]
PROPS["C04"]["sweep_twins"] = PROPS["C04"]["sweep_twins"] + ["c04.data_bounds", "c04.data_intersect"]

# ---- satisfiability audit (SAT_AUDIT.md): every property -------------------------------------------------------------
TWINS["interval_base"] = [t for t in TWINS["interval_base"] if t[0] not in ("Interval::is_top", "Interval::new_top")]
for _pid in PROPS:
    PROPS[_pid]["level_note"] = PROPS[_pid]["level_note"] + (
        " Satisfiability: the preconditions of every contracted function of the units and every hypothesis predicate over type parameters have a machine-checked "
        "witness (verified exec clients that build concrete arguments and call the real contracted function, witness lemmas, toy and real instances; "
        "lemmas/<unit>_sat.rs, table in SAT_AUDIT.md); vstd's obeys_key_model / obeys_cmp stay hypotheses.")


def twin_for(unit, label):
    for frag, twin in TWINS.get(unit, []):
        if frag in label.replace("impl BitvectorExtended for ", "").replace("impl RegisterDomain for ", "").replace("impl ", ""):
            return twin
    return None