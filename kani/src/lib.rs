//! Kani cross-check of the ASSUMED apint contracts in /verif/shim/apint.rs and shim/apint_ops.rs.
//! Each harness runs the REAL apint 0.2.0 code on fully symbolic operands of one width and compares it with
//! the formula of the shim contract written over u64/i64 machine arithmetic.  All harnesses are loop free
//! (inline single-digit storage, widths <= 64), so a successful run is a complete proof for that width.
//! This is an assumption check of the trusted base (thorough tier), never counted as a proof obligation.
#![allow(dead_code)]
#[cfg(kani)]
mod harnesses {
    use apint::{ApInt, BitWidth, Width};

    fn mk(w: usize, v: u64) -> ApInt {
        let a = ApInt::from_u64(v);
        if w == 64 { a } else { a.into_truncate(w).unwrap() }
    }
    fn mask(w: usize) -> u64 { if w == 64 { u64::MAX } else { (1u64 << w) - 1 } }
    fn val(a: &ApInt) -> u64 { a.clone().into_zero_resize(BitWidth::w64()).try_to_u64().unwrap() }
    fn sval(w: usize, u: u64) -> i64 { if w == 64 { u as i64 } else if (u >> (w - 1)) & 1 == 1 { (u as i64) - (1i64 << w) } else { u as i64 } }

    macro_rules! width_harness {
        ($name:ident, $w:expr, $body:expr) => {
            #[kani::proof]
            #[kani::unwind(20)]
            fn $name() {
                let w: usize = $w;
                let ua: u64 = kani::any::<u64>() & mask(w);
                let ub: u64 = kani::any::<u64>() & mask(w);
                let f: fn(usize, u64, u64) = $body;
                f(w, ua, ub);
            }
        };
    }

    fn check_arith(w: usize, ua: u64, ub: u64) {
        let (a, b) = (mk(w, ua), mk(w, ub));
        // bv_add / bv_sub / bv_neg / bits_not: value modulo 2^w, width kept
        let s = a.clone().into_checked_add(&b).unwrap();
        assert!(s.width().to_usize() == w && val(&s) == ua.wrapping_add(ub) & mask(w));
        let d = a.clone().into_checked_sub(&b).unwrap();
        assert!(val(&d) == ua.wrapping_sub(ub) & mask(w));
        let n = -a.clone();
        assert!(val(&n) == ua.wrapping_neg() & mask(w));
        let c = a.clone().into_bitnot();
        assert!(val(&c) == !ua & mask(w));
        assert!(val(&(&a & &b)) == ua & ub && val(&(&a | &b)) == ua | ub && val(&(&a ^ &b)) == ua ^ ub);
        assert!(val(&(&a + &b)) == val(&s) && val(&(&a - &b)) == val(&d));
    }
    fn check_cmp(w: usize, ua: u64, ub: u64) {
        let (a, b) = (mk(w, ua), mk(w, ub));
        let (sa, sb) = (sval(w, ua), sval(w, ub));
        assert!(a.checked_ult(&b).unwrap() == (ua < ub) && a.checked_ule(&b).unwrap() == (ua <= ub));
        assert!(a.checked_ugt(&b).unwrap() == (ua > ub) && a.checked_uge(&b).unwrap() == (ua >= ub));
        assert!(a.checked_slt(&b).unwrap() == (sa < sb) && a.checked_sle(&b).unwrap() == (sa <= sb));
        assert!(a.checked_sgt(&b).unwrap() == (sa > sb) && a.checked_sge(&b).unwrap() == (sa >= sb));
        assert!((a == b) == (ua == ub));
        assert!(a.is_zero() == (ua == 0) && a.is_one() == (ua == 1));
        assert!((a.sign_bit() == apint::Bit::Set) == (sa < 0));
        assert!(apint::Int::from(a.clone()).is_negative() == (sa < 0) && apint::Int::from(a.clone()).is_positive() == (sa >= 0));
    }
    fn check_prim(w: usize, ua: u64, _ub: u64) {
        let a = mk(w, ua);
        assert!(a.try_to_u64().unwrap() == ua);
        assert!(a.try_to_i64().unwrap() == sval(w, ua));
        assert!(a.try_to_i128().unwrap() == sval(w, ua) as i128);
        assert!(a.count_ones() == ua.count_ones() as usize);
        assert!(a.leading_zeros() == (ua.leading_zeros() as usize) - (64 - w));
        assert!(val(&ApInt::zero(BitWidth::from(w))) == 0 && val(&ApInt::one(BitWidth::from(w))) == 1);
        assert!(val(&ApInt::unsigned_max_value(BitWidth::from(w))) == mask(w));
        assert!(val(&ApInt::signed_min_value(BitWidth::from(w))) == 1u64 << (w - 1));
        assert!(val(&ApInt::signed_max_value(BitWidth::from(w))) == (1u64 << (w - 1)) - 1);
    }
    // NOTE: apint builds its error values with `format!`; CBMC does not finish on paths that construct one
    // (measured: > 1 h, 6 GB per harness).  The harnesses therefore stay on the Ok side (kani::assume); the Err
    // conditions of the shim contracts are checked by the twin sweeps and by reading the apint source only.
    fn check_shift(w: usize, ua: u64, _ub: u64) {
        // concrete shift amounts (a symbolic amount keeps apint's error-constructing branch in the formula)
        let a = mk(w, ua);
        let mut n: usize = 0;
        while n < w {
            assert!(val(&a.clone().into_checked_shl(n).unwrap()) == (ua << n) & mask(w));
            assert!(val(&a.clone().into_checked_lshr(n).unwrap()) == ua >> n);
            assert!(val(&a.clone().into_checked_ashr(n).unwrap()) == ((sval(w, ua) >> n) as u64) & mask(w));
            n += if w <= 16 { 1 } else { 7 };   // all amounts at 8/16 bit; 0,7,14,.. at 32/64 bit
        }
    }
    fn check_resize(w: usize, ua: u64, ub: u64) {
        let a = mk(w, ua);
        // extension targets: the four byte-sized widths at or above w; truncation targets: those at or below w
        for t in [8usize, 16, 32, 64] {
            if t >= w {
                let z = a.clone().into_zero_extend(t).unwrap();
                assert!(z.width().to_usize() == t && val(&z) == ua);
                assert!(val(&a.clone().into_sign_extend(t).unwrap()) == (sval(w, ua) as u64) & mask(t));
                assert!(val(&a.clone().into_zero_resize(t)) == ua);
            }
            if t <= w {
                assert!(val(&a.clone().into_truncate(t).unwrap()) == ua & mask(t));
                assert!(val(&a.clone().into_zero_resize(t)) == ua & mask(t));
            }
        }
        let _ = ub;
    }
    fn check_mul(w: usize, ua: u64, ub: u64) {
        let (a, b) = (mk(w, ua), mk(w, ub));
        let m = a.clone().into_checked_mul(&b).unwrap();
        assert!(val(&m) == ua.wrapping_mul(ub) & mask(w));
    }

    width_harness!(arith_8, 8, check_arith);
    width_harness!(arith_16, 16, check_arith);
    width_harness!(arith_32, 32, check_arith);
    width_harness!(arith_64, 64, check_arith);
    width_harness!(cmp_8, 8, check_cmp);
    width_harness!(cmp_16, 16, check_cmp);
    width_harness!(cmp_32, 32, check_cmp);
    width_harness!(cmp_64, 64, check_cmp);
    width_harness!(prim_8, 8, check_prim);
    width_harness!(prim_16, 16, check_prim);
    width_harness!(prim_32, 32, check_prim);
    width_harness!(prim_64, 64, check_prim);
    width_harness!(shift_8, 8, check_shift);
    width_harness!(shift_16, 16, check_shift);
    width_harness!(shift_32, 32, check_shift);
    width_harness!(shift_64, 64, check_shift);
    width_harness!(resize_8, 8, check_resize);
    width_harness!(resize_16, 16, check_resize);
    width_harness!(resize_32, 32, check_resize);
    width_harness!(resize_64, 64, check_resize);
    width_harness!(mul_8, 8, check_mul);
    width_harness!(mul_16, 16, check_mul);
}
